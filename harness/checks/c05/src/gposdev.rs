//! (d) GPOS lookups whose value records and anchors carry Device /
//! VariationIndex tables, at 0.8x-3.5x the 64 KiB limit, so that the
//! splitting code has to re-link the device offsets of the records it moves
//! (PairPos format 1 and 2: both value records; MarkBasePos: mark and base
//! anchors of format 3) and extension promotion moves whole lookups
//! (SinglePos format 1 and 2 as well).
//!
//! Every device offset FIELD of the input gets a table with an id: either
//! unique per field (no two fields share an object) or drawn from a pool (the
//! compiler shares identical objects, the splitter's `visited` accounting
//! runs). Device contents encode the id, VariationIndex tables carry it as
//! (outer, inner). Oracle, on read-back through read-fonts: every input glyph
//! reaches its record through exactly one output subtable and EVERY device /
//! variation-index offset of that record resolves to a table with the content
//! written for that exact field (a null offset where the input had none).

use std::collections::{HashMap, HashSet};

use font_types::GlyphId16;
use read_fonts::tables::{gpos as rgpos, layout as rlayout};
use read_fonts::{FontData, FontRead};
use serde_json::{json, Value};
use vf_core::{fnv64, Ctx, Rng};
use write_fonts::tables::{gpos, layout};
use write_fonts::{dump_table, error::Error, verif_graph_hooks as hooks};

const KINDS: [&str; 7] = ["pairpos2-dev", "pairpos1-dev", "markbase-dev", "singlepos-dev", "mixed-dev", "pairpos2-dev", "pairpos2-dev"];
const DEV_MODES: [&str; 5] = ["device", "varidx", "mixed", "device-pool", "mixed-pool"];

// ---------------------------------------------------------------- device tables with ids

#[derive(Clone, Copy, PartialEq, Eq, Debug, Default)]
enum Dv {
    #[default]
    None,
    Dev(u32),
    Var(u32),
}

fn device_of(id: u32) -> layout::Device {
    let start = 8 + (id % 5) as u16;
    let n = 4 + (id / 5 % 4) as usize;
    let b = id.to_le_bytes();
    let vals: Vec<i8> = (0..n)
        .map(|j| if j < 4 { b[j] as i8 } else { (id.wrapping_mul(31).wrapping_add(j as u32 * 7) % 251) as u8 as i8 })
        .collect();
    layout::Device::new(start, start + n as u16 - 1, &vals)
}

fn owned_dv(d: Dv) -> Option<layout::DeviceOrVariationIndex> {
    match d {
        Dv::None => None,
        Dv::Dev(id) => Some(layout::DeviceOrVariationIndex::Device(device_of(id))),
        Dv::Var(id) => Some(layout::DeviceOrVariationIndex::VariationIndex(layout::VariationIndex::new((id >> 16) as u16, id as u16))),
    }
}

fn show_read(d: &rlayout::DeviceOrVariationIndex) -> String {
    match d {
        rlayout::DeviceOrVariationIndex::Device(d) => format!(
            "Device(start {}, end {}, format {}, words {:?})",
            d.start_size(),
            d.end_size(),
            d.delta_format() as u16,
            d.delta_value().iter().map(|w| w.get()).collect::<Vec<u16>>()
        ),
        rlayout::DeviceOrVariationIndex::VariationIndex(v) => format!("VariationIndex({}, {})", v.delta_set_outer_index(), v.delta_set_inner_index()),
    }
}

fn show_want(d: Dv) -> String {
    match d {
        Dv::None => "null offset".into(),
        Dv::Dev(id) => {
            let o = device_of(id);
            format!("Device#{}(start {}, end {}, format {}, words {:?})", id, o.start_size, o.end_size, o.delta_format as u16, o.delta_value)
        }
        Dv::Var(id) => format!("VariationIndex#{}({}, {})", id, id >> 16, id & 0xffff),
    }
}

/// does the offset (as resolved by read-fonts) land on the table written for this field?
fn check_dv(want: Dv, got: Option<Result<rlayout::DeviceOrVariationIndex, read_fonts::ReadError>>, w: &dyn Fn() -> String, tally: &mut Tally) -> Result<(), String> {
    let got = match got {
        None => None,
        Some(Err(e)) => return Err(format!("{}: device offset does not resolve: {:?} (expected {})", w(), e, show_want(want))),
        Some(Ok(d)) => Some(d),
    };
    let same = match (&want, &got) {
        (Dv::None, None) => {
            tally.nulls += 1;
            true
        }
        (Dv::Dev(id), Some(rlayout::DeviceOrVariationIndex::Device(d))) => {
            let o = device_of(*id);
            tally.devices += 1;
            d.start_size() == o.start_size
                && d.end_size() == o.end_size
                && d.delta_format() as u16 == o.delta_format as u16
                && d.delta_value().iter().map(|x| x.get()).collect::<Vec<u16>>() == o.delta_value
        }
        (Dv::Var(id), Some(rlayout::DeviceOrVariationIndex::VariationIndex(v))) => {
            tally.varidx += 1;
            v.delta_set_outer_index() == (*id >> 16) as u16 && v.delta_set_inner_index() == *id as u16
        }
        _ => false,
    };
    if same {
        Ok(())
    } else {
        Err(format!(
            "{}: device offset resolves to the WRONG object: found {}, the input wrote {}",
            w(),
            got.as_ref().map(show_read).unwrap_or_else(|| "a null offset".into()),
            show_want(want)
        ))
    }
}

#[derive(Default, Debug)]
struct Tally {
    devices: u64,
    varidx: u64,
    nulls: u64,
    records: u64,
    anchors: u64,
    glyphs: u64,
    subtables: usize,
    extension_lookups: usize,
    pp1_out: usize,
    pp2_out: usize,
    mb_out: usize,
}

/// hands out the device of one offset field
struct DevGen {
    mode: usize,
    next: u32,
    pool: u32,
    null_pct: u64,
}

impl DevGen {
    fn draw(&mut self, r: &mut Rng) -> Dv {
        if r.chance(self.null_pct, 100) {
            return Dv::None;
        }
        let id = if self.pool > 0 {
            1 + r.below(self.pool as u64) as u32
        } else {
            self.next += 1;
            self.next
        };
        match self.mode {
            0 | 3 => Dv::Dev(id),
            1 => Dv::Var(id),
            _ => {
                if r.bool() {
                    Dv::Dev(id)
                } else {
                    Dv::Var(id)
                }
            }
        }
    }
}

// ---------------------------------------------------------------- value records

/// ValueFormat bits: 0..3 x/y placement, x/y advance; 4..7 their devices
#[derive(Clone, Debug, Default)]
struct XVr {
    fmt: u8,
    vals: [i16; 4],
    devs: [Dv; 4],
}

fn val16(a: u64, b: u64) -> i16 {
    (fnv64(&[a.to_le_bytes(), b.to_le_bytes()].concat()) >> 9) as i16
}

fn gen_vr(r: &mut Rng, dg: &mut DevGen, fmt: u8, salt: u64) -> XVr {
    let mut x = XVr { fmt, ..Default::default() };
    for i in 0..4 {
        if fmt & (1 << i) != 0 {
            x.vals[i] = val16(salt, i as u64);
        }
        if fmt & (0x10 << i) != 0 {
            x.devs[i] = dg.draw(r);
        }
    }
    x
}

fn owned_vr(x: &XVr) -> gpos::ValueRecord {
    let mut v = gpos::ValueRecord::new();
    if x.fmt & 1 != 0 {
        v.x_placement = Some(x.vals[0]);
    }
    if x.fmt & 2 != 0 {
        v.y_placement = Some(x.vals[1]);
    }
    if x.fmt & 4 != 0 {
        v.x_advance = Some(x.vals[2]);
    }
    if x.fmt & 8 != 0 {
        v.y_advance = Some(x.vals[3]);
    }
    if let Some(d) = owned_dv(x.devs[0]) {
        v = v.with_x_placement_device(d);
    }
    if let Some(d) = owned_dv(x.devs[1]) {
        v = v.with_y_placement_device(d);
    }
    if let Some(d) = owned_dv(x.devs[2]) {
        v = v.with_x_advance_device(d);
    }
    if let Some(d) = owned_dv(x.devs[3]) {
        v = v.with_y_advance_device(d);
    }
    v.with_explicit_value_format(gpos::ValueFormat::from_bits_truncate(x.fmt as u16))
}

const FIELD: [&str; 4] = ["x_placement", "y_placement", "x_advance", "y_advance"];

fn check_vr(want: &XVr, got: &rgpos::ValueRecord, data: FontData, w: &dyn Fn() -> String, tally: &mut Tally) -> Result<(), String> {
    let vals = [got.x_placement(), got.y_placement(), got.x_advance(), got.y_advance()];
    for i in 0..4 {
        let expect = (want.fmt & (1 << i) != 0).then_some(want.vals[i]);
        if vals[i] != expect {
            return Err(format!("{}: {} is {:?}, expected {:?}", w(), FIELD[i], vals[i], expect));
        }
    }
    let devs = [got.x_placement_device(data), got.y_placement_device(data), got.x_advance_device(data), got.y_advance_device(data)];
    for (i, d) in devs.into_iter().enumerate() {
        let wf = || format!("{} {}_device", w(), FIELD[i]);
        if want.fmt & (0x10 << i) == 0 {
            if d.is_some() {
                return Err(format!("{}: a device offset is present although the value format has none", wf()));
            }
            continue;
        }
        check_dv(want.devs[i], d, &wf, tally)?;
    }
    tally.records += 1;
    Ok(())
}

/// a value format with at least one device field
fn draw_fmt(r: &mut Rng, need_dev: bool) -> u8 {
    loop {
        let f = match r.below(6) {
            0 => 0x44,                   // x advance + its device
            1 => 0x11 | 0x44,            // x placement / advance + devices
            2 => 0xff,                   // everything
            3 => 0x40,                   // a device without its value
            4 => 0x04 | 0x10 | 0x80,     // devices of other fields than the value
            _ => r.below(256) as u8,
        };
        if !need_dev || f & 0xf0 != 0 {
            return f;
        }
    }
}

fn popcount(f: u8) -> usize {
    f.count_ones() as usize
}

// ---------------------------------------------------------------- expected models

struct Pp2x {
    g1s: Vec<(u16, u16)>,
    g2s: Vec<(u16, u16)>,
    n2: u16,
    recs: Vec<Vec<(XVr, XVr)>>,
}

struct Pp1x {
    glyphs: Vec<u16>,
    sets: Vec<Vec<(u16, XVr, XVr)>>,
}

enum Spx {
    F1 { glyphs: Vec<u16>, vr: XVr },
    F2 { glyphs: Vec<u16>, vrs: Vec<XVr> },
}

#[derive(Clone, Copy, Debug, PartialEq)]
struct XAnchor {
    x: i16,
    y: i16,
    xd: Dv,
    yd: Dv,
}

struct Mbx {
    marks: Vec<(u16, u16, XAnchor)>,
    bases: Vec<(u16, Vec<Option<XAnchor>>)>,
}

enum XLookup {
    Pp2(Pp2x),
    Pp1(Vec<Pp1x>),
    Single(Vec<Spx>),
    Mb(Mbx),
}

fn dev_cost(dg: &DevGen) -> usize {
    if dg.pool > 0 {
        0
    } else {
        (100 - dg.null_pct as usize) * if dg.mode == 1 { 6 } else { 10 } / 100
    }
}

fn strided(first: u16, n: usize, r: &mut Rng) -> Vec<u16> {
    let dense = r.bool();
    let mut g = first;
    (0..n)
        .map(|_| {
            let x = g;
            g += if dense { 1 } else { 1 + r.below(3) as u16 };
            x
        })
        .collect()
}

fn gen_pp2(r: &mut Rng, dg: &mut DevGen, target: usize) -> (gpos::PositionLookup, XLookup) {
    // devices in BOTH records most of the time
    let f1 = draw_fmt(r, true);
    let f2 = if r.chance(4, 5) { draw_fmt(r, true) } else { draw_fmt(r, false) };
    let per_rec = 2 * (popcount(f1) + popcount(f2)) + (popcount(f1 >> 4) + popcount(f2 >> 4)) * dev_cost(dg);
    let n2 = r.range(2, 40) as u16;
    let n1 = (target / (per_rec.max(2) * n2 as usize)).clamp(2, 1500) as u16;
    let per_class = r.range(1, 2) as usize;
    let interleave = r.chance(1, 3);
    let glyphs = strided(10 + r.below(20) as u16, n1 as usize * per_class, r);
    let g1s: Vec<(u16, u16)> = glyphs
        .iter()
        .enumerate()
        .map(|(i, g)| (*g, if interleave { (i % n1 as usize) as u16 } else { (i / per_class) as u16 }))
        .collect();
    let first2 = glyphs.last().copied().unwrap_or(10) + 50;
    let g2s: Vec<(u16, u16)> = (0..n2 * 2).map(|i| (first2 + i, i % n2)).collect();
    let salt = r.u64();
    let recs: Vec<Vec<(XVr, XVr)>> = (0..n1)
        .map(|c1| {
            (0..n2)
                .map(|c2| {
                    let s = salt ^ ((c1 as u64) << 20) ^ c2 as u64;
                    (gen_vr(r, dg, f1, s), gen_vr(r, dg, f2, s ^ 0x5555_0000_0000))
                })
                .collect()
        })
        .collect();
    let cov: layout::CoverageTable = glyphs.iter().map(|g| GlyphId16::new(*g)).collect();
    let cd1: layout::ClassDef = g1s.iter().map(|(g, c)| (GlyphId16::new(*g), *c)).collect();
    let cd2: layout::ClassDef = g2s.iter().map(|(g, c)| (GlyphId16::new(*g), *c)).collect();
    let owned = recs
        .iter()
        .map(|row| gpos::Class1Record::new(row.iter().map(|(a, b)| gpos::Class2Record::new(owned_vr(a), owned_vr(b))).collect()))
        .collect();
    let lk = gpos::PositionLookup::Pair(layout::Lookup::new(layout::LookupFlag::empty(), vec![gpos::PairPos::format_2(cov, cd1, cd2, owned)]));
    (lk, XLookup::Pp2(Pp2x { g1s, g2s, n2, recs }))
}

fn gen_pp1(r: &mut Rng, dg: &mut DevGen, target: usize) -> (gpos::PositionLookup, XLookup) {
    let n_sub = if r.chance(1, 4) { 2 } else { 1 };
    let mut subs = vec![];
    let mut model = vec![];
    let mut next_g1 = 1 + r.below(50) as u16;
    for _ in 0..n_sub {
        let f1 = draw_fmt(r, true);
        let f2 = if r.chance(3, 5) { draw_fmt(r, true) } else { draw_fmt(r, false) };
        let per_rec = 2 + 2 * (popcount(f1) + popcount(f2)) + (popcount(f1 >> 4) + popcount(f2 >> 4)) * dev_cost(dg);
        let k = r.range(1, 60) as usize;
        let n_first = ((target / n_sub) / (k * per_rec + 4)).clamp(1, 3000);
        let glyphs = strided(next_g1, n_first, r);
        next_g1 = glyphs.last().copied().unwrap_or(next_g1) + 10;
        let salt = r.u64();
        let sets: Vec<Vec<(u16, XVr, XVr)>> = (0..n_first)
            .map(|q| {
                (0..k)
                    .map(|j| {
                        let s = salt ^ ((q as u64) << 16) ^ j as u64;
                        (1 + (q as u16 % 7) + j as u16 * 2, gen_vr(r, dg, f1, s), gen_vr(r, dg, f2, s ^ 0x7777_0000_0000))
                    })
                    .collect()
            })
            .collect();
        let owned = sets
            .iter()
            .map(|set| gpos::PairSet::new(set.iter().map(|(g2, a, b)| gpos::PairValueRecord::new(GlyphId16::new(*g2), owned_vr(a), owned_vr(b))).collect()))
            .collect();
        subs.push(gpos::PairPos::format_1(glyphs.iter().map(|g| GlyphId16::new(*g)).collect(), owned));
        model.push(Pp1x { glyphs, sets });
    }
    (gpos::PositionLookup::Pair(layout::Lookup::new(layout::LookupFlag::empty(), subs)), XLookup::Pp1(model))
}

fn gen_single(r: &mut Rng, dg: &mut DevGen, target: usize) -> (gpos::PositionLookup, XLookup) {
    let n_sub = r.range(1, 3) as usize;
    let mut subs = vec![];
    let mut model = vec![];
    let mut next = 1 + r.below(50) as u16;
    for si in 0..n_sub {
        let f = draw_fmt(r, true);
        let salt = r.u64();
        if si > 0 && r.chance(1, 3) {
            let glyphs = strided(next, r.range(1, 200) as usize, r);
            next = glyphs.last().copied().unwrap_or(next) + 5;
            let vr = gen_vr(r, dg, f, salt);
            subs.push(gpos::SinglePos::format_1(glyphs.iter().map(|g| GlyphId16::new(*g)).collect(), owned_vr(&vr)));
            model.push(Spx::F1 { glyphs, vr });
        } else {
            let per = 2 * popcount(f) + popcount(f >> 4) * dev_cost(dg);
            // one SinglePos subtable cannot be split: stay below the limit
            let n = ((target / n_sub) / per.max(2)).clamp(1, 60000 / (2 * popcount(f) + 2 + popcount(f >> 4) * 12));
            let glyphs = strided(next, n, r);
            next = glyphs.last().copied().unwrap_or(next) + 5;
            let vrs: Vec<XVr> = (0..n).map(|q| gen_vr(r, dg, f, salt ^ q as u64)).collect();
            subs.push(gpos::SinglePos::format_2(glyphs.iter().map(|g| GlyphId16::new(*g)).collect(), vrs.iter().map(owned_vr).collect()));
            model.push(Spx::F2 { glyphs, vrs });
        }
    }
    (gpos::PositionLookup::Single(layout::Lookup::new(layout::LookupFlag::empty(), subs)), XLookup::Single(model))
}

fn gen_anchor(r: &mut Rng, dg: &mut DevGen, salt: u64, dev_pct: u64) -> XAnchor {
    let mut a = XAnchor { x: val16(salt, 1), y: val16(salt, 2), xd: Dv::None, yd: Dv::None };
    if r.chance(dev_pct, 100) {
        match r.below(3) {
            0 => a.xd = dg.draw(r),
            1 => a.yd = dg.draw(r),
            _ => {
                a.xd = dg.draw(r);
                a.yd = dg.draw(r);
            }
        }
    }
    a
}

fn owned_anchor(a: &XAnchor) -> gpos::AnchorTable {
    if a.xd == Dv::None && a.yd == Dv::None {
        gpos::AnchorTable::format_1(a.x, a.y)
    } else {
        gpos::AnchorTable::format_3(a.x, a.y, owned_dv(a.xd), owned_dv(a.yd))
    }
}

fn gen_mb(r: &mut Rng, dg: &mut DevGen, target: usize) -> (gpos::PositionLookup, XLookup) {
    let classes = r.range(4, 80) as u16;
    let per_class = r.range(1, 3) as usize;
    let dev_pct = *r.pick(&[30u64, 70, 100]);
    let per_anchor = 2 + 6 + dev_pct as usize * (4 + 3 * dev_cost(dg) / 2) / 100;
    let n_bases = ((target / per_anchor) / classes as usize).clamp(3, 1200);
    let null_den = *r.pick(&[0u64, 4, 20]);
    let base_glyphs = strided(2 + r.below(9) as u16, n_bases, r);
    let n_marks = classes as usize * per_class;
    let mark_glyphs = strided(base_glyphs.last().copied().unwrap_or(2) + 10, n_marks, r);
    let salt = r.u64();
    let interleave = r.bool();
    let marks: Vec<(u16, u16, XAnchor)> = mark_glyphs
        .iter()
        .enumerate()
        .map(|(i, g)| {
            let c = if interleave { (i % classes as usize) as u16 } else { (i / per_class) as u16 };
            (*g, c, gen_anchor(r, dg, salt ^ *g as u64, dev_pct))
        })
        .collect();
    let bases: Vec<(u16, Vec<Option<XAnchor>>)> = base_glyphs
        .iter()
        .map(|g| {
            let row = (0..classes)
                .map(|c| {
                    if null_den != 0 && r.chance(1, null_den) {
                        None
                    } else {
                        Some(gen_anchor(r, dg, salt ^ ((*g as u64) << 20) ^ ((c as u64) << 40), dev_pct))
                    }
                })
                .collect();
            (*g, row)
        })
        .collect();
    let mark_array = gpos::MarkArray::new(marks.iter().map(|m| gpos::MarkRecord::new(m.1, owned_anchor(&m.2))).collect());
    let base_array = gpos::BaseArray::new(bases.iter().map(|b| gpos::BaseRecord::new(b.1.iter().map(|a| a.as_ref().map(owned_anchor)).collect())).collect());
    let lk = gpos::PositionLookup::MarkToBase(layout::Lookup::new(
        layout::LookupFlag::empty(),
        vec![gpos::MarkBasePosFormat1::new(
            mark_glyphs.iter().map(|g| GlyphId16::new(*g)).collect(),
            base_glyphs.iter().map(|g| GlyphId16::new(*g)).collect(),
            mark_array,
            base_array,
        )],
    ));
    (lk, XLookup::Mb(Mbx { marks, bases }))
}

// ---------------------------------------------------------------- read-back

macro_rules! rd {
    ($e:expr, $what:expr) => {
        match $e {
            Ok(v) => v,
            Err(e) => return Err(format!("{}: {:?}", $what, e)),
        }
    };
}

fn check_anchor(want: &XAnchor, got: &rgpos::AnchorTable, w: &dyn Fn() -> String, tally: &mut Tally) -> Result<(), String> {
    if (got.x_coordinate(), got.y_coordinate()) != (want.x, want.y) {
        return Err(format!("{}: anchor ({}, {}), expected ({}, {})", w(), got.x_coordinate(), got.y_coordinate(), want.x, want.y));
    }
    match got {
        rgpos::AnchorTable::Format3(t) => {
            check_dv(want.xd, t.x_device(), &|| format!("{} x_device", w()), tally)?;
            check_dv(want.yd, t.y_device(), &|| format!("{} y_device", w()), tally)?;
        }
        _ => {
            if want.xd != Dv::None || want.yd != Dv::None {
                return Err(format!("{}: anchor lost its device tables (format {})", w(), got.anchor_format()));
            }
        }
    }
    tally.anchors += 1;
    Ok(())
}

fn verify(bytes: &[u8], ex: &[XLookup]) -> Result<Tally, String> {
    let mut tally = Tally::default();
    let table = rd!(rgpos::Gpos::read(bytes.into()), "GPOS header");
    let list = rd!(table.lookup_list(), "lookup list offset");
    let lookups = list.lookups();
    if list.lookup_count() as usize != ex.len() {
        return Err(format!("lookup count {} differs from input {}", list.lookup_count(), ex.len()));
    }
    for (li, xl) in ex.iter().enumerate() {
        let lookup = rd!(lookups.get(li), format!("lookup {} offset", li));
        if lookup.lookup_type() == 9 {
            tally.extension_lookups += 1;
        }
        let subtables = rd!(lookup.subtables(), format!("lookup {} subtables", li));
        match (xl, subtables) {
            (XLookup::Pp2(m), rgpos::PositionSubtables::Pair(subs)) => {
                let mut f2 = vec![];
                for si in 0..subs.len() {
                    tally.subtables += 1;
                    tally.pp2_out += 1;
                    let w = format!("lookup {} subtable {}", li, si);
                    match rd!(subs.get(si), format!("{} offset", w)) {
                        rgpos::PairPos::Format2(t) => {
                            let cov = rd!(t.coverage(), format!("{} coverage", w));
                            let cd1 = rd!(t.class_def1(), format!("{} classdef1", w));
                            let cd2 = rd!(t.class_def2(), format!("{} classdef2", w));
                            if t.class2_count() != m.n2 {
                                return Err(format!("{}: class2 count {} != {}", w, t.class2_count(), m.n2));
                            }
                            for (g2, c2) in &m.g2s {
                                if cd2.get(GlyphId16::new(*g2)) != *c2 {
                                    return Err(format!("{}: classdef2 of glyph {} changed", w, g2));
                                }
                            }
                            f2.push((w, t, cov, cd1));
                        }
                        _ => return Err(format!("{}: unexpected PairPosFormat1", w)),
                    }
                }
                let allowed: HashSet<u16> = m.g1s.iter().map(|x| x.0).collect();
                for (w, _, cov, _) in &f2 {
                    if let Some(g) = cov.iter().find(|g| !allowed.contains(&g.to_u16())) {
                        return Err(format!("{}: coverage lists glyph {} which the input did not cover", w, g.to_u16()));
                    }
                }
                for (g1, c1) in &m.g1s {
                    let gid = GlyphId16::new(*g1);
                    let holders: Vec<usize> = (0..f2.len()).filter(|x| f2[*x].2.get(gid).is_some()).collect();
                    if holders.len() != 1 {
                        return Err(format!("lookup {}: first glyph {} (class {}) is covered by {} of the {} output subtables (expected exactly 1)", li, g1, c1, holders.len(), f2.len()));
                    }
                    let (w, t, _, cd1) = &f2[holders[0]];
                    let nc1 = cd1.get(gid);
                    if nc1 >= t.class1_count() {
                        return Err(format!("{}: class {} of glyph {} >= class1 count {}", w, nc1, g1, t.class1_count()));
                    }
                    let rec = rd!(t.class1_records().get(nc1 as usize), format!("{} class1 record {}", w, nc1));
                    let c2recs = rec.class2_records();
                    let data = t.offset_data();
                    for c2 in 0..m.n2 {
                        let r2 = rd!(c2recs.get(c2 as usize), format!("{} class2 record", w));
                        let (x1, x2) = &m.recs[*c1 as usize][c2 as usize];
                        check_vr(x1, &r2.value_record1, data, &|| format!("{}: glyph {} (input class {} -> {}) x class2 {}: valueRecord1", w, g1, c1, nc1, c2), &mut tally)?;
                        check_vr(x2, &r2.value_record2, data, &|| format!("{}: glyph {} (input class {} -> {}) x class2 {}: valueRecord2", w, g1, c1, nc1, c2), &mut tally)?;
                    }
                    tally.glyphs += 1;
                }
            }
            (XLookup::Pp1(model), rgpos::PositionSubtables::Pair(subs)) => {
                let mut f1 = vec![];
                for si in 0..subs.len() {
                    tally.subtables += 1;
                    tally.pp1_out += 1;
                    let w = format!("lookup {} subtable {}", li, si);
                    match rd!(subs.get(si), format!("{} offset", w)) {
                        rgpos::PairPos::Format1(t) => {
                            let cov = rd!(t.coverage(), format!("{} coverage", w));
                            if cov.iter().count() != t.pair_set_count() as usize {
                                return Err(format!("{}: coverage has {} glyphs, {} pair sets", w, cov.iter().count(), t.pair_set_count()));
                            }
                            f1.push((w, t, cov));
                        }
                        _ => return Err(format!("{}: unexpected PairPosFormat2", w)),
                    }
                }
                let allowed: HashSet<u16> = model.iter().flat_map(|s| s.glyphs.iter().copied()).collect();
                for (w, _, cov) in &f1 {
                    if let Some(g) = cov.iter().find(|g| !allowed.contains(&g.to_u16())) {
                        return Err(format!("{}: coverage lists glyph {} which the input did not cover", w, g.to_u16()));
                    }
                }
                for (si_in, sub) in model.iter().enumerate() {
                    for (q, g1) in sub.glyphs.iter().enumerate() {
                        let gid = GlyphId16::new(*g1);
                        let holders: Vec<(usize, u16)> = f1.iter().enumerate().filter_map(|(x, f)| f.2.get(gid).map(|i| (x, i))).collect();
                        if holders.len() != 1 {
                            return Err(format!("lookup {}: first glyph {} (entry {} of input subtable {}) is covered by {} of the {} output subtables (expected exactly 1)", li, g1, q, si_in, holders.len(), f1.len()));
                        }
                        let (x, idx) = holders[0];
                        let (w, t, _) = &f1[x];
                        let set = rd!(t.pair_sets().get(idx as usize), format!("{} pairset {}", w, idx));
                        let data = set.offset_data();
                        let want = &sub.sets[q];
                        if set.pair_value_count() as usize != want.len() {
                            return Err(format!("{}: pair set of glyph {} has {} records, expected {}", w, g1, set.pair_value_count(), want.len()));
                        }
                        for (j, rec) in set.pair_value_records().iter().enumerate() {
                            let rec = rd!(rec, format!("{} pair record", w));
                            let (g2, x1, x2) = &want[j];
                            if rec.second_glyph().to_u16() != *g2 {
                                return Err(format!("{}: glyph {} record {}: second glyph {}, expected {}", w, g1, j, rec.second_glyph().to_u16(), g2));
                            }
                            check_vr(x1, rec.value_record1(), data, &|| format!("{}: pair ({}, {}) valueRecord1", w, g1, g2), &mut tally)?;
                            check_vr(x2, rec.value_record2(), data, &|| format!("{}: pair ({}, {}) valueRecord2", w, g1, g2), &mut tally)?;
                        }
                        tally.glyphs += 1;
                    }
                }
            }
            (XLookup::Single(model), rgpos::PositionSubtables::Single(subs)) => {
                if subs.len() != model.len() {
                    return Err(format!("lookup {}: {} SinglePos subtables, the input had {}", li, subs.len(), model.len()));
                }
                for (si, sx) in model.iter().enumerate() {
                    tally.subtables += 1;
                    let w = format!("lookup {} subtable {}", li, si);
                    match (sx, rd!(subs.get(si), format!("{} offset", w))) {
                        (Spx::F1 { glyphs, vr }, rgpos::SinglePos::Format1(t)) => {
                            let cov = rd!(t.coverage(), format!("{} coverage", w));
                            if cov.iter().map(|g| g.to_u16()).collect::<Vec<u16>>() != *glyphs {
                                return Err(format!("{}: coverage differs from the input", w));
                            }
                            check_vr(vr, &t.value_record(), t.offset_data(), &|| format!("{}: the value record", w), &mut tally)?;
                            tally.glyphs += glyphs.len() as u64;
                        }
                        (Spx::F2 { glyphs, vrs }, rgpos::SinglePos::Format2(t)) => {
                            let cov = rd!(t.coverage(), format!("{} coverage", w));
                            if cov.iter().map(|g| g.to_u16()).collect::<Vec<u16>>() != *glyphs {
                                return Err(format!("{}: coverage differs from the input", w));
                            }
                            if t.value_count() as usize != vrs.len() {
                                return Err(format!("{}: {} value records, expected {}", w, t.value_count(), vrs.len()));
                            }
                            let data = t.offset_data();
                            for (q, rec) in t.value_records().iter().enumerate() {
                                let rec = rd!(rec, format!("{} value record {}", w, q));
                                check_vr(&vrs[q], &rec, data, &|| format!("{}: value record {} (glyph {})", w, q, glyphs[q]), &mut tally)?;
                            }
                            tally.glyphs += glyphs.len() as u64;
                        }
                        _ => return Err(format!("{}: SinglePos format changed", w)),
                    }
                }
            }
            (XLookup::Mb(m), rgpos::PositionSubtables::MarkToBase(subs)) => {
                let mark_set: HashSet<u16> = m.marks.iter().map(|x| x.0).collect();
                let base_set: HashSet<u16> = m.bases.iter().map(|x| x.0).collect();
                let mut mark_holders: HashMap<u16, usize> = HashMap::new();
                let mut attach_seen: HashSet<(u16, u16)> = HashSet::new();
                for si in 0..subs.len() {
                    tally.subtables += 1;
                    tally.mb_out += 1;
                    let w = format!("lookup {} subtable {}", li, si);
                    let t = rd!(subs.get(si), format!("{} offset", w));
                    let mcov = rd!(t.mark_coverage(), format!("{} mark coverage", w));
                    let bcov = rd!(t.base_coverage(), format!("{} base coverage", w));
                    let marr = rd!(t.mark_array(), format!("{} mark array", w));
                    let barr = rd!(t.base_array(), format!("{} base array", w));
                    if let Some(g) = mcov.iter().find(|g| !mark_set.contains(&g.to_u16())) {
                        return Err(format!("{}: mark coverage lists glyph {} which the input did not have", w, g.to_u16()));
                    }
                    if let Some(g) = bcov.iter().find(|g| !base_set.contains(&g.to_u16())) {
                        return Err(format!("{}: base coverage lists glyph {} which the input did not have", w, g.to_u16()));
                    }
                    if mcov.iter().count() != marr.mark_count() as usize || bcov.iter().count() != barr.base_count() as usize {
                        return Err(format!("{}: coverage sizes differ from the mark / base array sizes", w));
                    }
                    let mrecs = marr.mark_records();
                    let mut new_to_orig: HashMap<u16, u16> = HashMap::new();
                    for mk in &m.marks {
                        let Some(idx) = mcov.get(GlyphId16::new(mk.0)) else { continue };
                        *mark_holders.entry(mk.0).or_insert(0) += 1;
                        let Some(rec) = mrecs.get(idx as usize) else {
                            return Err(format!("{}: mark record {} missing", w, idx));
                        };
                        let a = rd!(rec.mark_anchor(marr.offset_data()), format!("{} mark anchor {}", w, idx));
                        check_anchor(&mk.2, &a, &|| format!("{}: mark glyph {} (class {})", w, mk.0, mk.1), &mut tally)?;
                        let nc = rec.mark_class();
                        if nc >= t.mark_class_count() {
                            return Err(format!("{}: mark class {} >= count {}", w, nc, t.mark_class_count()));
                        }
                        if *new_to_orig.entry(nc).or_insert(mk.1) != mk.1 {
                            return Err(format!("{}: marks of different input classes merged into class {}", w, nc));
                        }
                    }
                    let brecs = barr.base_records();
                    for (gid, exp) in &m.bases {
                        match bcov.get(GlyphId16::new(*gid)) {
                            Some(idx) => {
                                let rec = rd!(brecs.get(idx as usize), format!("{} base record {}", w, idx));
                                let anchors = rec.base_anchors(barr.offset_data());
                                for (nc, oc) in &new_to_orig {
                                    let got = match anchors.get(*nc as usize) {
                                        None => None,
                                        Some(a) => Some(rd!(a, format!("{} base {} anchor class {}", w, gid, nc))),
                                    };
                                    let want = exp.get(*oc as usize).copied().flatten();
                                    match (&want, &got) {
                                        (None, None) => {}
                                        (Some(wa), Some(ga)) => check_anchor(wa, ga, &|| format!("{}: base glyph {} x mark class {} (new {})", w, gid, oc, nc), &mut tally)?,
                                        _ => return Err(format!("{}: base {} class {} (new {}): anchor present {} but input {}", w, gid, oc, nc, got.is_some(), want.is_some())),
                                    }
                                    attach_seen.insert((*gid, *oc));
                                }
                            }
                            None => {
                                if let Some((_, oc)) = new_to_orig.iter().find(|(_, oc)| exp.get(**oc as usize).copied().flatten().is_some()) {
                                    return Err(format!("{}: base glyph {} is not covered but the input attaches class {} marks to it", w, gid, oc));
                                }
                            }
                        }
                    }
                }
                for mk in &m.marks {
                    let h = mark_holders.get(&mk.0).copied().unwrap_or(0);
                    if h != 1 {
                        return Err(format!("lookup {}: mark glyph {} is covered by {} of the {} output subtables (expected exactly 1)", li, mk.0, h, subs.len()));
                    }
                    tally.glyphs += 1;
                }
                let classes: HashSet<u16> = m.marks.iter().map(|x| x.1).collect();
                for (gid, anchors) in &m.bases {
                    for c in &classes {
                        if anchors[*c as usize].is_some() && !attach_seen.contains(&(*gid, *c)) {
                            return Err(format!("lookup {}: attachment base {} x class {} lost", li, gid, c));
                        }
                    }
                    tally.glyphs += 1;
                }
            }
            _ => return Err(format!("lookup {}: lookup kind in the output differs from the input", li)),
        }
    }
    Ok(tally)
}

// ---------------------------------------------------------------- cases

fn n_input_subtables(ex: &[XLookup]) -> (usize, usize, usize, usize) {
    let (mut all, mut pp1, mut pp2, mut mb) = (0, 0, 0, 0);
    for x in ex {
        match x {
            XLookup::Pp2(_) => {
                all += 1;
                pp2 += 1
            }
            XLookup::Pp1(v) => {
                all += v.len();
                pp1 += v.len()
            }
            XLookup::Single(v) => all += v.len(),
            XLookup::Mb(_) => {
                all += 1;
                mb += 1
            }
        }
    }
    (all, pp1, pp2, mb)
}

fn build(seed: u64, k: u64) -> (String, gpos::Gpos, Vec<XLookup>, Value) {
    let mut r = Rng::derive(seed, "c05-gposdev", k);
    // (not k modulo something: shards take every n-th k)
    let kind = KINDS[r.usize(KINDS.len())];
    let mode = r.usize(DEV_MODES.len());
    let mut dg = DevGen {
        mode,
        next: 0,
        pool: if mode >= 3 { *r.pick(&[3u32, 40, 1000]) } else { 0 },
        null_pct: *r.pick(&[0u64, 0, 10, 50]),
    };
    let scale_pct = r.range(80, 350) as usize;
    let target = 65536 * scale_pct / 100;
    let mut lookups = vec![];
    let mut ex = vec![];
    let mut add = |lx: (gpos::PositionLookup, XLookup)| {
        lookups.push(lx.0);
        ex.push(lx.1);
    };
    let n_lookups;
    match kind {
        "pairpos2-dev" => {
            n_lookups = r.range(1, 2) as usize;
            for _ in 0..n_lookups {
                add(gen_pp2(&mut r, &mut dg, target / n_lookups));
            }
        }
        "pairpos1-dev" => {
            n_lookups = r.range(1, 2) as usize;
            for _ in 0..n_lookups {
                add(gen_pp1(&mut r, &mut dg, target / n_lookups));
            }
        }
        "markbase-dev" => {
            n_lookups = r.range(1, 2) as usize;
            for _ in 0..n_lookups {
                add(gen_mb(&mut r, &mut dg, target / n_lookups));
            }
        }
        "singlepos-dev" => {
            n_lookups = r.range(2, 6) as usize;
            for _ in 0..n_lookups {
                add(gen_single(&mut r, &mut dg, target / n_lookups));
            }
        }
        _ => {
            n_lookups = r.range(3, 7) as usize;
            for _ in 0..n_lookups {
                let t = target / n_lookups;
                let lx = match r.below(5) {
                    0 => gen_single(&mut r, &mut dg, t),
                    1 => gen_mb(&mut r, &mut dg, t),
                    2 => gen_pp1(&mut r, &mut dg, t),
                    _ => gen_pp2(&mut r, &mut dg, t),
                };
                add(lx);
            }
        }
    }
    let recipe = json!({"kind": kind, "seed": seed, "kdev": k, "scale_pct": scale_pct, "lookups": n_lookups,
        "devices": DEV_MODES[mode], "pool": dg.pool, "null_pct": dg.null_pct, "device_tables_with_own_id": dg.next});
    let t = gpos::Gpos::new(Default::default(), Default::default(), layout::LookupList::new(lookups));
    (kind.to_string(), t, ex, recipe)
}

fn one(ctx: &mut Ctx, k: u64) {
    let seed = ctx.seed;
    let built = vf_core::guard(|| build(seed, k));
    let (kind, table, ex, recipe) = match built {
        Ok(b) => b,
        Err(p) => {
            ctx.inconclusive(format!("GPOS device recipe k={} could not be built: {}:{} {}", k, p.file, p.line, p.msg));
            return;
        }
    };
    ctx.eval();
    ctx.count(&format!("gposdev:{}:cases", kind), 1);
    ctx.count(&format!("gposdev:devices:{}", recipe["devices"].as_str().unwrap_or("?")), 1);
    let _ = hooks::take_trace();
    let label = || format!("gposdev {}", recipe);
    let res = ctx.run_case(&label, None, &|| dump_table(&table));
    let trace_v = hooks::take_trace();
    let trace = super::compress_trace(&trace_v);
    ctx.distinct("stage_traces", fnv64(trace.as_bytes()));
    ctx.label("stage_traces_gposdev", &trace);
    for st in ["split_check", "promote", "assign_spaces", "isolate_subgraph", "duplicate_subgraph"] {
        if trace_v.iter().any(|s| *s == st) {
            ctx.count(&format!("gposdev:stage_reached:{}", st), 1);
        }
    }
    let case_id = format!("{}:seed{}:k{}", kind, seed, k);
    match res {
        Ok(Ok(bytes)) => match vf_core::guard(|| verify(&bytes, &ex)) {
            Ok(Ok(t)) => {
                let (n_in, pp1_in, pp2_in, mb_in) = n_input_subtables(&ex);
                ctx.count("gposdev:outcome:success_every_device_offset_resolved_to_its_own_table", 1);
                ctx.count("gposdev:device_offsets_resolved:Device", t.devices);
                ctx.count("gposdev:device_offsets_resolved:VariationIndex", t.varidx);
                ctx.count("gposdev:device_offsets_null_as_written", t.nulls);
                ctx.count("gposdev:value_records_checked", t.records);
                ctx.count("gposdev:anchors_checked", t.anchors);
                ctx.count("gposdev:input_glyphs_reached_through_exactly_one_output_subtable", t.glyphs);
                let split = t.subtables > n_in;
                let promoted = t.extension_lookups > 0;
                if split {
                    ctx.count("gposdev:success_with_split_subtables", 1);
                    ctx.count("gposdev:subtables_added_by_splitting", (t.subtables - n_in) as u64);
                }
                if pp1_in > 0 && t.pp1_out > pp1_in {
                    ctx.count("gposdev:cases_with_pairpos1_split", 1);
                }
                if pp2_in > 0 && t.pp2_out > pp2_in {
                    ctx.count("gposdev:cases_with_pairpos2_split", 1);
                }
                if mb_in > 0 && t.mb_out > mb_in {
                    ctx.count("gposdev:cases_with_markbase_split", 1);
                }
                if promoted {
                    ctx.count("gposdev:success_with_extension_promotion", 1);
                    ctx.count("gposdev:lookups_promoted", t.extension_lookups as u64);
                }
                if bytes.len() > 65535 {
                    ctx.count("gposdev:output_above_64k", 1);
                }
                if split || promoted {
                    ctx.nontrivial(fnv64(recipe.to_string().as_bytes()));
                    ctx.count("nontrivial_cases", 1);
                    ctx.sample_by_kind(
                        &format!("gposdev-{}{}{}", kind, if split { "-split" } else { "" }, if promoted { "-promoted" } else { "" }),
                        json!({"recipe": recipe, "trace": trace, "out_len": bytes.len(), "subtables_in": n_in, "subtables_out": t.subtables,
                               "extension_lookups": t.extension_lookups, "device_offsets": t.devices, "varidx_offsets": t.varidx, "null_offsets": t.nulls}),
                    );
                }
            }
            Ok(Err(msg)) => {
                ctx.count("gposdev:outcome:success_but_misresolved", 1);
                ctx.violation(
                    &format!("gposdev-misresolved:{}", case_id),
                    json!({"what": "dump_table returned Ok but an offset of the output does not lead to the object the input wrote for that field",
                           "problem": msg, "recipe": recipe, "trace": trace, "out_len": bytes.len()}),
                    Some(&bytes),
                );
            }
            Err(p) => {
                ctx.count("gposdev:outcome:readback_panic", 1);
                if p.in_repo() {
                    ctx.violation(
                        &format!("gposdev-readback-panic:{}:{}:{}", p.file, p.line, case_id),
                        json!({"what": "read-back of compiled table panicked", "panic": {"file": p.file, "line": p.line, "msg": p.msg}, "recipe": recipe, "trace": trace}),
                        Some(&bytes),
                    );
                } else {
                    ctx.inconclusive(format!("harness panic in GPOS device read-back {}:{} {}", p.file, p.line, p.msg));
                }
            }
        },
        Ok(Err(Error::PackingFailed(_))) => {
            ctx.count("gposdev:outcome:packing_failed", 1);
            ctx.count(&format!("gposdev:{}:packing_failed", kind), 1);
            ctx.sample_by_kind("gposdev-packing-failed", json!({"recipe": recipe, "trace": trace}));
        }
        Ok(Err(e)) => {
            ctx.inconclusive(format!("GPOS device recipe {} failed validation: {}", case_id, e));
        }
        Err(p) => {
            if !p.in_repo() {
                ctx.inconclusive(format!("harness panic {}:{} {}", p.file, p.line, p.msg));
                return;
            }
            ctx.count("gposdev:outcome:panic", 1);
            ctx.violation(
                &format!("pack-panic:{}:{}:gposdev:{}", p.file.strip_prefix(&format!("{}/", vf_core::repo_dir())).unwrap_or(&p.file), p.line, case_id),
                json!({"what": "dump_table panicked on a real layout table", "panic": {"file": p.file, "line": p.line, "msg": p.msg, "class": p.class.as_str()},
                       "recipe": recipe, "trace": trace}),
                None,
            );
        }
    }
}

pub fn run(ctx: &mut Ctx) {
    let count: u64 = ctx.tier.pick(1152, 14400);
    for k in 0..count {
        if ctx.mine(k as usize) {
            one(ctx, k);
        }
    }
}

pub fn replay(ctx: &mut Ctx, recipe: &Value) {
    let Some(k) = recipe["kdev"].as_u64() else {
        ctx.inconclusive("GPOS device replay without kdev");
        return;
    };
    if let Some(s) = recipe["seed"].as_u64() {
        ctx.seed = s;
    }
    one(ctx, k);
}
