//! (e) Object SHARING across parents of different kinds, interacting with graph surgery
//! (extension promotion, space isolation / duplication).
//!
//! The object store of the compiler de-duplicates objects by their bytes only, so one
//! subtable object can hang under several lookups, and under lookups of DIFFERENT lookup
//! types whenever two subtable formats have the same binary layout (GSUB
//! MultipleSubstFormat1 / AlternateSubstFormat1; GPOS MarkBasePosFormat1 /
//! MarkMarkPosFormat1; the 6-byte "empty" subtables of GSUB 1/2/3/4 and GPOS 1/3). When
//! such lookups are promoted, each needs an extension record carrying ITS OWN type; when
//! only some of the parents are promoted the shared child has to be duplicated.
//!
//!  (e1) abstract graphs (`spec::Spec` with typed lookup nodes: root -> lookup list ->
//!       lookups -> subtables -> children) in which subtables are shared between lookups
//!       of the same / of different types and children between subtables, fillers and
//!       lookups; an enumerated family over a size alphabet plus seeded random graphs.
//!       Oracle: `spec::resolve`, which accepts a lookup either unchanged or with the
//!       extension type of its table, and then demands for every subtable link an
//!       extension record {format 1, the lookup's ORIGINAL type, Offset32} that lands on
//!       a byte-for-byte copy of the subtable written for that link.
//!  (e2) real GSUB / GPOS tables whose lookups share byte-identical subtables across and
//!       within lookup types, at sizes that force promotion of some / all lookups. On
//!       read-back, for EVERY lookup: lookup type preserved (or the table's extension
//!       type); every extension subtable has format 1 and extensionLookupType == the
//!       lookup's original type; lookup flag / mark filtering set / subtable count
//!       preserved; every subtable, parsed at the resolved position AS THE TYPE THAT WAS
//!       WRITTEN and compiled again on its own, gives the bytes of the subtable written
//!       for that slot; read-fonts' typed view of the lookup has the original kind.

use std::collections::{HashMap, HashSet};

use font_types::GlyphId16;
use read_fonts::tables::{gpos as rgpos, gsub as rgsub};
use read_fonts::{FontData, FontRead};
use serde_json::{json, Value};
use vf_core::{fnv64, Ctx, Rng};
use write_fonts::from_obj::ToOwnedTable;
use write_fonts::tables::{gpos, gsub, layout};
use write_fonts::{dump_table, error::Error, verif_graph_hooks as hooks};

use crate::spec::{Link, NodeSpec, PayloadCache, Spec};

// ====================================================================== (e1) abstract graphs

const GSUB_TYPES: [u16; 7] = [1, 2, 3, 4, 5, 6, 8];
const GPOS_TYPES: [u16; 6] = [1, 3, 5, 6, 7, 8];

/// Layout of a typed graph before it is turned into a `Spec`.
struct TypedPlan {
    gsub: bool,
    /// sizes of filler objects hanging under the root next to the lookup list
    fillers: Vec<u32>,
    /// per lookup: (type, subtable indices)
    lookups: Vec<(u16, Vec<usize>)>,
    /// per subtable: (size, links to children as (child index, width))
    subtables: Vec<(u32, Vec<(usize, u8)>)>,
    children: Vec<u32>,
    /// children linked from fillers (filler index, child index)
    filler_links: Vec<(usize, usize)>,
}

fn plan_to_spec(p: &TypedPlan, cache: Option<&mut PayloadCache>) -> Spec {
    // node order: 0 root, 1 lookup list, fillers, lookups, subtables, children
    let nf = p.fillers.len();
    let nl = p.lookups.len();
    let ns = p.subtables.len();
    let f0 = 2;
    let l0 = f0 + nf;
    let s0 = l0 + nl;
    let c0 = s0 + ns;
    let mut nodes: Vec<NodeSpec> = vec![];
    let mut types: Vec<Option<(bool, u16)>> = vec![];
    // root: version + offsets
    let mut links = vec![Link { to: 1, width: 2, pos: 4, adj: 0 }];
    for i in 0..nf {
        links.push(Link { to: f0 + i, width: 2, pos: 6 + 2 * i as u32, adj: 0 });
    }
    nodes.push(NodeSpec { size: 6 + 2 * nf as u32 + 2, links });
    types.push(None);
    // lookup list
    nodes.push(NodeSpec { size: 2 + 2 * nl as u32, links: (0..nl).map(|i| Link { to: l0 + i, width: 2, pos: 2 + 2 * i as u32, adj: 0 }).collect() });
    types.push(None);
    for (i, sz) in p.fillers.iter().enumerate() {
        let ls: Vec<Link> = p.filler_links.iter().filter(|(f, _)| *f == i).enumerate().map(|(k, (_, c))| Link { to: c0 + *c, width: 2, pos: 4 + 2 * k as u32, adj: 0 }).collect();
        nodes.push(NodeSpec { size: (*sz).max(4 + 2 * ls.len() as u32), links: ls });
        types.push(None);
    }
    for (ty, subs) in &p.lookups {
        // lookupType, lookupFlag, subTableCount, offsets
        let ls: Vec<Link> = subs.iter().enumerate().map(|(k, s)| Link { to: s0 + *s, width: 2, pos: 6 + 2 * k as u32, adj: 0 }).collect();
        nodes.push(NodeSpec { size: 6 + 2 * subs.len() as u32, links: ls });
        types.push(Some((p.gsub, *ty)));
    }
    for (sz, ch) in &p.subtables {
        let mut pos = 4u32;
        let mut ls = vec![];
        for (c, w) in ch {
            ls.push(Link { to: c0 + *c, width: *w, pos, adj: 0 });
            pos += *w as u32;
        }
        nodes.push(NodeSpec { size: (*sz).max(pos), links: ls });
        types.push(None);
    }
    for sz in &p.children {
        nodes.push(NodeSpec { size: *sz, links: vec![] });
        types.push(None);
    }
    // drop unreferenced subtables / children (every object must be reachable): re-index
    let n = nodes.len();
    let mut reach = vec![false; n];
    let mut st = vec![0usize];
    while let Some(x) = st.pop() {
        if std::mem::replace(&mut reach[x], true) {
            continue;
        }
        for l in &nodes[x].links {
            st.push(l.to);
        }
    }
    let mut new_ix = vec![usize::MAX; n];
    let mut k = 0;
    for i in 0..n {
        if reach[i] {
            new_ix[i] = k;
            k += 1;
        }
    }
    let mut nodes2 = vec![];
    let mut types2 = vec![];
    for i in 0..n {
        if !reach[i] {
            continue;
        }
        let mut nd = nodes[i].clone();
        for l in nd.links.iter_mut() {
            l.to = new_ix[l.to];
        }
        nodes2.push(nd);
        types2.push(types[i]);
    }
    Spec::new(nodes2, cache).with_lookup_types(types2)
}

fn record_typed(ctx: &mut Ctx, spec: &Spec, out: &crate::CaseOut) {
    if out.trace.contains("promote") {
        ctx.count("typed:cases_in_which_promotion_ran", 1);
    }
    // sharing pattern of the INPUT
    let mut users: HashMap<usize, Vec<(bool, u16)>> = HashMap::new();
    for (i, n) in spec.nodes.iter().enumerate() {
        if let Some(t) = spec.lookup_type(i) {
            for l in &n.links {
                users.entry(l.to).or_default().push(t);
            }
        }
    }
    if users.values().any(|u| u.len() > 1) {
        ctx.count("typed:input_with_subtable_shared_between_lookups", 1);
    }
    if users.values().any(|u| u.iter().any(|t| *t != u[0])) {
        ctx.count("typed:input_with_subtable_shared_between_lookups_of_different_types", 1);
    }
    ctx.count(&format!("typed:outcome:{}", out.outcome), 1);
}

fn typed_enumerated(ctx: &mut Ctx, item: &mut usize) {
    const SUB: [u32; 4] = [10, 30000, 40000, 65000];
    const CHILD: [u32; 3] = [0, 10, 40000]; // 0 = no child
    let mut cache = PayloadCache::default();
    let mut cases = 0u64;
    for nl in 2..=3usize {
        // per lookup a non-empty subset of {S0, S1}
        for subsets in 0..3u32.pow(nl as u32) {
            for tymode in 0..3u32 {
                for sz in 0..16u32 {
                    for ch in 0..3usize {
                        for gsub in [true, false] {
                            cases += 1;
                            *item += 1;
                            if !ctx.mine(*item) {
                                continue;
                            }
                            let types: &[u16] = if gsub { &GSUB_TYPES } else { &GPOS_TYPES };
                            let mut lookups = vec![];
                            let mut d = subsets;
                            for li in 0..nl {
                                let sel = d % 3;
                                d /= 3;
                                let subs = match sel {
                                    0 => vec![0],
                                    1 => vec![1],
                                    _ => vec![0, 1],
                                };
                                let ty = match tymode {
                                    0 => types[1],
                                    1 => types[1 + li % 2],
                                    _ => types[(li * 2 + 1) % types.len()],
                                };
                                lookups.push((ty, subs));
                            }
                            let child_links: Vec<(usize, u8)> = if CHILD[ch] > 0 { vec![(0, 2)] } else { vec![] };
                            let plan = TypedPlan {
                                gsub,
                                fillers: vec![],
                                lookups,
                                subtables: vec![(SUB[(sz % 4) as usize], child_links.clone()), (SUB[(sz / 4) as usize], child_links)],
                                children: if CHILD[ch] > 0 { vec![CHILD[ch]] } else { vec![] },
                                filler_links: vec![],
                            };
                            let spec = plan_to_spec(&plan, Some(&mut cache));
                            let id = format!("typedexh:{}:l{}:s{}:t{}:z{}:c{}", if gsub { "gsub" } else { "gpos" }, nl, subsets, tymode, sz, ch);
                            let out = crate::run_graph_case(ctx, &spec, "typedexh", &id);
                            record_typed(ctx, &spec, &out);
                        }
                    }
                }
            }
        }
    }
    ctx.extra.insert("typed_enumerated_scope".into(), json!({"cases": cases, "lookups": "2..=3", "subtable_sizes": SUB, "shared_child_sizes": CHILD,
        "note": "every assignment of non-empty subsets of two subtables to the lookups x {one type, two alternating types, all different} x sizes x optional child shared by both subtables x GSUB/GPOS"}));
}

fn typed_random_plan(r: &mut Rng) -> TypedPlan {
    let gsub = r.bool();
    let types: &[u16] = if gsub { &GSUB_TYPES } else { &GPOS_TYPES };
    let nl = match r.below(4) {
        0 => 2,
        1 => r.range(2, 4) as usize,
        2 => r.range(3, 8) as usize,
        _ => r.range(5, 14) as usize,
    };
    let ns = r.range(1, (nl as i64 + 2).min(9)) as usize;
    let nc = r.range(0, 4) as usize;
    let size_mode = r.below(5);
    let sub_size = |r: &mut Rng| -> u32 {
        match size_mode {
            0 => *r.pick(&[10u32, 3000, 20000, 30000, 40000, 65000]),
            1 => {
                if r.chance(1, 3) {
                    r.range(20000, 66000) as u32
                } else {
                    r.range(6, 400) as u32
                }
            }
            2 => r.range(60000 / ns as i64, 140000 / ns as i64) as u32,
            3 => r.range(6, 70000) as u32,
            _ => *r.pick(&[6u32, 8, 65520, 65530, 65535, 32768, 32767]),
        }
    };
    let type_mode = r.below(4);
    let share_pct = *r.pick(&[30u64, 60, 90]);
    let mut lookups = vec![];
    for li in 0..nl {
        let ty = match type_mode {
            0 => types[0],
            1 => types[li % 2],
            _ => *r.pick(types),
        };
        let k = match r.below(6) {
            0..=2 => 1,
            3 | 4 => 2,
            _ => r.range(3, 6) as usize,
        };
        let mut subs = vec![];
        for _ in 0..k {
            // shared: one of the first few subtables; otherwise any
            let s = if r.chance(share_pct, 100) { r.usize(ns.min(2)) } else { r.usize(ns) };
            if !subs.contains(&s) || r.chance(1, 5) {
                subs.push(s);
            }
        }
        // a long lookup (many offsets to the same few subtables) changes its rank in the promotion order
        if r.chance(1, 8) {
            let reps = r.range(10, 1500) as usize;
            let s = subs[0];
            subs.extend(std::iter::repeat(s).take(reps));
        }
        lookups.push((ty, subs));
    }
    let mut subtables = vec![];
    for _ in 0..ns {
        let mut ch = vec![];
        if nc > 0 {
            for _ in 0..r.below(3) {
                let c = r.usize(nc);
                if !ch.iter().any(|(x, _)| *x == c) {
                    ch.push((c, if r.chance(1, 8) { 4u8 } else { 2u8 }));
                }
            }
        }
        subtables.push((sub_size(r), ch));
    }
    let children: Vec<u32> = (0..nc).map(|_| *r.pick(&[4u32, 10, 200, 5000, 30000, 60000])).collect();
    let nf = r.below(3) as usize;
    let fillers: Vec<u32> = (0..nf).map(|_| *r.pick(&[4u32, 100, 10000, 40000])).collect();
    let mut filler_links = vec![];
    if nc > 0 {
        for f in 0..nf {
            if r.chance(1, 3) {
                filler_links.push((f, r.usize(nc)));
            }
        }
    }
    TypedPlan { gsub, fillers, lookups, subtables, children, filler_links }
}

fn typed_random(ctx: &mut Ctx, item: &mut usize) {
    let count: u64 = ctx.tier.pick(24_000, 400_000);
    for k in 0..count {
        *item += 1;
        if !ctx.mine(*item) {
            continue;
        }
        let mut r = Rng::derive(ctx.seed, "c05-typed", k);
        let plan = typed_random_plan(&mut r);
        let spec = plan_to_spec(&plan, None);
        let id = format!("typed:seed{}:i{}", ctx.seed, k);
        let out = crate::run_graph_case(ctx, &spec, "typed", &id);
        record_typed(ctx, &spec, &out);
    }
}

// ====================================================================== (e2) real tables

/// glyph -> sequence; the shared payload of Multiple / Alternate / Single(fmt 2) subtables
#[derive(Clone)]
struct SeqContent {
    glyphs: Vec<u16>,
    seqs: Vec<Vec<u16>>,
}

/// the shared payload of MarkBasePos / MarkMarkPos subtables
#[derive(Clone)]
struct MarkContent {
    /// (glyph, class, x, y)
    marks: Vec<(u16, u16, i16, i16)>,
    /// (glyph, per class anchor)
    bases: Vec<(u16, Vec<Option<(i16, i16)>>)>,
    n_classes: u16,
}

#[derive(Clone, Copy, Debug, PartialEq, Eq, Hash)]
enum Kind {
    // GSUB
    Single2,
    Multi,
    Alt,
    EmptySingle1,
    EmptyMulti,
    EmptyAlt,
    EmptyLig,
    // GPOS
    MarkBase,
    MarkMark,
    SingleVf0,
    CursiveEmpty,
    Single2Pos,
}

impl Kind {
    fn lookup_type(self) -> u16 {
        match self {
            Kind::Single2 | Kind::EmptySingle1 => 1,
            Kind::Multi | Kind::EmptyMulti => 2,
            Kind::Alt | Kind::EmptyAlt => 3,
            Kind::EmptyLig => 4,
            Kind::MarkBase => 4,
            Kind::MarkMark => 6,
            Kind::SingleVf0 | Kind::Single2Pos => 1,
            Kind::CursiveEmpty => 3,
        }
    }
    fn name(self) -> &'static str {
        match self {
            Kind::Single2 => "SingleSubst2",
            Kind::Multi => "MultipleSubst1",
            Kind::Alt => "AlternateSubst1",
            Kind::EmptySingle1 => "SingleSubst1(delta 0)",
            Kind::EmptyMulti => "MultipleSubst1(no sequences)",
            Kind::EmptyAlt => "AlternateSubst1(no sets)",
            Kind::EmptyLig => "LigatureSubst1(no sets)",
            Kind::MarkBase => "MarkBasePos1",
            Kind::MarkMark => "MarkMarkPos1",
            Kind::SingleVf0 => "SinglePos1(valueFormat 0)",
            Kind::CursiveEmpty => "CursivePos1(no records)",
            Kind::Single2Pos => "SinglePos2",
        }
    }
}

fn cov(glyphs: &[u16]) -> layout::CoverageTable {
    // format 1 always: the same glyph list gives the same bytes whoever builds it
    layout::CoverageTable::format_1(glyphs.iter().map(|g| GlyphId16::new(*g)).collect())
}

fn gids(v: &[u16]) -> Vec<GlyphId16> {
    v.iter().map(|g| GlyphId16::new(*g)).collect()
}

enum Content {
    Seq(SeqContent),
    Mark(MarkContent),
}

enum GsubSub {
    Single(gsub::SingleSubst),
    Multi(gsub::MultipleSubstFormat1),
    Alt(gsub::AlternateSubstFormat1),
    Lig(gsub::LigatureSubstFormat1),
}

enum GposSub {
    Single(gpos::SinglePos),
    Cursive(gpos::CursivePosFormat1),
    MarkBase(gpos::MarkBasePosFormat1),
    MarkMark(gpos::MarkMarkPosFormat1),
}

fn mark_parts(m: &MarkContent) -> (layout::CoverageTable, layout::CoverageTable, gpos::MarkArray, Vec<Vec<Option<gpos::AnchorTable>>>) {
    let mark_cov = cov(&m.marks.iter().map(|x| x.0).collect::<Vec<_>>());
    let base_cov = cov(&m.bases.iter().map(|x| x.0).collect::<Vec<_>>());
    let mark_array = gpos::MarkArray::new(m.marks.iter().map(|x| gpos::MarkRecord::new(x.1, gpos::AnchorTable::format_1(x.2, x.3))).collect());
    let recs = m.bases.iter().map(|b| b.1.iter().map(|a| a.map(|(x, y)| gpos::AnchorTable::format_1(x, y))).collect()).collect();
    (mark_cov, base_cov, mark_array, recs)
}

fn make_gsub_sub(kind: Kind, c: &Content) -> Option<GsubSub> {
    let empty: [u16; 0] = [];
    Some(match (kind, c) {
        (Kind::Single2, Content::Seq(s)) => GsubSub::Single(gsub::SingleSubst::format_2(cov(&s.glyphs), s.seqs.iter().map(|q| GlyphId16::new(q[0])).collect())),
        (Kind::Multi, Content::Seq(s)) => GsubSub::Multi(gsub::MultipleSubstFormat1::new(cov(&s.glyphs), s.seqs.iter().map(|q| gsub::Sequence::new(gids(q))).collect())),
        (Kind::Alt, Content::Seq(s)) => GsubSub::Alt(gsub::AlternateSubstFormat1::new(cov(&s.glyphs), s.seqs.iter().map(|q| gsub::AlternateSet::new(gids(q))).collect())),
        (Kind::EmptySingle1, _) => GsubSub::Single(gsub::SingleSubst::format_1(cov(&empty), 0)),
        (Kind::EmptyMulti, _) => GsubSub::Multi(gsub::MultipleSubstFormat1::new(cov(&empty), vec![])),
        (Kind::EmptyAlt, _) => GsubSub::Alt(gsub::AlternateSubstFormat1::new(cov(&empty), vec![])),
        (Kind::EmptyLig, _) => GsubSub::Lig(gsub::LigatureSubstFormat1::new(cov(&empty), vec![])),
        _ => return None,
    })
}

fn make_gpos_sub(kind: Kind, c: &Content) -> Option<GposSub> {
    let empty: [u16; 0] = [];
    Some(match (kind, c) {
        (Kind::MarkBase, Content::Mark(m)) => {
            let (mc, bc, ma, recs) = mark_parts(m);
            GposSub::MarkBase(gpos::MarkBasePosFormat1::new(mc, bc, ma, gpos::BaseArray::new(recs.into_iter().map(gpos::BaseRecord::new).collect())))
        }
        (Kind::MarkMark, Content::Mark(m)) => {
            let (mc, bc, ma, recs) = mark_parts(m);
            GposSub::MarkMark(gpos::MarkMarkPosFormat1::new(mc, bc, ma, gpos::Mark2Array::new(recs.into_iter().map(gpos::Mark2Record::new).collect())))
        }
        (Kind::SingleVf0, _) => GposSub::Single(gpos::SinglePos::format_1(cov(&empty), gpos::ValueRecord::new())),
        (Kind::CursiveEmpty, _) => GposSub::Cursive(gpos::CursivePosFormat1::new(cov(&empty), vec![])),
        (Kind::Single2Pos, Content::Seq(s)) => GposSub::Single(gpos::SinglePos::format_2(
            cov(&s.glyphs),
            s.seqs.iter().map(|q| gpos::ValueRecord::new().with_x_advance(q[0] as i16)).collect(),
        )),
        _ => return None,
    })
}

fn dump_gsub_sub(s: &GsubSub) -> Result<Vec<u8>, Error> {
    match s {
        GsubSub::Single(t) => dump_table(t),
        GsubSub::Multi(t) => dump_table(t),
        GsubSub::Alt(t) => dump_table(t),
        GsubSub::Lig(t) => dump_table(t),
    }
}

fn dump_gpos_sub(s: &GposSub) -> Result<Vec<u8>, Error> {
    match s {
        GposSub::Single(t) => dump_table(t),
        GposSub::Cursive(t) => dump_table(t),
        GposSub::MarkBase(t) => dump_table(t),
        GposSub::MarkMark(t) => dump_table(t),
    }
}

/// Parse `data` as a subtable of `kind` (the kind that was WRITTEN), convert to the owned
/// type and compile it on its own.
fn recompile_as(kind: Kind, data: &[u8]) -> Result<Vec<u8>, String> {
    let fd = FontData::new(data);
    macro_rules! rt {
        ($t:ty, $o:ty) => {{
            let t = <$t>::read(fd).map_err(|e| format!("cannot be read as {}: {}", kind.name(), e))?;
            let owned: $o = t.to_owned_table();
            dump_table(&owned).map_err(|e| format!("re-compiling the {} read back fails: {}", kind.name(), e))
        }};
    }
    match kind {
        Kind::Single2 | Kind::EmptySingle1 => rt!(rgsub::SingleSubst, gsub::SingleSubst),
        Kind::Multi | Kind::EmptyMulti => rt!(rgsub::MultipleSubstFormat1, gsub::MultipleSubstFormat1),
        Kind::Alt | Kind::EmptyAlt => rt!(rgsub::AlternateSubstFormat1, gsub::AlternateSubstFormat1),
        Kind::EmptyLig => rt!(rgsub::LigatureSubstFormat1, gsub::LigatureSubstFormat1),
        Kind::MarkBase => rt!(rgpos::MarkBasePosFormat1, gpos::MarkBasePosFormat1),
        Kind::MarkMark => rt!(rgpos::MarkMarkPosFormat1, gpos::MarkMarkPosFormat1),
        Kind::SingleVf0 | Kind::Single2Pos => rt!(rgpos::SinglePos, gpos::SinglePos),
        Kind::CursiveEmpty => rt!(rgpos::CursivePosFormat1, gpos::CursivePosFormat1),
    }
}

#[derive(Clone)]
struct LookupPlan {
    kind: Kind,
    /// content indices (one subtable each)
    subs: Vec<usize>,
    flag: u16,
    mark_set: Option<u16>,
}

struct Recipe {
    gsub: bool,
    contents: Vec<Content>,
    content_sizes: Vec<usize>,
    lookups: Vec<LookupPlan>,
    mode: &'static str,
}

fn gen_seq_content(r: &mut Rng, bytes: usize, salt: u64) -> SeqContent {
    let len = *r.pick(&[1usize, 2, 2, 3, 5]);
    let per = 8 + 2 * len;
    let n = (bytes / per).clamp(1, 9000);
    let first = 1 + r.below(50) as u16 + (salt as u16 % 7) * 3;
    let mut glyphs = vec![];
    let mut seqs = vec![];
    let mut g = first;
    for q in 0..n {
        g += 1 + r.below(3) as u16;
        glyphs.push(g);
        // every sequence distinct (otherwise the Sequence tables themselves are shared, which is
        // wanted only sometimes)
        let distinct = salt % 3 != 0;
        seqs.push((0..len).map(|j| if distinct { (fnv64(&[(q >> 8) as u8, q as u8, j as u8, salt as u8]) % 60000) as u16 + 1 } else { 100 + (q % 5) as u16 + j as u16 }).collect());
    }
    SeqContent { glyphs, seqs }
}

fn gen_mark_content(r: &mut Rng, bytes: usize, salt: u64) -> MarkContent {
    let n_classes = r.range(1, 4) as u16;
    // bytes ~ marks * (2 cov + 4 rec + 6 anchor) + bases * (2 cov + classes * (2 + 6))
    // every class is used by at least one mark (the writer derives markClassCount from the mark array)
    let n_marks = r.range(n_classes as i64, 40) as usize;
    let per_base = 2 + n_classes as usize * 8;
    let n_bases = (bytes.saturating_sub(n_marks * 12) / per_base).clamp(1, 6000);
    let mut marks = vec![];
    let mut g = 500 + (salt as u16 % 11);
    for q in 0..n_marks {
        g += 1 + r.below(2) as u16;
        marks.push((g, if (q as u16) < n_classes { q as u16 } else { r.below(n_classes as u64) as u16 }, (q as i16) * 3 - 50 + salt as i16 % 13, 700 + q as i16));
    }
    let mut bases = vec![];
    let mut g = 1000;
    for q in 0..n_bases {
        g += 1 + r.below(3) as u16;
        let anchors = (0..n_classes)
            .map(|c| if (q + c as usize + salt as usize) % 9 == 0 { None } else { Some(((fnv64(&[q as u8, (q >> 8) as u8, c as u8, salt as u8]) % 2000) as i16 - 1000, q as i16 + c as i16)) })
            .collect();
        bases.push((g, anchors));
    }
    MarkContent { marks, bases, n_classes }
}

fn size_class(r: &mut Rng, mode: u64) -> usize {
    match mode {
        0 => *r.pick(&[60usize, 1500, 9000, 22000, 38000]),
        1 => r.range(20000, 45000) as usize,
        2 => r.range(40, 4000) as usize,
        _ => r.range(40, 45000) as usize,
    }
}

fn gen_recipe(seed: u64, k: u64) -> (Recipe, Value) {
    let mut r = Rng::derive(seed, "c05-shared", k);
    let gsub = k % 3 != 2;
    let mode = *r.pick(&["mixed", "mixed", "all-promoted", "few-promoted", "degenerate-heavy"]);
    let size_mode = r.below(4);
    let mut contents: Vec<Content> = vec![];
    // pool of shareable contents
    let n_pool = r.range(1, 4) as usize;
    for c in 0..n_pool {
        let bytes = match mode {
            "all-promoted" => r.range(25000, 45000) as usize,
            "few-promoted" => {
                if c == 0 {
                    r.range(30000, 45000) as usize
                } else {
                    r.range(40, 3000) as usize
                }
            }
            _ => size_class(&mut r, size_mode),
        };
        contents.push(if gsub { Content::Seq(gen_seq_content(&mut r, bytes, k * 16 + c as u64)) } else { Content::Mark(gen_mark_content(&mut r, bytes, k * 16 + c as u64)) });
    }
    // kinds that can carry a pool content (byte-identical across the first two) and the degenerate ones
    let (share_kinds, empty_kinds): (&[Kind], &[Kind]) = if gsub {
        (&[Kind::Multi, Kind::Alt], &[Kind::EmptySingle1, Kind::EmptyMulti, Kind::EmptyAlt, Kind::EmptyLig])
    } else {
        (&[Kind::MarkBase, Kind::MarkMark], &[Kind::SingleVf0, Kind::CursiveEmpty])
    };
    let mut lookups: Vec<LookupPlan> = vec![];
    let flags = |r: &mut Rng| -> (u16, Option<u16>) {
        match r.below(5) {
            0 => (0x0008, None),            // IGNORE_MARKS
            1 => (0x0010, Some(r.below(4) as u16)), // USE_MARK_FILTERING_SET
            2 => (0x0002 | 0x0100, None),
            _ => (0, None),
        }
    };
    // forced: two lookups of different types on content 0 (+ sometimes a third of the first type)
    let n_share = r.range(2, 6) as usize;
    for i in 0..n_share {
        let kind = if i < 2 { share_kinds[i] } else { *r.pick(share_kinds) };
        let mut subs = vec![if i < 2 { 0 } else { r.usize(n_pool) }];
        // extra subtables: shared or not, sometimes the same subtable twice
        for _ in 0..r.below(3) {
            let c = r.usize(n_pool);
            if !subs.contains(&c) || r.chance(1, 4) {
                subs.push(c);
            }
        }
        let (flag, mark_set) = flags(&mut r);
        lookups.push(LookupPlan { kind, subs, flag, mark_set });
    }
    // degenerate 6-byte subtables shared by up to four lookup types; many offsets to ONE object
    // make a lookup "dense" (first in the promotion order) or force everything to be promoted
    let n_empty = match mode {
        "degenerate-heavy" => r.range(2, 6) as usize,
        _ => r.below(3) as usize,
    };
    for i in 0..n_empty {
        let kind = empty_kinds[i % empty_kinds.len()];
        let reps = match r.below(6) {
            0 => r.range(100, 3000) as usize,
            1 => r.range(2, 20) as usize,
            _ => 1,
        };
        let (flag, mark_set) = flags(&mut r);
        lookups.push(LookupPlan { kind, subs: vec![usize::MAX; reps], flag, mark_set });
    }
    // fillers with contents of their own, to push the table beyond 64 KiB
    let pool_bytes: usize = 0;
    let _ = pool_bytes;
    let target_total = match mode {
        "few-promoted" => r.range(66000, 90000) as usize,
        "all-promoted" => r.range(100000, 260000) as usize,
        _ => r.range(50000, 220000) as usize,
    };
    let mut total: usize = 0;
    let mut guard_n = 0;
    while total < target_total && guard_n < 12 {
        guard_n += 1;
        let bytes = match r.below(4) {
            0 => r.range(2000, 9000) as usize,
            1 => r.range(30000, 45000) as usize,
            _ => r.range(9000, 30000) as usize,
        };
        let c = contents.len();
        let kind = if gsub {
            contents.push(Content::Seq(gen_seq_content(&mut r, bytes, 1000 + k * 16 + c as u64)));
            *r.pick(&[Kind::Single2, Kind::Multi, Kind::Alt])
        } else if r.bool() {
            contents.push(Content::Seq(gen_seq_content(&mut r, bytes, 1000 + k * 16 + c as u64)));
            Kind::Single2Pos
        } else {
            contents.push(Content::Mark(gen_mark_content(&mut r, bytes, 1000 + k * 16 + c as u64)));
            *r.pick(&[Kind::MarkBase, Kind::MarkMark])
        };
        total += bytes;
        let mut subs = vec![c];
        // a filler may also reference a pool content of a compatible kind (same-type and cross-type sharing)
        if r.chance(1, 3) && share_kinds.contains(&kind) {
            subs.push(r.usize(n_pool));
        }
        let (flag, mark_set) = flags(&mut r);
        lookups.push(LookupPlan { kind, subs, flag, mark_set });
    }
    r.shuffle(&mut lookups);
    let recipe = json!({"kshared": k, "seed": seed, "table": if gsub { "GSUB" } else { "GPOS" }, "mode": mode,
        "lookups": lookups.iter().map(|l| json!({"kind": l.kind.name(), "type": l.kind.lookup_type(), "subtable_contents": l.subs.iter().map(|c| if *c == usize::MAX { -1 } else { *c as i64 }).collect::<Vec<_>>().iter().take(6).collect::<Vec<_>>(), "n_subtables": l.subs.len()})).collect::<Vec<_>>()});
    (Recipe { gsub, contents, content_sizes: vec![], lookups, mode }, recipe)
}

enum Table {
    Gsub(gsub::Gsub),
    Gpos(gpos::Gpos),
}

/// expected standalone bytes per (kind, content)
type Expected = HashMap<(Kind, usize), Vec<u8>>;

fn build_table(rc: &mut Recipe) -> Result<(Table, Expected), String> {
    let mut expected: Expected = HashMap::new();
    let dummy = Content::Seq(SeqContent { glyphs: vec![], seqs: vec![] });
    let flag_of = |l: &LookupPlan| layout::LookupFlag::from_bits_truncate(l.flag);
    if rc.gsub {
        let mut out = vec![];
        for l in &rc.lookups {
            macro_rules! subs_of {
                ($variant:ident, $t:ty) => {{
                    let mut v: Vec<$t> = vec![];
                    for c in &l.subs {
                        let content = if *c == usize::MAX { &dummy } else { &rc.contents[*c] };
                        let s = make_gsub_sub(l.kind, content).ok_or("kind/content mismatch")?;
                        if !expected.contains_key(&(l.kind, *c)) {
                            expected.insert((l.kind, *c), dump_gsub_sub(&s).map_err(|e| format!("standalone {}: {}", l.kind.name(), e))?);
                        }
                        match s {
                            GsubSub::$variant(t) => v.push(t),
                            _ => return Err("variant".into()),
                        }
                    }
                    let mut lk = layout::Lookup::new(flag_of(l), v);
                    lk.mark_filtering_set = l.mark_set;
                    lk
                }};
            }
            out.push(match l.kind {
                Kind::Single2 | Kind::EmptySingle1 => gsub::SubstitutionLookup::Single(subs_of!(Single, gsub::SingleSubst)),
                Kind::Multi | Kind::EmptyMulti => gsub::SubstitutionLookup::Multiple(subs_of!(Multi, gsub::MultipleSubstFormat1)),
                Kind::Alt | Kind::EmptyAlt => gsub::SubstitutionLookup::Alternate(subs_of!(Alt, gsub::AlternateSubstFormat1)),
                Kind::EmptyLig => gsub::SubstitutionLookup::Ligature(subs_of!(Lig, gsub::LigatureSubstFormat1)),
                _ => return Err("GPOS kind in GSUB".into()),
            });
        }
        Ok((Table::Gsub(gsub::Gsub::new(Default::default(), Default::default(), layout::LookupList::new(out))), expected))
    } else {
        let mut out = vec![];
        for l in &rc.lookups {
            macro_rules! subs_of {
                ($variant:ident, $t:ty) => {{
                    let mut v: Vec<$t> = vec![];
                    for c in &l.subs {
                        let content = if *c == usize::MAX { &dummy } else { &rc.contents[*c] };
                        let s = make_gpos_sub(l.kind, content).ok_or("kind/content mismatch")?;
                        if !expected.contains_key(&(l.kind, *c)) {
                            expected.insert((l.kind, *c), dump_gpos_sub(&s).map_err(|e| format!("standalone {}: {}", l.kind.name(), e))?);
                        }
                        match s {
                            GposSub::$variant(t) => v.push(t),
                            _ => return Err("variant".into()),
                        }
                    }
                    let mut lk = layout::Lookup::new(flag_of(l), v);
                    lk.mark_filtering_set = l.mark_set;
                    lk
                }};
            }
            out.push(match l.kind {
                Kind::SingleVf0 | Kind::Single2Pos => gpos::PositionLookup::Single(subs_of!(Single, gpos::SinglePos)),
                Kind::CursiveEmpty => gpos::PositionLookup::Cursive(subs_of!(Cursive, gpos::CursivePosFormat1)),
                Kind::MarkBase => gpos::PositionLookup::MarkToBase(subs_of!(MarkBase, gpos::MarkBasePosFormat1)),
                Kind::MarkMark => gpos::PositionLookup::MarkToMark(subs_of!(MarkMark, gpos::MarkMarkPosFormat1)),
                _ => return Err("GSUB kind in GPOS".into()),
            });
        }
        Ok((Table::Gpos(gpos::Gpos::new(Default::default(), Default::default(), layout::LookupList::new(out))), expected))
    }
}

#[derive(Default)]
struct Back {
    promoted: Vec<bool>,
    subtables_checked: usize,
    ext_records: usize,
    /// absolute position of every subtable slot
    positions: Vec<Vec<usize>>,
    split_lookups: usize,
}

fn be16(b: &[u8], at: usize) -> Result<u16, String> {
    b.get(at..at + 2).map(|x| u16::from_be_bytes([x[0], x[1]])).ok_or(format!("read of u16 at {} beyond the table ({} bytes)", at, b.len()))
}
fn be32(b: &[u8], at: usize) -> Result<u32, String> {
    b.get(at..at + 4).map(|x| u32::from_be_bytes([x[0], x[1], x[2], x[3]])).ok_or(format!("read of u32 at {} beyond the table ({} bytes)", at, b.len()))
}

/// (problem kind, message)
type Problem = (&'static str, String);

fn verify_table(bytes: &[u8], rc: &Recipe, expected: &Expected) -> Result<Back, Problem> {
    let p = |k: &'static str, m: String| -> Problem { (k, m) };
    let io = |e: String| -> Problem { ("out-of-bounds", e) };
    let mut back = Back::default();
    let ext_type: u16 = if rc.gsub { 7 } else { 9 };
    let major = be16(bytes, 0).map_err(io)?;
    if major != 1 {
        return Err(p("header", format!("major version {}", major)));
    }
    let ll = be16(bytes, 8).map_err(io)? as usize;
    let count = be16(bytes, ll).map_err(io)? as usize;
    if count != rc.lookups.len() {
        return Err(p("lookup-count", format!("lookup count {} differs from the {} lookups written", count, rc.lookups.len())));
    }
    for (li, l) in rc.lookups.iter().enumerate() {
        let lp = ll + be16(bytes, ll + 2 + 2 * li).map_err(io)? as usize;
        let ty = be16(bytes, lp).map_err(io)?;
        let flag = be16(bytes, lp + 2).map_err(io)?;
        let n = be16(bytes, lp + 4).map_err(io)? as usize;
        let orig = l.kind.lookup_type();
        let promoted = if ty == orig {
            false
        } else if ty == ext_type {
            true
        } else {
            return Err(p("lookup-type-changed", format!("lookup {} ({}) was written with lookupType {} and reads back with lookupType {}", li, l.kind.name(), orig, ty)));
        };
        back.promoted.push(promoted);
        if flag != l.flag {
            return Err(p("lookup-flag-changed", format!("lookup {}: lookupFlag {:#x} reads back as {:#x}", li, l.flag, flag)));
        }
        if n != l.subs.len() {
            // MarkBasePos is splittable; every subtable of this workload is below the split threshold
            return Err(p("subtable-count-changed", format!("lookup {} ({}): {} subtables written, {} read back", li, l.kind.name(), l.subs.len(), n)));
        }
        if let Some(ms) = l.mark_set {
            let got = be16(bytes, lp + 6 + 2 * n).map_err(io)?;
            if got != ms {
                return Err(p("mark-filtering-set-changed", format!("lookup {}: markFilteringSet {} reads back as {}", li, ms, got)));
            }
        }
        let mut pos_v = vec![];
        for (si, c) in l.subs.iter().enumerate() {
            let mut sp = lp + be16(bytes, lp + 6 + 2 * si).map_err(io)? as usize;
            if promoted {
                let fmt = be16(bytes, sp).map_err(io)?;
                let ety = be16(bytes, sp + 2).map_err(io)?;
                let off = be32(bytes, sp + 4).map_err(io)? as usize;
                if fmt != 1 {
                    return Err(p("extension-format", format!("lookup {} subtable {}: extension subtable at {} has format {}", li, si, sp, fmt)));
                }
                if ety != orig {
                    return Err(p(
                        "extension-type-differs",
                        format!("lookup {} ({}, lookupType {}) subtable {}: the extension subtable at {} carries extensionLookupType {}", li, l.kind.name(), orig, si, sp, ety),
                    ));
                }
                back.ext_records += 1;
                sp += off;
            }
            if sp >= bytes.len() {
                return Err(p("out-of-bounds", format!("lookup {} subtable {} resolves to {} beyond the table ({} bytes)", li, si, sp, bytes.len())));
            }
            pos_v.push(sp);
            let want = expected.get(&(l.kind, *c)).ok_or_else(|| p("harness", "expected bytes missing".into()))?;
            // cheap first: the standalone compilation puts the subtable's own record first, so its
            // first bytes (format, offsets aside) must agree; then the full structural comparison
            match recompile_as(l.kind, &bytes[sp..]) {
                Ok(got) => {
                    if &got != want {
                        let k = got.iter().zip(want.iter()).position(|(a, b)| a != b).unwrap_or(got.len().min(want.len()));
                        return Err(p(
                            "subtable-content-differs",
                            format!("lookup {} ({}) subtable {} at {}: read back and compiled on its own it gives {} bytes, the subtable written for this slot gives {} bytes; first difference at {}", li, l.kind.name(), si, sp, got.len(), want.len(), k),
                        ));
                    }
                }
                Err(e) => return Err(p("subtable-unreadable", format!("lookup {} ({}) subtable {} at {}: {}", li, l.kind.name(), si, sp, e))),
            }
            back.subtables_checked += 1;
        }
        back.positions.push(pos_v);
    }
    // read-fonts' typed view: the lookup must have the kind it was written with
    let kinds: Vec<u16> = if rc.gsub {
        let t = rgsub::Gsub::read(FontData::new(bytes)).map_err(|e| p("read-fonts", format!("GSUB header: {}", e)))?;
        let list = t.lookup_list().map_err(|e| p("read-fonts", format!("lookup list: {}", e)))?;
        let mut v = vec![];
        for li in 0..list.lookup_count() as usize {
            let lk = list.lookups().get(li).map_err(|e| p("read-fonts", format!("lookup {}: {}", li, e)))?;
            let st = lk.subtables().map_err(|e| p("read-fonts", format!("lookup {} subtables: {}", li, e)))?;
            v.push(match st {
                rgsub::SubstitutionSubtables::Single(_) => 1,
                rgsub::SubstitutionSubtables::Multiple(_) => 2,
                rgsub::SubstitutionSubtables::Alternate(_) => 3,
                rgsub::SubstitutionSubtables::Ligature(_) => 4,
                rgsub::SubstitutionSubtables::Contextual(_) => 5,
                rgsub::SubstitutionSubtables::ChainContextual(_) => 6,
                rgsub::SubstitutionSubtables::Reverse(_) => 8,
            });
        }
        v
    } else {
        let t = rgpos::Gpos::read(FontData::new(bytes)).map_err(|e| p("read-fonts", format!("GPOS header: {}", e)))?;
        let list = t.lookup_list().map_err(|e| p("read-fonts", format!("lookup list: {}", e)))?;
        let mut v = vec![];
        for li in 0..list.lookup_count() as usize {
            let lk = list.lookups().get(li).map_err(|e| p("read-fonts", format!("lookup {}: {}", li, e)))?;
            let st = lk.subtables().map_err(|e| p("read-fonts", format!("lookup {} subtables: {}", li, e)))?;
            v.push(match st {
                rgpos::PositionSubtables::Single(_) => 1,
                rgpos::PositionSubtables::Pair(_) => 2,
                rgpos::PositionSubtables::Cursive(_) => 3,
                rgpos::PositionSubtables::MarkToBase(_) => 4,
                rgpos::PositionSubtables::MarkToLig(_) => 5,
                rgpos::PositionSubtables::MarkToMark(_) => 6,
                rgpos::PositionSubtables::Contextual(_) => 7,
                rgpos::PositionSubtables::ChainContextual(_) => 8,
            });
        }
        v
    };
    for (li, l) in rc.lookups.iter().enumerate() {
        // a lookup without subtables has no kind in read-fonts' view; none is generated here
        if kinds.get(li).copied() != Some(l.kind.lookup_type()) {
            return Err(p("read-fonts-kind-differs", format!("lookup {} was written as {} (type {}), read-fonts sees effective type {:?}", li, l.kind.name(), l.kind.lookup_type(), kinds.get(li))));
        }
    }
    Ok(back)
}

fn one_table(ctx: &mut Ctx, k: u64) {
    let seed = ctx.seed;
    let built = vf_core::guard(|| {
        let (mut rc, recipe) = gen_recipe(seed, k);
        let t = build_table(&mut rc);
        (rc, recipe, t)
    });
    let (rc, recipe, table, expected) = match built {
        Ok((rc, recipe, Ok((t, e)))) => (rc, recipe, t, e),
        Ok((_, recipe, Err(e))) => {
            // a subtable this generator believes to be valid does not compile on its own
            ctx.count("shared:recipes_not_buildable", 1);
            ctx.label("shared:recipes_not_buildable", &e);
            let _ = recipe;
            return;
        }
        Err(p) => {
            ctx.inconclusive(format!("shared-subtable recipe k={} could not be built: {}:{} {}", k, p.file, p.line, p.msg));
            return;
        }
    };
    ctx.eval();
    let tname = if rc.gsub { "gsub" } else { "gpos" };
    ctx.count(&format!("shared:{}:cases", tname), 1);
    ctx.count(&format!("shared:mode:{}", rc.mode), 1);
    let _ = &rc.content_sizes;
    let _ = hooks::take_trace();
    let label = || format!("shared {}", recipe);
    let res = ctx.run_case(&label, None, &|| match &table {
        Table::Gsub(t) => dump_table(t),
        Table::Gpos(t) => dump_table(t),
    });
    let trace_v = hooks::take_trace();
    let trace = crate::compress_trace(&trace_v);
    ctx.distinct("stage_traces", fnv64(trace.as_bytes()));
    ctx.label("stage_traces_shared", &trace);
    for st in ["promote", "assign_spaces", "isolate_subgraph", "duplicate_subgraph"] {
        if trace_v.iter().any(|s| *s == st) {
            ctx.count(&format!("shared:stage_reached:{}", st), 1);
        }
    }
    let case_id = format!("{}:seed{}:k{}", tname, seed, k);
    match res {
        Ok(Ok(bytes)) => {
            let v = vf_core::guard(|| verify_table(&bytes, &rc, &expected));
            match v {
                Ok(Ok(back)) => {
                    ctx.count("shared:outcome:success_every_lookup_verified", 1);
                    ctx.count("shared:subtable_slots_verified", back.subtables_checked as u64);
                    ctx.count("shared:extension_records_verified", back.ext_records as u64);
                    let n_prom = back.promoted.iter().filter(|x| **x).count();
                    ctx.count("shared:lookups_promoted", n_prom as u64);
                    ctx.count("shared:lookups_not_promoted", (back.promoted.len() - n_prom) as u64);
                    if n_prom == back.promoted.len() && n_prom > 0 {
                        ctx.count("shared:tables_with_all_lookups_promoted", 1);
                    }
                    // which sharing patterns met which promotion outcome
                    let mut users: HashMap<(usize, bool), Vec<usize>> = HashMap::new(); // (content, empty) -> lookups
                    for (li, l) in rc.lookups.iter().enumerate() {
                        let mut seen = HashSet::new();
                        for c in &l.subs {
                            // byte-identical <=> same content and kinds of one family
                            let key = (*c, *c == usize::MAX);
                            if seen.insert(key) {
                                users.entry(key).or_default().push(li);
                            }
                        }
                    }
                    let (mut xt_both, mut xt_mixed, mut st_both, mut one_object) = (0u64, 0u64, 0u64, 0u64);
                    for u in users.values() {
                        for (a, i) in u.iter().enumerate() {
                            for j in &u[a + 1..] {
                                let (ki, kj) = (rc.lookups[*i].kind, rc.lookups[*j].kind);
                                let identical = ki == kj || (matches!(ki, Kind::Multi | Kind::Alt) && matches!(kj, Kind::Multi | Kind::Alt))
                                    || (matches!(ki, Kind::MarkBase | Kind::MarkMark) && matches!(kj, Kind::MarkBase | Kind::MarkMark))
                                    || (matches!(ki, Kind::EmptySingle1 | Kind::EmptyMulti | Kind::EmptyAlt | Kind::EmptyLig) && matches!(kj, Kind::EmptySingle1 | Kind::EmptyMulti | Kind::EmptyAlt | Kind::EmptyLig))
                                    || (matches!(ki, Kind::SingleVf0 | Kind::CursiveEmpty) && matches!(kj, Kind::SingleVf0 | Kind::CursiveEmpty));
                                if !identical {
                                    continue;
                                }
                                let cross = ki.lookup_type() != kj.lookup_type();
                                let (pi, pj) = (back.promoted[*i], back.promoted[*j]);
                                if cross && pi && pj {
                                    xt_both += 1;
                                } else if pi != pj {
                                    xt_mixed += 1;
                                } else if pi && pj {
                                    st_both += 1;
                                }
                                // did the output really share one object?
                                if back.positions[*i].iter().any(|p| back.positions[*j].contains(p)) {
                                    one_object += 1;
                                }
                            }
                        }
                    }
                    ctx.count("shared:lookup_pairs_of_different_type_with_identical_subtable_both_promoted", xt_both);
                    ctx.count("shared:lookup_pairs_with_identical_subtable_one_promoted_one_not", xt_mixed);
                    ctx.count("shared:lookup_pairs_of_same_type_with_identical_subtable_both_promoted", st_both);
                    ctx.count("shared:lookup_pairs_resolving_to_one_subtable_object_in_the_output", one_object);
                    if xt_both > 0 {
                        ctx.count("shared:tables_with_cross_type_sharing_both_promoted", 1);
                    }
                    if bytes.len() > 65535 {
                        ctx.count("shared:output_above_64k", 1);
                    }
                    if n_prom > 0 {
                        ctx.nontrivial(fnv64(recipe.to_string().as_bytes()));
                        ctx.count("nontrivial_cases", 1);
                        ctx.sample_by_kind(
                            &format!("shared-{}{}", tname, if xt_both > 0 { "-cross-type-both-promoted" } else if xt_mixed > 0 { "-shared-promoted+not" } else { "-promoted" }),
                            json!({"recipe": recipe, "trace": trace, "out_len": bytes.len(), "promoted": back.promoted}),
                        );
                    }
                }
                Ok(Err((kind, msg))) => {
                    if kind == "harness" {
                        ctx.inconclusive(format!("shared-subtable check {}: {}", case_id, msg));
                        return;
                    }
                    ctx.count("shared:outcome:success_but_misresolved", 1);
                    ctx.violation(
                        &format!("shared-misresolved:{}:{}", kind, case_id),
                        json!({"what": "dump_table returned Ok but a lookup does not read back as written (type / extension type / subtable content)", "problem": msg, "kind": kind,
                               "recipe": recipe, "trace": trace, "out_len": bytes.len()}),
                        Some(&bytes),
                    );
                }
                Err(p) => {
                    ctx.count("shared:outcome:readback_panic", 1);
                    if p.in_repo() {
                        ctx.violation(
                            &format!("shared-readback-panic:{}:{}:{}", p.file.strip_prefix(&format!("{}/", vf_core::repo_dir())).unwrap_or(&p.file), p.line, case_id),
                            json!({"what": "read-back of the compiled table panicked", "panic": {"file": p.file, "line": p.line, "msg": p.msg}, "recipe": recipe, "trace": trace}),
                            Some(&bytes),
                        );
                    } else {
                        ctx.inconclusive(format!("harness panic in shared-subtable read-back {}:{} {}", p.file, p.line, p.msg));
                    }
                }
            }
        }
        Ok(Err(Error::PackingFailed(_))) => {
            ctx.count("shared:outcome:packing_failed", 1);
            ctx.sample_by_kind("shared-packing-failed", json!({"recipe": recipe, "trace": trace}));
        }
        Ok(Err(e)) => {
            ctx.count("shared:outcome:validation_error", 1);
            ctx.label("shared:validation_errors", &format!("{}", e).chars().take(100).collect::<String>());
        }
        Err(p) => {
            if !p.in_repo() {
                ctx.inconclusive(format!("harness panic {}:{} {}", p.file, p.line, p.msg));
                return;
            }
            ctx.count("shared:outcome:panic", 1);
            ctx.violation(
                &format!("pack-panic:{}:{}:shared:{}", p.file.strip_prefix(&format!("{}/", vf_core::repo_dir())).unwrap_or(&p.file), p.line, case_id),
                json!({"what": "dump_table panicked on a layout table with shared subtables", "panic": {"file": p.file, "line": p.line, "msg": p.msg, "class": p.class.as_str()},
                       "recipe": recipe, "trace": trace}),
                None,
            );
        }
    }
}

pub fn run(ctx: &mut Ctx) {
    let mut item = 0usize;
    let t0 = ctx.elapsed_s();
    typed_enumerated(ctx, &mut item);
    typed_random(ctx, &mut item);
    let t1 = ctx.elapsed_s();
    let count: u64 = ctx.tier.pick(2400, 30000);
    for k in 0..count {
        item += 1;
        if ctx.mine(item) {
            one_table(ctx, k);
        }
    }
    let t2 = ctx.elapsed_s();
    ctx.extra.insert("shared_workload_seconds_this_shard".into(), json!({"typed_graphs": t1 - t0, "real_tables": t2 - t1}));
}

pub fn replay(ctx: &mut Ctx, recipe: &Value) {
    let Some(k) = recipe["kshared"].as_u64() else {
        ctx.inconclusive("shared-subtable replay without k");
        return;
    };
    if let Some(s) = recipe["seed"].as_u64() {
        ctx.seed = s;
    }
    one_table(ctx, k);
}
