//! (b') graphs whose total size crosses 2^24 bytes, so that 24-bit links can
//! overflow: a few objects of 1-16 MiB, chains / fans / small DAGs, mixed
//! 16/24/32-bit widths, and sizes snapped so that a 24-bit distance is exactly
//! at, one below or one above 0xFFFFFF. Some packings fit, others cannot.
//! Oracle as for every graph case: Ok => every offset resolves
//! (`spec::resolve`); otherwise Err(PackingFailed); never a panic.

use crate::spec::{Link, NodeSpec, Spec};
use vf_core::{Ctx, Digest, Rng};

pub const MAX24: u64 = 0xff_ffff;
const MIB: u32 = 1 << 20;

fn w_name(w: u8) -> &'static str {
    match w {
        2 => "16",
        3 => "24",
        _ => "32",
    }
}

/// lay the links of every node out at the start of the object and fix sizes
fn finish(mut nodes: Vec<NodeSpec>, out: Vec<Vec<(usize, u8)>>, tail_fields: bool) -> Vec<NodeSpec> {
    for (i, ls) in out.into_iter().enumerate() {
        let lb: u32 = ls.iter().map(|l| l.1 as u32).sum();
        let size = nodes[i].size.max(lb + 4);
        nodes[i].size = size;
        // offset fields directly after the 4-byte header, or at the very end of the object
        let mut pos = if tail_fields { size - lb } else { 4 };
        for (to, w) in ls {
            nodes[i].links.push(Link { to, width: w, pos, adj: 0 });
            pos += w as u32;
        }
    }
    nodes
}

fn wide(r: &mut Rng, mode: u64) -> u8 {
    match mode {
        0 => 3,
        1 => {
            if r.chance(1, 4) {
                4
            } else {
                3
            }
        }
        _ => {
            if r.bool() {
                3
            } else {
                4
            }
        }
    }
}

fn big_size(r: &mut Rng) -> u32 {
    match r.below(8) {
        0 => r.range(MIB as i64, 3 * MIB as i64) as u32,
        1 => r.range(9 * MIB as i64, 12 * MIB as i64) as u32,
        _ => r.range(3 * MIB as i64, 9 * MIB as i64) as u32,
    }
}

/// Exact boundary families; `d` is added to the critical 24-bit distance 0xFFFFFF.
/// Returns (family name, nodes).
fn boundary_family(r: &mut Rng, fam: u64, d: i64) -> (&'static str, Vec<NodeSpec>) {
    let n = |size: u32| NodeSpec { size, links: vec![] };
    let crit = (MAX24 as i64 + d) as u32;
    match fam {
        0 => {
            // chain root -> A -24-> B: A's own size is the distance
            let w0 = wide(r, 2);
            let nodes = vec![n(r.range(8, 64) as u32), n(crit), n(r.range(1, 4 * MIB as i64) as u32)];
            ("chain-distance=parent-size", finish(nodes, vec![vec![(1, w0)], vec![(2, 3)], vec![]], false))
        }
        1 => {
            // fan of two equal children: whichever goes second sits at s0 + x
            let s0 = r.range(12, 200) as u32;
            let x = crit - s0;
            let nodes = vec![n(s0), n(x), n(x)];
            ("fan2-equal-children", finish(nodes, vec![vec![(1, 3), (2, 3)], vec![], vec![]], false))
        }
        2 => {
            // fan of two unequal children: only the order (small, large) can fit
            let s0 = r.range(12, 200) as u32;
            let a = crit - s0;
            let b = a + r.range(1, MIB as i64) as u32;
            let (first, second) = if r.bool() { (a, b) } else { (b, a) };
            let nodes = vec![n(s0), n(first), n(second)];
            ("fan2-only-one-order-fits", finish(nodes, vec![vec![(1, 3), (2, 3)], vec![], vec![]], false))
        }
        3 => {
            // fan of three: the last child sits behind two others
            let s0 = r.range(12, 200) as u32;
            let a = r.range(3 * MIB as i64, 8 * MIB as i64) as u32;
            let b = crit - s0 - a;
            let c = b.max(a) + r.range(0, MIB as i64) as u32;
            let mut ch = vec![a, b, c];
            r.shuffle(&mut ch);
            let nodes = vec![n(s0), n(ch[0]), n(ch[1]), n(ch[2])];
            let w = wide(r, 1);
            ("fan3", finish(nodes, vec![vec![(1, 3), (2, w), (3, 3)], vec![], vec![], vec![]], false))
        }
        4 => {
            // shared leaf behind two big parents: root -> A, B (32); A, B -24-> L.
            // order root A B L: A->L = a + b, B->L = b
            let a = r.range(3 * MIB as i64, 8 * MIB as i64) as u32;
            let b = crit - a;
            let l = r.range(4, 70000) as u32;
            let nodes = vec![n(r.range(12, 64) as u32), n(a), n(b), n(l)];
            let w = wide(r, 1);
            ("shared-leaf-behind-two-parents", finish(nodes, vec![vec![(1, 4), (2, w)], vec![(3, 3)], vec![(3, 3)], vec![]], r.bool()))
        }
        5 => {
            // 16-bit child must stay near the root while a 24-bit child is pushed out:
            // root -16-> S -24-> X ; root -24-> Y ; S small. order root S X Y: root->Y = s0+s+x
            let s0 = r.range(12, 64) as u32;
            let s = r.range(8, 60000) as u32;
            let x = r.range(3 * MIB as i64, 9 * MIB as i64) as u32;
            let y = crit - s0 - s;
            let nodes = vec![n(s0), n(s), n(x), n(y)];
            ("16bit-near-root+24bit-pushed-out", finish(nodes, vec![vec![(1, 2), (3, 3)], vec![(2, 3)], vec![], vec![]], false))
        }
        6 => {
            // chain of three bigs with a long 24-bit link over the middle one:
            // root -> A ; A -24-> B ; A -24-> C ; B -32-> C. order root A B C: A->C = a + b
            let a = r.range(3 * MIB as i64, 8 * MIB as i64) as u32;
            let b = crit - a;
            let c = r.range(1, 3 * MIB as i64) as u32;
            let nodes = vec![n(r.range(12, 64) as u32), n(a), n(b), n(c)];
            let w = wide(r, 2);
            ("24bit-link-over-a-sibling", finish(nodes, vec![vec![(1, w)], vec![(2, 3), (3, 3)], vec![(3, 4)], vec![]], false))
        }
        _ => {
            // tail offset fields in the parent (the field position must not matter: offsets are from the parent's start)
            let s0 = r.range(12, 200) as u32;
            let x = crit - s0;
            let nodes = vec![n(s0), n(x), n(r.range(2 * MIB as i64, 5 * MIB as i64) as u32)];
            ("fan2-one-must-go-first", finish(nodes, vec![vec![(2, 3), (1, 3)], vec![], vec![]], true))
        }
    }
}

/// Random small DAG over 3-6 big objects and 0-3 small ones.
fn random_big(r: &mut Rng) -> (&'static str, Vec<NodeSpec>) {
    let n_big = r.range(3, 6) as usize;
    let n_small = r.below(4) as usize;
    let shape = r.below(4); // 0 fan, 1 chain, 2 random tree, 3 tree + extra (shared) edges
    let wmode = r.below(3);
    // node 0 = root (small); then bigs and smalls interleaved at random
    let mut kinds: Vec<bool> = std::iter::repeat(true).take(n_big).chain(std::iter::repeat(false).take(n_small)).collect();
    r.shuffle(&mut kinds);
    let mut nodes = vec![NodeSpec { size: r.range(12, 300) as u32, links: vec![] }];
    for big in &kinds {
        let size = if *big { big_size(r) } else { *r.pick(&[10u32, 100, 3000, 40000, 65530]) };
        nodes.push(NodeSpec { size, links: vec![] });
    }
    let n = nodes.len();
    let is_big = |i: usize| i > 0 && kinds[i - 1];
    let mut out: Vec<Vec<(usize, u8)>> = vec![vec![]; n];
    for j in 1..n {
        let p = match shape {
            0 => 0,
            1 => j - 1,
            _ => r.usize(j),
        };
        // a 16-bit link only makes sense out of a small object
        let w = if !is_big(p) && !is_big(j) && r.chance(2, 3) {
            2
        } else if !is_big(p) && r.chance(1, 8) {
            2
        } else {
            wide(r, wmode)
        };
        out[p].push((j, w));
        if shape == 3 && j >= 2 && r.chance(1, 3) {
            let q = r.usize(j);
            if q != p {
                out[q].push((j, wide(r, wmode)));
            }
        }
    }
    for o in out.iter_mut() {
        r.shuffle(o);
    }
    let tail = r.chance(1, 4);
    let mut nodes = finish(nodes, out, tail);
    // snap: make the distance of one 24-bit link in index order land on the boundary
    if r.chance(2, 3) {
        let mut pos = vec![0u64; n];
        let mut cur = 0u64;
        for i in 0..n {
            pos[i] = cur;
            cur += nodes[i].size as u64;
        }
        let l24: Vec<(usize, usize)> = nodes.iter().enumerate().flat_map(|(i, nd)| nd.links.iter().filter(|l| l.width == 3).map(move |l| (i, l.to))).collect();
        if !l24.is_empty() {
            let (p, c) = *r.pick(&l24);
            let dist = (pos[c] - pos[p]) as i64;
            let want = MAX24 as i64 + r.range(-2, 2);
            // adjust a big object in p..c (p itself counts: the distance includes the parent's size)
            let cands: Vec<usize> = (p..c).filter(|i| is_big(*i)).collect();
            if !cands.is_empty() {
                let k = *r.pick(&cands);
                let ns = nodes[k].size as i64 + (want - dist);
                if ns >= MIB as i64 / 2 && ns <= 13 * MIB as i64 {
                    let delta = ns - nodes[k].size as i64;
                    nodes[k].size = ns as u32;
                    // tail fields move with the end of the object
                    if tail {
                        for l in nodes[k].links.iter_mut() {
                            l.pos = (l.pos as i64 + delta) as u32;
                        }
                    }
                }
            }
        }
    }
    (["rand-fan", "rand-chain", "rand-tree", "rand-dag"][shape as usize], nodes)
}

pub fn run(ctx: &mut Ctx) {
    let count: u64 = ctx.tier.pick(640, 6000);
    for k in 0..count {
        if !ctx.mine(k as usize) {
            continue;
        }
        let mut r = Rng::derive(ctx.seed, "c05-big24", k);
        let (family, nodes) = if r.bool() {
            let fam = r.below(8);
            let d = *r.pick(&[-1i64, 0, 1, 2, -2, 0, 1, 65536]);
            boundary_family(&mut r, fam, d)
        } else {
            random_big(&mut r)
        };
        let spec = Spec::new(nodes, None);
        let id = format!("big24:{}:seed{}:k{}", family, ctx.seed, k);
        let total = spec.total_size();
        let out = crate::run_graph_case(ctx, &spec, "big24", &id);
        if matches!(out.outcome, "success" | "packing_failed" | "panic") {
            ctx.count(&format!("big24:{}:{}", family, out.outcome), 1);
            ctx.count(&format!("big24:{}", out.outcome), 1);
            if total > MAX24 {
                ctx.count(&format!("big24:total_size_above_16MiB:{}", out.outcome), 1);
            }
            let widths: std::collections::BTreeSet<&str> = spec.nodes.iter().flat_map(|n| n.links.iter().map(|l| w_name(l.width))).collect();
            ctx.label("big24:width_mixes", &widths.into_iter().collect::<Vec<_>>().join("+"));
            let mut d = Digest::new();
            d.u64(spec.nodes.len() as u64);
            d.u64(spec.n_links() as u64);
            d.str(family);
            ctx.distinct("big24:distinct_(family,nodes,links)", d.finish());
            if spec.nodes.len() <= 8 {
                let exists = crate::layout_exists(&spec);
                if exists {
                    ctx.count("big24:a_plain_topological_layout_exists", 1);
                } else {
                    ctx.count("big24:no_plain_topological_layout_exists", 1);
                }
                if out.outcome == "packing_failed" && exists {
                    ctx.count("big24:packing_failed_although_a_plain_topological_layout_exists(heuristic incompleteness, allowed)", 1);
                }
                if out.outcome == "success" && !exists && !spec.has_sharing() {
                    // without shared objects the packer cannot duplicate anything, so a success
                    // whose offsets all resolve implies a plain layout: the two oracles disagree
                    ctx.inconclusive(format!("{}: success although the harness found no layout (harness model?)", id));
                }
            }
        }
    }
}
