//! (c) real GPOS / GSUB tables at 1x-4x the 64 KiB limit, so that subtable
//! splitting (PairPos, MarkBasePos) and extension promotion run. The result is
//! read back with read-fonts: every offset must resolve and every rule of the
//! input must be found with its value (a light check; C16 does the semantic one).

use std::collections::{HashMap, HashSet};

use font_types::GlyphId16;
use read_fonts::tables::{gpos as rgpos, gsub as rgsub};
use read_fonts::FontRead;
use serde_json::{json, Value};
use vf_core::{fnv64, Ctx, Rng};
use write_fonts::tables::{gpos, gsub, layout};
use write_fonts::{dump_table, error::Error, verif_graph_hooks as hooks};

const KINDS: [&str; 5] = ["pairpos1", "pairpos2", "markbase", "mixed", "gsub-single"];

fn h16(a: u64, b: u64, c: u64) -> i16 {
    let x = fnv64(&[a.to_le_bytes(), b.to_le_bytes(), c.to_le_bytes()].concat());
    // keep away from 0 so that value formats stay stable
    (((x >> 7) % 30000) as i16) - 15000 | 1
}

// ---------------------------------------------------------------- expected models

#[derive(Default)]
struct Expect {
    /// (lookup, g1, g2) -> x_advance of record 1
    pairs: HashMap<(usize, u16, u16), i16>,
    /// class-based: per lookup (first glyphs -> class1), (second glyphs -> class2), n2, seed
    pp2: Vec<(usize, Vec<(u16, u16)>, Vec<(u16, u16)>, u16, u64)>,
    /// per lookup: marks (gid, class, x, y), bases (gid, per class Option<(x,y)>)
    mb: Vec<(usize, Vec<(u16, u16, i16, i16)>, Vec<(u16, Vec<Option<(i16, i16)>>)>)>,
    /// gsub single: (lookup, glyph) -> substitute
    subst: HashMap<(usize, u16), u16>,
    n_input_subtables: usize,
}

fn big_pair_pos1(r: &mut Rng, li: usize, target: usize, ex: &mut Expect) -> gpos::PositionLookup {
    let n_sub = if r.chance(1, 4) { 2 } else { 1 };
    let mut subs = vec![];
    let mut next_g1 = 1 + r.below(50) as u16;
    for _ in 0..n_sub {
        let k = r.range(20, 300) as usize;
        let share = r.chance(1, 3);
        let n_first = ((target / n_sub) / (k * 4 + 8)).max(1).min(3000);
        let mut cov = vec![];
        let mut sets = vec![];
        for q in 0..n_first {
            let g1 = next_g1;
            next_g1 += 1 + r.below(2) as u16;
            cov.push(GlyphId16::new(g1));
            // shared pair sets: every 4th set repeats the values of an earlier one
            let vkey = if share && q % 4 == 3 { (q - 3) as u64 } else { q as u64 };
            let g2_first = 1 + (vkey as u16 % 7);
            let recs = (0..k)
                .map(|j| {
                    let g2 = g2_first + j as u16 * 2;
                    let adv = h16(li as u64, vkey, j as u64);
                    ex.pairs.insert((li, g1, g2), adv);
                    gpos::PairValueRecord::new(
                        GlyphId16::new(g2),
                        gpos::ValueRecord::new().with_x_advance(adv),
                        gpos::ValueRecord::default(),
                    )
                })
                .collect();
            sets.push(gpos::PairSet::new(recs));
        }
        next_g1 += 10;
        subs.push(gpos::PairPos::format_1(cov.into_iter().collect(), sets));
        ex.n_input_subtables += 1;
    }
    let mut lk = layout::Lookup::new(layout::LookupFlag::empty(), subs);
    if r.chance(1, 5) {
        lk.mark_filtering_set = Some(7);
        lk.lookup_flag |= layout::LookupFlag::USE_MARK_FILTERING_SET;
    }
    gpos::PositionLookup::Pair(lk)
}

fn pp2_val(seed: u64, c1: u16, c2: u16) -> (i16, i16) {
    (h16(seed, c1 as u64, c2 as u64), h16(seed ^ 0x55, c2 as u64, c1 as u64))
}

fn big_pair_pos2(r: &mut Rng, li: usize, target: usize, ex: &mut Expect) -> gpos::PositionLookup {
    // class1 x class2 records of 4 bytes
    let n2 = r.range(20, 120) as u16;
    let n1 = ((target / 4) / n2 as usize).clamp(2, 1200) as u16;
    let per_class = r.range(1, 2) as u16;
    let first1 = 10u16;
    let mut g1s = vec![];
    for c in 0..n1 {
        for q in 0..per_class {
            g1s.push((first1 + c * per_class + q, c));
        }
    }
    let first2 = 5000u16;
    let g2s: Vec<(u16, u16)> = (0..n2 * 2).map(|i| (first2 + i, i % n2)).collect();
    let seed = r.u64();
    let cov: layout::CoverageTable = g1s.iter().map(|(g, _)| GlyphId16::new(*g)).collect();
    let cd1: layout::ClassDef = g1s.iter().map(|(g, c)| (GlyphId16::new(*g), *c)).collect();
    let cd2: layout::ClassDef = g2s.iter().map(|(g, c)| (GlyphId16::new(*g), *c)).collect();
    let recs = (0..n1)
        .map(|c1| {
            gpos::Class1Record::new(
                (0..n2)
                    .map(|c2| {
                        let (a, b) = pp2_val(seed, c1, c2);
                        gpos::Class2Record::new(
                            gpos::ValueRecord::new().with_x_advance(a),
                            gpos::ValueRecord::new().with_x_advance(b),
                        )
                    })
                    .collect(),
            )
        })
        .collect();
    ex.pp2.push((li, g1s, g2s, n2, seed));
    ex.n_input_subtables += 1;
    gpos::PositionLookup::Pair(layout::Lookup::new(
        layout::LookupFlag::empty(),
        vec![gpos::PairPos::format_2(cov, cd1, cd2, recs)],
    ))
}

fn big_mark_base(r: &mut Rng, li: usize, target: usize, ex: &mut Expect) -> gpos::PositionLookup {
    let classes = r.range(8, 120) as u16;
    let per_class = r.range(1, 4) as u16;
    // base array: bases x classes x (2 offset + 6 anchor)
    let n_bases = ((target / 8) / classes as usize).clamp(4, 1500) as u16;
    let null_den = *r.pick(&[0u64, 4, 20]);
    let first_mark = 3000u16;
    let first_base = 2u16;
    let mut marks = vec![];
    for c in 0..classes {
        for q in 0..per_class {
            let gid = first_mark + c * per_class + q;
            marks.push((gid, c, h16(li as u64, gid as u64, 1), h16(li as u64, gid as u64, 2)));
        }
    }
    // coverage order is glyph order; class assignment is interleaved for some tables
    if r.bool() {
        let n = marks.len() as u16;
        for (i, m) in marks.iter_mut().enumerate() {
            m.1 = (i as u16 * 7 + 3) % classes.min(n);
        }
        // make sure every class is used (compute_mark_class_count = max class + 1)
        let used: HashSet<u16> = marks.iter().map(|m| m.1).collect();
        if used.len() != classes as usize {
            for (i, m) in marks.iter_mut().enumerate() {
                m.1 = i as u16 % classes;
            }
        }
    }
    let n_classes = marks.iter().map(|m| m.1).max().unwrap_or(0) + 1;
    let mut bases = vec![];
    for b in 0..n_bases {
        let gid = first_base + b;
        let anchors: Vec<Option<(i16, i16)>> = (0..n_classes)
            .map(|c| {
                if null_den != 0 && r.chance(1, null_den) {
                    None
                } else {
                    Some((h16(li as u64 ^ 0xb, gid as u64, c as u64), h16(li as u64 ^ 0xc, c as u64, gid as u64)))
                }
            })
            .collect();
        bases.push((gid, anchors));
    }
    let mark_cov: layout::CoverageTable = marks.iter().map(|m| GlyphId16::new(m.0)).collect();
    let base_cov: layout::CoverageTable = bases.iter().map(|b| GlyphId16::new(b.0)).collect();
    let mark_array = gpos::MarkArray::new(
        marks
            .iter()
            .map(|m| gpos::MarkRecord::new(m.1, gpos::AnchorTable::format_1(m.2, m.3)))
            .collect(),
    );
    let base_array = gpos::BaseArray::new(
        bases
            .iter()
            .map(|b| gpos::BaseRecord::new(b.1.iter().map(|a| a.map(|(x, y)| gpos::AnchorTable::format_1(x, y))).collect()))
            .collect(),
    );
    ex.mb.push((li, marks, bases));
    ex.n_input_subtables += 1;
    gpos::PositionLookup::MarkToBase(layout::Lookup::new(
        layout::LookupFlag::empty(),
        vec![gpos::MarkBasePosFormat1::new(mark_cov, base_cov, mark_array, base_array)],
    ))
}

// ---------------------------------------------------------------- read-back

#[derive(Default, Debug)]
struct Back {
    subtables: usize,
    extension_lookups: usize,
    rules: u64,
}

macro_rules! rd {
    ($e:expr, $what:expr) => {
        match $e {
            Ok(v) => v,
            Err(e) => return Err(format!("{}: {:?}", $what, e)),
        }
    };
}

fn verify_gpos(bytes: &[u8], ex: &Expect) -> Result<Back, String> {
    let mut back = Back::default();
    let table = rd!(rgpos::Gpos::read(bytes.into()), "GPOS header");
    let list = rd!(table.lookup_list(), "lookup list offset");
    let mut found_pairs: HashMap<(usize, u16, u16), i16> = HashMap::new();
    let lookups = list.lookups();
    for li in 0..list.lookup_count() as usize {
        let lookup = rd!(lookups.get(li), format!("lookup {} offset", li));
        if lookup.lookup_type() == 9 {
            back.extension_lookups += 1;
        }
        match rd!(lookup.subtables(), format!("lookup {} subtables", li)) {
            rgpos::PositionSubtables::Pair(subs) => {
                let mut seen_g1: HashSet<u16> = HashSet::new();
                let pp2 = ex.pp2.iter().find(|x| x.0 == li);
                let mut g1_ok: HashSet<u16> = HashSet::new();
                for si in 0..subs.len() {
                    back.subtables += 1;
                    let w = format!("lookup {} subtable {}", li, si);
                    match rd!(subs.get(si), format!("{} offset", w)) {
                        rgpos::PairPos::Format1(t) => {
                            let cov = rd!(t.coverage(), format!("{} coverage", w));
                            let sets = t.pair_sets();
                            let mut n_cov = 0usize;
                            for (idx, g1) in cov.iter().enumerate() {
                                n_cov += 1;
                                let set = rd!(sets.get(idx), format!("{} pairset {}", w, idx));
                                if !seen_g1.insert(g1.to_u16()) {
                                    continue; // an earlier subtable wins
                                }
                                for rec in set.pair_value_records().iter() {
                                    let rec = rd!(rec, format!("{} pair record", w));
                                    let adv = rec.value_record1.x_advance().unwrap_or(0);
                                    found_pairs.insert((li, g1.to_u16(), rec.second_glyph.get().to_u16()), adv);
                                    back.rules += 1;
                                }
                            }
                            if n_cov != t.pair_set_count() as usize {
                                return Err(format!("{}: coverage has {} glyphs, {} pair sets", w, n_cov, t.pair_set_count()));
                            }
                        }
                        rgpos::PairPos::Format2(t) => {
                            let Some((_, g1s, g2s, n2, seed)) = pp2 else {
                                return Err(format!("{}: unexpected PairPosFormat2", w));
                            };
                            let cov = rd!(t.coverage(), format!("{} coverage", w));
                            let cd1 = rd!(t.class_def1(), format!("{} classdef1", w));
                            let cd2 = rd!(t.class_def2(), format!("{} classdef2", w));
                            if t.class2_count() != *n2 {
                                return Err(format!("{}: class2 count {} != {}", w, t.class2_count(), n2));
                            }
                            for (g2, c2) in g2s {
                                if cd2.get(GlyphId16::new(*g2)) != *c2 {
                                    return Err(format!("{}: classdef2 of glyph {} changed", w, g2));
                                }
                            }
                            let recs = t.class1_records();
                            for g1 in cov.iter() {
                                let g = g1.to_u16();
                                let Some((_, c1)) = g1s.iter().find(|x| x.0 == g) else {
                                    return Err(format!("{}: glyph {} was not covered in the input", w, g));
                                };
                                if !seen_g1.insert(g) {
                                    continue;
                                }
                                let nc1 = cd1.get(g1);
                                let rec = rd!(recs.get(nc1 as usize), format!("{} class1 record {}", w, nc1));
                                let c2recs = rec.class2_records();
                                for c2 in 0..*n2 {
                                    let r2 = rd!(c2recs.get(c2 as usize), format!("{} class2 record", w));
                                    let got = (r2.value_record1.x_advance().unwrap_or(0), r2.value_record2.x_advance().unwrap_or(0));
                                    if got != pp2_val(*seed, *c1, c2) {
                                        return Err(format!("{}: value for glyph {} (class {}->{}) x class2 {} is {:?}, expected {:?}", w, g, c1, nc1, c2, got, pp2_val(*seed, *c1, c2)));
                                    }
                                    back.rules += 1;
                                }
                                g1_ok.insert(g);
                            }
                        }
                    }
                }
                if let Some((_, g1s, ..)) = pp2 {
                    if let Some((g, _)) = g1s.iter().find(|x| !g1_ok.contains(&x.0)) {
                        return Err(format!("lookup {}: first glyph {} lost", li, g));
                    }
                }
            }
            rgpos::PositionSubtables::MarkToBase(subs) => {
                let Some((_, marks, bases)) = ex.mb.iter().find(|x| x.0 == li) else {
                    return Err(format!("lookup {}: unexpected MarkToBase", li));
                };
                let mark_by_gid: HashMap<u16, &(u16, u16, i16, i16)> = marks.iter().map(|m| (m.0, m)).collect();
                let base_by_gid: HashMap<u16, &Vec<Option<(i16, i16)>>> = bases.iter().map(|b| (b.0, &b.1)).collect();
                let mut marks_seen: HashSet<u16> = HashSet::new();
                // (base gid, original class) pairs checked
                let mut attach_seen: HashSet<(u16, u16)> = HashSet::new();
                for si in 0..subs.len() {
                    back.subtables += 1;
                    let w = format!("lookup {} subtable {}", li, si);
                    let t = rd!(subs.get(si), format!("{} offset", w));
                    let mcov = rd!(t.mark_coverage(), format!("{} mark coverage", w));
                    let bcov = rd!(t.base_coverage(), format!("{} base coverage", w));
                    let marr = rd!(t.mark_array(), format!("{} mark array", w));
                    let barr = rd!(t.base_array(), format!("{} base array", w));
                    let mrecs = marr.mark_records();
                    let mut new_to_orig: HashMap<u16, u16> = HashMap::new();
                    for (idx, g) in mcov.iter().enumerate() {
                        let Some(m) = mark_by_gid.get(&g.to_u16()) else {
                            return Err(format!("{}: mark glyph {} not in input", w, g.to_u16()));
                        };
                        let Some(rec) = mrecs.get(idx) else {
                            return Err(format!("{}: mark record {} missing", w, idx));
                        };
                        let a = rd!(rec.mark_anchor(marr.offset_data()), format!("{} mark anchor {}", w, idx));
                        if (a.x_coordinate(), a.y_coordinate()) != (m.2, m.3) {
                            return Err(format!("{}: mark {} anchor {:?} expected {:?}", w, m.0, (a.x_coordinate(), a.y_coordinate()), (m.2, m.3)));
                        }
                        let nc = rec.mark_class();
                        if nc >= t.mark_class_count() {
                            return Err(format!("{}: mark class {} >= count {}", w, nc, t.mark_class_count()));
                        }
                        if *new_to_orig.entry(nc).or_insert(m.1) != m.1 {
                            return Err(format!("{}: marks of different input classes merged into class {}", w, nc));
                        }
                        marks_seen.insert(m.0);
                        back.rules += 1;
                    }
                    let brecs = barr.base_records();
                    for (idx, g) in bcov.iter().enumerate() {
                        let Some(exp) = base_by_gid.get(&g.to_u16()) else {
                            return Err(format!("{}: base glyph {} not in input", w, g.to_u16()));
                        };
                        let rec = rd!(brecs.get(idx), format!("{} base record {}", w, idx));
                        let anchors = rec.base_anchors(barr.offset_data());
                        for (nc, oc) in &new_to_orig {
                            let got = match anchors.get(*nc as usize) {
                                None => None,
                                Some(a) => {
                                    let a = rd!(a, format!("{} base {} anchor class {}", w, g.to_u16(), nc));
                                    Some((a.x_coordinate(), a.y_coordinate()))
                                }
                            };
                            let want = exp.get(*oc as usize).copied().flatten();
                            if got != want {
                                return Err(format!("{}: base {} class {} (new {}) anchor {:?} expected {:?}", w, g.to_u16(), oc, nc, got, want));
                            }
                            attach_seen.insert((g.to_u16(), *oc));
                            back.rules += 1;
                        }
                    }
                }
                if let Some(m) = marks.iter().find(|m| !marks_seen.contains(&m.0)) {
                    return Err(format!("lookup {}: mark glyph {} lost", li, m.0));
                }
                let classes: HashSet<u16> = marks.iter().map(|m| m.1).collect();
                for (gid, anchors) in bases {
                    for c in &classes {
                        if anchors[*c as usize].is_some() && !attach_seen.contains(&(*gid, *c)) {
                            return Err(format!("lookup {}: attachment base {} x class {} lost", li, gid, c));
                        }
                    }
                }
            }
            _ => return Err(format!("lookup {}: unexpected lookup kind in output", li)),
        }
    }
    if list.lookup_count() as usize
        != ex.pairs.keys().map(|k| k.0).chain(ex.pp2.iter().map(|x| x.0)).chain(ex.mb.iter().map(|x| x.0)).collect::<HashSet<_>>().len()
    {
        return Err(format!("lookup count {} differs from input", list.lookup_count()));
    }
    if found_pairs.len() != ex.pairs.len() {
        let missing = ex.pairs.keys().find(|k| !found_pairs.contains_key(*k));
        return Err(format!("pair rules: {} found, {} expected; e.g. missing {:?}", found_pairs.len(), ex.pairs.len(), missing));
    }
    for (k, v) in &ex.pairs {
        if found_pairs.get(k) != Some(v) {
            return Err(format!("pair rule {:?}: value {:?}, expected {}", k, found_pairs.get(k), v));
        }
    }
    Ok(back)
}

fn verify_gsub(bytes: &[u8], ex: &Expect) -> Result<Back, String> {
    let mut back = Back::default();
    let table = rd!(rgsub::Gsub::read(bytes.into()), "GSUB header");
    let list = rd!(table.lookup_list(), "lookup list offset");
    let lookups = list.lookups();
    let mut found: HashMap<(usize, u16), u16> = HashMap::new();
    for li in 0..list.lookup_count() as usize {
        let lookup = rd!(lookups.get(li), format!("lookup {} offset", li));
        if lookup.lookup_type() == 7 {
            back.extension_lookups += 1;
        }
        match rd!(lookup.subtables(), format!("lookup {} subtables", li)) {
            rgsub::SubstitutionSubtables::Single(subs) => {
                for si in 0..subs.len() {
                    back.subtables += 1;
                    let w = format!("lookup {} subtable {}", li, si);
                    match rd!(subs.get(si), format!("{} offset", w)) {
                        rgsub::SingleSubst::Format2(t) => {
                            let cov = rd!(t.coverage(), format!("{} coverage", w));
                            let subst = t.substitute_glyph_ids();
                            for (idx, g) in cov.iter().enumerate() {
                                let Some(s) = subst.get(idx) else {
                                    return Err(format!("{}: substitute {} missing", w, idx));
                                };
                                found.entry((li, g.to_u16())).or_insert(s.get().to_u16());
                                back.rules += 1;
                            }
                        }
                        _ => return Err(format!("{}: unexpected single subst format", w)),
                    }
                }
            }
            _ => return Err(format!("lookup {}: unexpected lookup kind", li)),
        }
    }
    if found != ex.subst {
        let bad = ex.subst.iter().find(|(k, v)| found.get(*k) != Some(*v));
        return Err(format!("substitutions differ ({} found, {} expected), e.g. {:?}", found.len(), ex.subst.len(), bad));
    }
    Ok(back)
}

// ---------------------------------------------------------------- cases

enum Built {
    Gpos(gpos::Gpos),
    Gsub(gsub::Gsub),
}

fn build(seed: u64, k: u64) -> (String, Built, Expect, Value) {
    let mut r = Rng::derive(seed, "c05-gpos", k);
    let kind = KINDS[(k % KINDS.len() as u64) as usize];
    let mut ex = Expect::default();
    // total target size: 0.8x .. 4x of 64 KiB
    let scale_pct = r.range(80, 400) as usize;
    let target = 65536 * scale_pct / 100;
    let mut lookups = vec![];
    let n_lookups;
    match kind {
        "pairpos1" => {
            n_lookups = r.range(1, 3) as usize;
            for li in 0..n_lookups {
                lookups.push(big_pair_pos1(&mut r, li, target / n_lookups, &mut ex));
            }
        }
        "pairpos2" => {
            n_lookups = r.range(1, 2) as usize;
            for li in 0..n_lookups {
                lookups.push(big_pair_pos2(&mut r, li, target / n_lookups, &mut ex));
            }
        }
        "markbase" => {
            n_lookups = r.range(1, 2) as usize;
            for li in 0..n_lookups {
                lookups.push(big_mark_base(&mut r, li, target / n_lookups, &mut ex));
            }
        }
        "mixed" => {
            n_lookups = r.range(3, 7) as usize;
            for li in 0..n_lookups {
                let t = target / n_lookups;
                lookups.push(match r.below(4) {
                    0 => big_pair_pos2(&mut r, li, t, &mut ex),
                    1 => big_mark_base(&mut r, li, t, &mut ex),
                    _ => big_pair_pos1(&mut r, li, t, &mut ex),
                });
            }
        }
        _ => {
            n_lookups = r.range(2, 5) as usize;
            let mut sl = vec![];
            for li in 0..n_lookups {
                let n = ((target / n_lookups) / 4).clamp(10, 15000);
                let first = 1 + r.below(100) as u16;
                let mut cov = vec![];
                let mut subst = vec![];
                let mut g = first;
                for q in 0..n {
                    // odd steps keep the coverage in format 1 (2 bytes/glyph)
                    g += 2;
                    let s = (h16(li as u64, q as u64, 9) as u16) | 1;
                    cov.push(GlyphId16::new(g));
                    subst.push(GlyphId16::new(s));
                    ex.subst.insert((li, g), s);
                }
                ex.n_input_subtables += 1;
                sl.push(gsub::SubstitutionLookup::Single(layout::Lookup::new(
                    layout::LookupFlag::empty(),
                    vec![gsub::SingleSubst::format_2(cov.into_iter().collect(), subst)],
                )));
            }
            let recipe = json!({"kind": kind, "seed": seed, "k": k, "scale_pct": scale_pct, "lookups": n_lookups});
            let t = gsub::Gsub::new(Default::default(), Default::default(), layout::LookupList::new(sl));
            return (kind.to_string(), Built::Gsub(t), ex, recipe);
        }
    }
    let recipe = json!({"kind": kind, "seed": seed, "k": k, "scale_pct": scale_pct, "lookups": n_lookups});
    let t = gpos::Gpos::new(Default::default(), Default::default(), layout::LookupList::new(lookups));
    (kind.to_string(), Built::Gpos(t), ex, recipe)
}

fn one(ctx: &mut Ctx, k: u64) {
    let seed = ctx.seed;
    let built = vf_core::guard(|| build(seed, k));
    let (kind, table, ex, recipe) = match built {
        Ok(b) => b,
        Err(p) => {
            // builders are library code too, but not this property's subject
            ctx.inconclusive(format!("GPOS recipe k={} could not be built: {}:{} {}", k, p.file, p.line, p.msg));
            return;
        }
    };
    ctx.eval();
    ctx.count(&format!("gpos:{}:cases", kind), 1);
    let _ = hooks::take_trace();
    let label = || format!("gpos {}", recipe);
    let res = ctx.run_case(&label, None, &|| match &table {
        Built::Gpos(t) => dump_table(t),
        Built::Gsub(t) => dump_table(t),
    });
    let trace_v = hooks::take_trace();
    let trace = super::compress_trace(&trace_v);
    ctx.distinct("stage_traces", fnv64(trace.as_bytes()));
    ctx.label("stage_traces_gpos", &trace);
    for st in ["split_check", "promote", "assign_spaces", "isolate_subgraph", "duplicate_subgraph"] {
        if trace_v.iter().any(|s| *s == st) {
            ctx.count(&format!("gpos:stage_reached:{}", st), 1);
        }
    }
    let case_id = format!("{}:seed{}:k{}", kind, seed, k);
    match res {
        Ok(Ok(bytes)) => {
            let v = vf_core::guard(|| match &table {
                Built::Gpos(_) => verify_gpos(&bytes, &ex),
                Built::Gsub(_) => verify_gsub(&bytes, &ex),
            });
            match v {
                Ok(Ok(back)) => {
                    ctx.count("gpos:outcome:success_all_rules_found", 1);
                    ctx.count("gpos:rules_checked", back.rules);
                    let split = back.subtables > ex.n_input_subtables;
                    let promoted = back.extension_lookups > 0;
                    if split {
                        ctx.count("gpos:success_with_split_subtables", 1);
                        ctx.count("gpos:subtables_added_by_splitting", (back.subtables - ex.n_input_subtables) as u64);
                    }
                    if promoted {
                        ctx.count("gpos:success_with_extension_promotion", 1);
                        ctx.count("gpos:lookups_promoted", back.extension_lookups as u64);
                    }
                    if bytes.len() > 65535 {
                        ctx.count("gpos:output_above_64k", 1);
                    }
                    if split || promoted {
                        ctx.nontrivial(fnv64(recipe.to_string().as_bytes()));
                        ctx.count("nontrivial_cases", 1);
                        ctx.sample_by_kind(
                            &format!("gpos-{}{}{}", kind, if split { "-split" } else { "" }, if promoted { "-promoted" } else { "" }),
                            json!({"recipe": recipe, "trace": trace, "out_len": bytes.len(), "subtables_in": ex.n_input_subtables,
                                   "subtables_out": back.subtables, "extension_lookups": back.extension_lookups}),
                        );
                    }
                }
                Ok(Err(msg)) => {
                    ctx.count("gpos:outcome:success_but_misresolved", 1);
                    ctx.violation(
                        &format!("gpos-misresolved:{}", case_id),
                        json!({"what": "dump_table returned Ok but reading the table back does not give the input rules", "problem": msg,
                               "recipe": recipe, "trace": trace, "out_len": bytes.len()}),
                        Some(&bytes),
                    );
                }
                Err(p) => {
                    // a panic while reading back compiled bytes: the output is not a table in which offsets resolve
                    ctx.count("gpos:outcome:readback_panic", 1);
                    if p.in_repo() {
                        ctx.violation(
                            &format!("gpos-readback-panic:{}:{}:{}", p.file, p.line, case_id),
                            json!({"what": "read-back of compiled table panicked", "panic": {"file": p.file, "line": p.line, "msg": p.msg}, "recipe": recipe, "trace": trace}),
                            Some(&bytes),
                        );
                    } else {
                        ctx.inconclusive(format!("harness panic in GPOS read-back {}:{} {}", p.file, p.line, p.msg));
                    }
                }
            }
        }
        Ok(Err(Error::PackingFailed(_))) => {
            ctx.count("gpos:outcome:packing_failed", 1);
            ctx.sample_by_kind("gpos-packing-failed", json!({"recipe": recipe, "trace": trace}));
        }
        Ok(Err(e)) => {
            ctx.inconclusive(format!("GPOS recipe {} failed validation: {}", case_id, e));
        }
        Err(p) => {
            if !p.in_repo() {
                ctx.inconclusive(format!("harness panic {}:{} {}", p.file, p.line, p.msg));
                return;
            }
            ctx.count("gpos:outcome:panic", 1);
            ctx.violation(
                &format!("pack-panic:{}:{}:gpos:{}", p.file.strip_prefix(&format!("{}/", vf_core::repo_dir())).unwrap_or(&p.file), p.line, case_id),
                json!({"what": "dump_table panicked on a real layout table", "panic": {"file": p.file, "line": p.line, "msg": p.msg, "class": p.class.as_str()},
                       "recipe": recipe, "trace": trace}),
                None,
            );
        }
    }
}

pub fn run(ctx: &mut Ctx) {
    let count: u64 = ctx.tier.pick(480, 6000);
    for k in 0..count {
        if ctx.mine(k as usize) {
            one(ctx, k);
        }
    }
}

pub fn replay(ctx: &mut Ctx, recipe: &Value) {
    let Some(k) = recipe["k"].as_u64() else {
        ctx.inconclusive("GPOS replay without k");
        return;
    };
    if let Some(s) = recipe["seed"].as_u64() {
        ctx.seed = s;
    }
    one(ctx, k);
}
