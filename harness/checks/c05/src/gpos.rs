//! (c) real GPOS / GSUB tables at 1x-4x the 64 KiB limit, so that subtable
//! splitting (PairPos, MarkBasePos) and extension promotion run. The result is
//! read back with read-fonts: every offset must resolve and every rule of the
//! input must be found with its value (a light check; C16 does the semantic one).

use std::collections::{HashMap, HashSet};

use font_types::GlyphId16;
use read_fonts::tables::{gpos as rgpos, gsub as rgsub};
use read_fonts::FontRead;
use serde_json::{json, Value};
use vf_core::{fnv64, Ctx, Rng};
use write_fonts::tables::{gpos, gsub, layout};
use write_fonts::{dump_table, error::Error, verif_graph_hooks as hooks};

const KINDS: [&str; 5] = ["pairpos1", "pairpos2", "markbase", "mixed", "gsub-single"];

// ---------------------------------------------------------------- glyph-set shapes
//
// Coverage tables are where the splitting code re-slices its input, and the
// range format (format 2) has its own slicing arithmetic. Every covered glyph
// set of the GPOS workload is therefore drawn from a family of RUN SHAPES
// (singletons, runs of 2..n, alternating, long runs with stray singletons, a
// single-glyph first range, ...), and the coverage table is either left to
// the builder (which picks the smaller format) or forced to format 1 / format
// 2 / format 2 with runs cut into several adjacent range records, so that
// range boundaries fall at every position relative to the split points.

pub const SHAPES: [&str; 8] = ["one-run", "singletons", "runs-of-L", "random-runs", "alternating", "singleton-then-long", "long+stray-singletons", "random-gaps"];
pub const COV_MODES: [&str; 4] = ["builder", "force-format1", "force-format2", "force-format2-cut-runs"];

/// `n` strictly increasing glyph ids starting at `first` in run shape `shape`.
fn glyph_shape(r: &mut Rng, shape: usize, n: usize, first: u16) -> Vec<u16> {
    let mut g: Vec<u16> = Vec::with_capacity(n);
    let mut cur = first as u32;
    let mut push_run = |g: &mut Vec<u16>, len: usize, gap: u32| {
        for _ in 0..len {
            if g.len() < n {
                g.push(cur as u16);
                cur += 1;
            }
        }
        cur += gap; // gap >= 1 separates this run from the next
    };
    let l_fixed = r.range(2, 9) as usize;
    let m = *r.pick(&[2usize, 3, 5, 10, 50, 400]);
    let k_alt = r.range(2, 12) as usize;
    let mut i = 0usize;
    while g.len() < n {
        let gap = 1 + r.below(2) as u32;
        match shape {
            0 => push_run(&mut g, n, gap),
            1 => push_run(&mut g, 1, gap),
            2 => push_run(&mut g, l_fixed, gap),
            3 => {
                let l = r.range(1, m as i64) as usize;
                push_run(&mut g, l, gap)
            }
            4 => push_run(&mut g, if i % 2 == 0 { 1 } else { k_alt }, gap),
            5 => push_run(&mut g, if i == 0 { 1 } else { (n / 3).max(2) + r.usize(7) }, gap),
            6 => {
                if r.chance(1, 3) {
                    push_run(&mut g, 1, gap)
                } else {
                    let l = r.range(20, 300) as usize;
                    push_run(&mut g, l, gap)
                }
            }
            _ => push_run(&mut g, 1, r.below(2) as u32), // gap 0 or 1: the legacy generator
        }
        i += 1;
    }
    g
}

/// maximal runs of consecutive glyph ids as (first index, last index)
fn maximal_runs(g: &[u16]) -> Vec<(usize, usize)> {
    let mut v = vec![];
    let mut s = 0usize;
    for i in 1..=g.len() {
        if i == g.len() || g[i] != g[i - 1] + 1 {
            v.push((s, i - 1));
            s = i;
        }
    }
    v
}

/// Build the coverage table for sorted glyphs `g`. Returns the table and the
/// range records it has as INDEX intervals (empty for format 1).
/// `cuts`: extra range boundaries (a new record starts at these indices), used by the adaptive variant.
fn make_coverage(r: &mut Rng, g: &[u16], mode: usize, cuts: &[usize]) -> (layout::CoverageTable, Vec<(usize, usize)>) {
    let runs = maximal_runs(g);
    let explicit = |ranges: &[(usize, usize)]| {
        layout::CoverageTable::format_2(
            ranges
                .iter()
                .map(|(a, b)| layout::RangeRecord::new(GlyphId16::new(g[*a]), GlyphId16::new(g[*b]), *a as u16))
                .collect(),
        )
    };
    match mode {
        0 => {
            let t: layout::CoverageTable = g.iter().map(|x| GlyphId16::new(*x)).collect();
            let is2 = matches!(t, layout::CoverageTable::Format2(_));
            (t, if is2 { runs } else { vec![] })
        }
        1 => (layout::CoverageTable::format_1(g.iter().map(|x| GlyphId16::new(*x)).collect()), vec![]),
        2 if cuts.is_empty() => (explicit(&runs), runs),
        _ => {
            // cut runs into adjacent records
            let mut ranges = vec![];
            let p = *r.pick(&[2u64, 5, 20, 100]);
            for (a, b) in runs {
                let mut s = a;
                for i in a..=b {
                    let cut_here = i < b && (cuts.contains(&(i + 1)) || (cuts.is_empty() && r.chance(1, p)));
                    if i == b || cut_here {
                        ranges.push((s, i));
                        s = i + 1;
                    }
                }
            }
            (explicit(&ranges), ranges)
        }
    }
}

/// shape parameters of one covered glyph set, drawn from their own stream so
/// that the rest of the recipe does not depend on them
#[derive(Clone, Debug, Default)]
pub struct CovPlan {
    pub shape: usize,
    pub mode: usize,
    /// adaptive variant: place range boundaries around these indices
    pub around: Vec<usize>,
}

fn draw_plan(r: &mut Rng) -> CovPlan {
    CovPlan { shape: r.usize(SHAPES.len()), mode: *r.pick(&[0usize, 0, 1, 2, 2, 3, 3]), around: vec![] }
}

/// glyph ids + coverage for `n` glyphs according to `plan`
fn planned_coverage(r: &mut Rng, plan: &CovPlan, n: usize, first: u16) -> (Vec<u16>, layout::CoverageTable, Vec<(usize, usize)>) {
    if plan.around.is_empty() {
        let g = glyph_shape(r, plan.shape, n, first);
        let (t, ranges) = make_coverage(r, &g, plan.mode, &[]);
        return (g, t, ranges);
    }
    // adaptive: consecutive glyph ids except for a few gaps; explicit format 2 whose records end at s-1, s, s+1
    // or isolate s as a single-glyph record, for every observed split start s
    let mut cuts: Vec<usize> = vec![];
    let mut gaps: Vec<usize> = vec![];
    for s in &plan.around {
        let s = *s;
        match r.below(5) {
            0 => cuts.push(s),            // a record ends at s-1, the next starts at s
            1 => cuts.push(s + 1),        // a record ends exactly at s
            2 => cuts.push(s + 2),        // a record ends at s+1
            3 => {
                cuts.push(s);
                cuts.push(s + 1); // single-glyph record at s
            }
            _ => {
                gaps.push(s + 1); // a real gap in the glyph ids after s: the maximal run ends at s
            }
        }
    }
    let mut g = Vec::with_capacity(n);
    let mut cur = first as u32;
    for i in 0..n {
        if gaps.contains(&i) {
            cur += 1 + r.below(3) as u32;
        }
        g.push(cur as u16);
        cur += 1;
    }
    cuts.retain(|c| *c > 0 && *c < n);
    if cuts.is_empty() {
        cuts.push(n / 2 + 1);
    }
    let (t, ranges) = make_coverage(r, &g, 3, &cuts);
    (g, t, ranges)
}

fn h16(a: u64, b: u64, c: u64) -> i16 {
    let x = fnv64(&[a.to_le_bytes(), b.to_le_bytes(), c.to_le_bytes()].concat());
    // keep away from 0 so that value formats stay stable
    (((x >> 7) % 30000) as i16) - 15000 | 1
}

// ---------------------------------------------------------------- expected models

/// one input PairPos format 1 subtable
struct Pp1Sub {
    glyphs: Vec<u16>,
    /// range records of the input coverage as index intervals (empty: format 1)
    ranges: Vec<(usize, usize)>,
    /// per first glyph: key of its pair set's values
    vkeys: Vec<u64>,
    /// records per pair set
    k: usize,
    plan: CovPlan,
}

impl Pp1Sub {
    fn g2(&self, q: usize, j: usize) -> u16 {
        1 + (self.vkeys[q] as u16 % 7) + j as u16 * 2
    }
}

struct Pp2 {
    li: usize,
    /// (first glyph, class1)
    g1s: Vec<(u16, u16)>,
    g2s: Vec<(u16, u16)>,
    n2: u16,
    seed: u64,
}

struct Mb {
    li: usize,
    /// (gid, class, x, y)
    marks: Vec<(u16, u16, i16, i16)>,
    /// (gid, per class anchor)
    bases: Vec<(u16, Vec<Option<(i16, i16)>>)>,
}

#[derive(Default)]
struct Expect {
    pp1: Vec<(usize, Vec<Pp1Sub>)>,
    pp2: Vec<Pp2>,
    mb: Vec<Mb>,
    /// gsub single: (lookup, glyph) -> substitute
    subst: HashMap<(usize, u16), u16>,
    n_input_subtables: usize,
    /// (shape, coverage mode, format-2?) of every shaped coverage, for evidence
    coverages: Vec<(usize, usize, bool, usize)>,
}

struct Gen<'a> {
    seed: u64,
    k: u64,
    slot: u64,
    /// adaptive variant: (lookup, input subtable) -> observed split starts
    adapt: &'a HashMap<(usize, usize), Vec<usize>>,
}

impl Gen<'_> {
    fn shape_rng(&mut self) -> Rng {
        self.slot += 1;
        Rng::derive(self.seed, "c05-gpos-shape", self.k * 64 + self.slot)
    }
}

fn pp1_adv(li: usize, vkey: u64, j: usize) -> i16 {
    h16(li as u64, vkey, j as u64)
}

fn big_pair_pos1(r: &mut Rng, gen: &mut Gen, li: usize, target: usize, ex: &mut Expect) -> gpos::PositionLookup {
    let n_sub = if r.chance(1, 4) { 2 } else { 1 };
    let mut subs = vec![];
    let mut model = vec![];
    let mut next_g1 = 1 + r.below(50) as u16;
    for si in 0..n_sub {
        let k = r.range(20, 300) as usize;
        let share = r.chance(1, 3);
        let n_first = ((target / n_sub) / (k * 4 + 8)).max(1).min(3000);
        let mut sr = gen.shape_rng();
        let mut plan = draw_plan(&mut sr);
        if let Some(a) = gen.adapt.get(&(li, si)) {
            plan.around = a.clone();
        }
        let (glyphs, cov, ranges) = planned_coverage(&mut sr, &plan, n_first, next_g1);
        ex.coverages.push((plan.shape, if plan.around.is_empty() { plan.mode } else { 3 }, !ranges.is_empty(), ranges.len()));
        let mut sub = Pp1Sub { glyphs, ranges, vkeys: vec![], k, plan };
        let mut sets = vec![];
        for q in 0..n_first {
            // shared pair sets: every 4th set repeats the values of an earlier one
            let vkey = if share && q % 4 == 3 { (q - 3) as u64 } else { q as u64 };
            sub.vkeys.push(vkey);
            let recs = (0..k)
                .map(|j| {
                    gpos::PairValueRecord::new(
                        GlyphId16::new(sub.g2(q, j)),
                        gpos::ValueRecord::new().with_x_advance(pp1_adv(li, vkey, j)),
                        gpos::ValueRecord::default(),
                    )
                })
                .collect();
            sets.push(gpos::PairSet::new(recs));
        }
        next_g1 = sub.glyphs.last().copied().unwrap_or(next_g1) + 10;
        subs.push(gpos::PairPos::format_1(cov, sets));
        model.push(sub);
        ex.n_input_subtables += 1;
    }
    ex.pp1.push((li, model));
    let mut lk = layout::Lookup::new(layout::LookupFlag::empty(), subs);
    if r.chance(1, 5) {
        lk.mark_filtering_set = Some(7);
        lk.lookup_flag |= layout::LookupFlag::USE_MARK_FILTERING_SET;
    }
    gpos::PositionLookup::Pair(lk)
}

fn pp2_val(seed: u64, c1: u16, c2: u16) -> (i16, i16) {
    (h16(seed, c1 as u64, c2 as u64), h16(seed ^ 0x55, c2 as u64, c1 as u64))
}

fn big_pair_pos2(r: &mut Rng, gen: &mut Gen, li: usize, target: usize, ex: &mut Expect) -> gpos::PositionLookup {
    // class1 x class2 records of 4 bytes
    let n2 = r.range(20, 120) as u16;
    let n1 = ((target / 4) / n2 as usize).clamp(2, 1200) as u16;
    let per_class = r.range(1, 3) as u16;
    let interleave = r.chance(1, 3);
    let mut sr = gen.shape_rng();
    let plan = draw_plan(&mut sr);
    let n = n1 as usize * per_class as usize;
    let (glyphs, cov, ranges) = planned_coverage(&mut sr, &plan, n, 10 + r.below(20) as u16);
    ex.coverages.push((plan.shape, plan.mode, !ranges.is_empty(), ranges.len()));
    // consecutive glyphs share a class, or classes are dealt round-robin (fragmented class ranges)
    let g1s: Vec<(u16, u16)> = glyphs.iter().enumerate().map(|(i, g)| (*g, if interleave { (i % n1 as usize) as u16 } else { (i / per_class as usize) as u16 })).collect();
    let first2 = glyphs.last().copied().unwrap_or(10) + 50;
    let g2s: Vec<(u16, u16)> = (0..n2 * 2).map(|i| (first2 + i, i % n2)).collect();
    let seed = r.u64();
    let cd1: layout::ClassDef = g1s.iter().map(|(g, c)| (GlyphId16::new(*g), *c)).collect();
    let cd2: layout::ClassDef = g2s.iter().map(|(g, c)| (GlyphId16::new(*g), *c)).collect();
    let recs = (0..n1)
        .map(|c1| {
            gpos::Class1Record::new(
                (0..n2)
                    .map(|c2| {
                        let (a, b) = pp2_val(seed, c1, c2);
                        gpos::Class2Record::new(gpos::ValueRecord::new().with_x_advance(a), gpos::ValueRecord::new().with_x_advance(b))
                    })
                    .collect(),
            )
        })
        .collect();
    ex.pp2.push(Pp2 { li, g1s, g2s, n2, seed });
    ex.n_input_subtables += 1;
    gpos::PositionLookup::Pair(layout::Lookup::new(layout::LookupFlag::empty(), vec![gpos::PairPos::format_2(cov, cd1, cd2, recs)]))
}

fn big_mark_base(r: &mut Rng, gen: &mut Gen, li: usize, target: usize, ex: &mut Expect) -> gpos::PositionLookup {
    let classes = r.range(8, 120) as u16;
    let per_class = r.range(1, 4) as u16;
    // base array: bases x classes x (2 offset + 6 anchor)
    let n_bases = ((target / 8) / classes as usize).clamp(4, 1500);
    let null_den = *r.pick(&[0u64, 4, 20]);
    let mut sr = gen.shape_rng();
    let bplan = draw_plan(&mut sr);
    let (base_glyphs, base_cov, branges) = planned_coverage(&mut sr, &bplan, n_bases, 2 + r.below(9) as u16);
    ex.coverages.push((bplan.shape, bplan.mode, !branges.is_empty(), branges.len()));
    let mut sr = gen.shape_rng();
    let mplan = draw_plan(&mut sr);
    let n_marks = classes as usize * per_class as usize;
    let first_mark = base_glyphs.last().copied().unwrap_or(2) + 10;
    let (mark_glyphs, mark_cov, mranges) = planned_coverage(&mut sr, &mplan, n_marks, first_mark);
    ex.coverages.push((mplan.shape, mplan.mode, !mranges.is_empty(), mranges.len()));
    let mut marks: Vec<(u16, u16, i16, i16)> = mark_glyphs
        .iter()
        .enumerate()
        .map(|(i, gid)| (*gid, (i / per_class as usize) as u16, h16(li as u64, *gid as u64, 1), h16(li as u64, *gid as u64, 2)))
        .collect();
    // coverage order is glyph order; class assignment is interleaved for some tables
    if r.bool() {
        let n = marks.len() as u16;
        for (i, m) in marks.iter_mut().enumerate() {
            m.1 = (i as u16 * 7 + 3) % classes.min(n);
        }
        // make sure every class is used (compute_mark_class_count = max class + 1)
        let used: HashSet<u16> = marks.iter().map(|m| m.1).collect();
        if used.len() != classes as usize {
            for (i, m) in marks.iter_mut().enumerate() {
                m.1 = i as u16 % classes;
            }
        }
    }
    let n_classes = marks.iter().map(|m| m.1).max().unwrap_or(0) + 1;
    let mut bases = vec![];
    for gid in &base_glyphs {
        let gid = *gid;
        let anchors: Vec<Option<(i16, i16)>> = (0..n_classes)
            .map(|c| {
                if null_den != 0 && r.chance(1, null_den) {
                    None
                } else {
                    Some((h16(li as u64 ^ 0xb, gid as u64, c as u64), h16(li as u64 ^ 0xc, c as u64, gid as u64)))
                }
            })
            .collect();
        bases.push((gid, anchors));
    }
    let mark_array = gpos::MarkArray::new(marks.iter().map(|m| gpos::MarkRecord::new(m.1, gpos::AnchorTable::format_1(m.2, m.3))).collect());
    let base_array = gpos::BaseArray::new(
        bases
            .iter()
            .map(|b| gpos::BaseRecord::new(b.1.iter().map(|a| a.map(|(x, y)| gpos::AnchorTable::format_1(x, y))).collect()))
            .collect(),
    );
    ex.mb.push(Mb { li, marks, bases });
    ex.n_input_subtables += 1;
    gpos::PositionLookup::MarkToBase(layout::Lookup::new(
        layout::LookupFlag::empty(),
        vec![gpos::MarkBasePosFormat1::new(mark_cov, base_cov, mark_array, base_array)],
    ))
}

// ---------------------------------------------------------------- read-back
//
// Object reachability, stated on the input: EVERY first glyph / mark / base of
// the input is looked up through the coverage tables of the output (the way a
// shaper does: `Coverage::get`), must be covered by exactly one of the
// lookup's subtables and must reach there its own pair set / class record /
// anchors with every value of the input; no subtable covers a glyph the input
// did not have; coverage indices are consistent with the arrays they index.

#[derive(Default, Debug)]
struct Back {
    subtables: usize,
    extension_lookups: usize,
    rules: u64,
    glyphs_reached: u64,
    /// (lookup, input subtable) -> start indices of the pieces it was split into (without 0)
    pp1_splits: Vec<((usize, usize), Vec<usize>)>,
}

macro_rules! rd {
    ($e:expr, $what:expr) => {
        match $e {
            Ok(v) => v,
            Err(e) => return Err(format!("{}: {:?}", $what, e)),
        }
    };
}

/// every glyph the coverage lists is one of `allowed`, listed once, and `get` agrees with the iteration order
fn check_coverage_consistent(cov: &read_fonts::tables::layout::CoverageTable, allowed: &HashSet<u16>, w: &str, what: &str) -> Result<usize, String> {
    let mut n = 0usize;
    let mut prev: Option<u16> = None;
    for (idx, g) in cov.iter().enumerate() {
        let g16 = g.to_u16();
        if !allowed.contains(&g16) {
            return Err(format!("{}: {} coverage lists glyph {} which the input did not cover", w, what, g16));
        }
        if let Some(p) = prev {
            if p >= g16 {
                return Err(format!("{}: {} coverage not strictly increasing at glyph {}", w, what, g16));
            }
        }
        prev = Some(g16);
        if cov.get(g) != Some(idx as u16) {
            return Err(format!("{}: {} coverage index of glyph {} is {:?}, but it is entry {} of the coverage", w, what, g16, cov.get(g), idx));
        }
        n += 1;
    }
    Ok(n)
}

fn verify_gpos(bytes: &[u8], ex: &Expect) -> Result<Back, String> {
    let mut back = Back::default();
    let table = rd!(rgpos::Gpos::read(bytes.into()), "GPOS header");
    let list = rd!(table.lookup_list(), "lookup list offset");
    let lookups = list.lookups();
    let n_expected = ex.pp1.len() + ex.pp2.len() + ex.mb.len();
    if list.lookup_count() as usize != n_expected {
        return Err(format!("lookup count {} differs from input {}", list.lookup_count(), n_expected));
    }
    for li in 0..list.lookup_count() as usize {
        let lookup = rd!(lookups.get(li), format!("lookup {} offset", li));
        if lookup.lookup_type() == 9 {
            back.extension_lookups += 1;
        }
        match rd!(lookup.subtables(), format!("lookup {} subtables", li)) {
            rgpos::PositionSubtables::Pair(subs) => {
                let pp1 = ex.pp1.iter().find(|x| x.0 == li).map(|x| &x.1);
                let pp2 = ex.pp2.iter().find(|x| x.li == li);
                // parse every subtable once
                let mut f1 = vec![];
                let mut f2 = vec![];
                for si in 0..subs.len() {
                    back.subtables += 1;
                    let w = format!("lookup {} subtable {}", li, si);
                    match rd!(subs.get(si), format!("{} offset", w)) {
                        rgpos::PairPos::Format1(t) => {
                            let cov = rd!(t.coverage(), format!("{} coverage", w));
                            f1.push((w, t, cov));
                        }
                        rgpos::PairPos::Format2(t) => {
                            let cov = rd!(t.coverage(), format!("{} coverage", w));
                            f2.push((w, t, cov));
                        }
                    }
                }
                if let Some(model) = pp1 {
                    if !f2.is_empty() {
                        return Err(format!("lookup {}: unexpected PairPosFormat2 subtable", li));
                    }
                    let allowed: HashSet<u16> = model.iter().flat_map(|s| s.glyphs.iter().copied()).collect();
                    let mut first_glyph_of_piece: Vec<u16> = vec![];
                    for (w, t, cov) in &f1 {
                        let n_cov = check_coverage_consistent(cov, &allowed, w, "first-glyph")?;
                        if n_cov != t.pair_set_count() as usize {
                            return Err(format!("{}: coverage has {} glyphs, {} pair sets", w, n_cov, t.pair_set_count()));
                        }
                        if let Some(g) = cov.iter().next() {
                            first_glyph_of_piece.push(g.to_u16());
                        }
                    }
                    for (si_in, sub) in model.iter().enumerate() {
                        for (q, g1) in sub.glyphs.iter().enumerate() {
                            let gid = GlyphId16::new(*g1);
                            let mut holder = None;
                            let mut holders = 0usize;
                            for (x, (_, _, cov)) in f1.iter().enumerate() {
                                if let Some(idx) = cov.get(gid) {
                                    holders += 1;
                                    holder.get_or_insert((x, idx));
                                }
                            }
                            if holders != 1 {
                                return Err(format!(
                                    "lookup {}: first glyph {} (entry {} of input subtable {}) is covered by {} of the {} output subtables (expected exactly 1): its pair set is {}",
                                    li, g1, q, si_in, holders, f1.len(), if holders == 0 { "unreachable" } else { "ambiguous" }
                                ));
                            }
                            let (x, idx) = holder.unwrap_or((0, 0));
                            let (w, t, _) = &f1[x];
                            let set = rd!(t.pair_sets().get(idx as usize), format!("{} pairset {}", w, idx));
                            let mut n = 0usize;
                            for (j, rec) in set.pair_value_records().iter().enumerate() {
                                let rec = rd!(rec, format!("{} pair record", w));
                                if j >= sub.k {
                                    return Err(format!("{}: pair set of glyph {} has more than {} records", w, g1, sub.k));
                                }
                                let adv = rec.value_record1.x_advance().unwrap_or(0);
                                let want = (sub.g2(q, j), pp1_adv(li, sub.vkeys[q], j));
                                if (rec.second_glyph.get().to_u16(), adv) != want {
                                    return Err(format!("{}: first glyph {} reaches a pair set whose record {} is (g2 {}, adv {}), expected (g2 {}, adv {})", w, g1, j, rec.second_glyph.get().to_u16(), adv, want.0, want.1));
                                }
                                n += 1;
                            }
                            if n != sub.k {
                                return Err(format!("{}: pair set of glyph {} has {} records, expected {}", w, g1, n, sub.k));
                            }
                            back.rules += n as u64;
                            back.glyphs_reached += 1;
                        }
                        // where did this input subtable get cut?
                        let mut starts: Vec<usize> = first_glyph_of_piece.iter().filter_map(|g| sub.glyphs.binary_search(g).ok()).filter(|i| *i != 0).collect();
                        starts.sort_unstable();
                        if !starts.is_empty() {
                            back.pp1_splits.push(((li, si_in), starts));
                        }
                    }
                } else if let Some(m) = pp2 {
                    if !f1.is_empty() {
                        return Err(format!("lookup {}: unexpected PairPosFormat1 subtable", li));
                    }
                    let allowed: HashSet<u16> = m.g1s.iter().map(|x| x.0).collect();
                    let mut parsed = vec![];
                    for (w, t, cov) in &f2 {
                        check_coverage_consistent(cov, &allowed, w, "first-glyph")?;
                        let cd1 = rd!(t.class_def1(), format!("{} classdef1", w));
                        let cd2 = rd!(t.class_def2(), format!("{} classdef2", w));
                        if t.class2_count() != m.n2 {
                            return Err(format!("{}: class2 count {} != {}", w, t.class2_count(), m.n2));
                        }
                        for (g2, c2) in &m.g2s {
                            if cd2.get(GlyphId16::new(*g2)) != *c2 {
                                return Err(format!("{}: classdef2 of glyph {} changed", w, g2));
                            }
                        }
                        parsed.push(cd1);
                    }
                    for (g1, c1) in &m.g1s {
                        let gid = GlyphId16::new(*g1);
                        let holders: Vec<usize> = (0..f2.len()).filter(|x| f2[*x].2.get(gid).is_some()).collect();
                        if holders.len() != 1 {
                            return Err(format!("lookup {}: first glyph {} (class {}) is covered by {} of the {} output subtables (expected exactly 1)", li, g1, c1, holders.len(), f2.len()));
                        }
                        let (w, t, _) = &f2[holders[0]];
                        let nc1 = parsed[holders[0]].get(gid);
                        if nc1 >= t.class1_count() {
                            return Err(format!("{}: class {} of glyph {} >= class1 count {}", w, nc1, g1, t.class1_count()));
                        }
                        let rec = rd!(t.class1_records().get(nc1 as usize), format!("{} class1 record {}", w, nc1));
                        let c2recs = rec.class2_records();
                        for c2 in 0..m.n2 {
                            let r2 = rd!(c2recs.get(c2 as usize), format!("{} class2 record", w));
                            let got = (r2.value_record1.x_advance().unwrap_or(0), r2.value_record2.x_advance().unwrap_or(0));
                            if got != pp2_val(m.seed, *c1, c2) {
                                return Err(format!("{}: value for glyph {} (class {}->{}) x class2 {} is {:?}, expected {:?}", w, g1, c1, nc1, c2, got, pp2_val(m.seed, *c1, c2)));
                            }
                            back.rules += 1;
                        }
                        back.glyphs_reached += 1;
                    }
                } else {
                    return Err(format!("lookup {}: unexpected Pair lookup", li));
                }
            }
            rgpos::PositionSubtables::MarkToBase(subs) => {
                let Some(m) = ex.mb.iter().find(|x| x.li == li) else {
                    return Err(format!("lookup {}: unexpected MarkToBase", li));
                };
                let mark_set: HashSet<u16> = m.marks.iter().map(|x| x.0).collect();
                let base_set: HashSet<u16> = m.bases.iter().map(|x| x.0).collect();
                let mut mark_holders: HashMap<u16, usize> = HashMap::new();
                // (base gid, original class) pairs checked
                let mut attach_seen: HashSet<(u16, u16)> = HashSet::new();
                for si in 0..subs.len() {
                    back.subtables += 1;
                    let w = format!("lookup {} subtable {}", li, si);
                    let t = rd!(subs.get(si), format!("{} offset", w));
                    let mcov = rd!(t.mark_coverage(), format!("{} mark coverage", w));
                    let bcov = rd!(t.base_coverage(), format!("{} base coverage", w));
                    let marr = rd!(t.mark_array(), format!("{} mark array", w));
                    let barr = rd!(t.base_array(), format!("{} base array", w));
                    let n_m = check_coverage_consistent(&mcov, &mark_set, &w, "mark")?;
                    let n_b = check_coverage_consistent(&bcov, &base_set, &w, "base")?;
                    if n_m != marr.mark_count() as usize {
                        return Err(format!("{}: mark coverage has {} glyphs, mark array {}", w, n_m, marr.mark_count()));
                    }
                    if n_b != barr.base_count() as usize {
                        return Err(format!("{}: base coverage has {} glyphs, base array {}", w, n_b, barr.base_count()));
                    }
                    let mrecs = marr.mark_records();
                    let mut new_to_orig: HashMap<u16, u16> = HashMap::new();
                    for mk in &m.marks {
                        let Some(idx) = mcov.get(GlyphId16::new(mk.0)) else { continue };
                        *mark_holders.entry(mk.0).or_insert(0) += 1;
                        let Some(rec) = mrecs.get(idx as usize) else {
                            return Err(format!("{}: mark record {} missing", w, idx));
                        };
                        let a = rd!(rec.mark_anchor(marr.offset_data()), format!("{} mark anchor {}", w, idx));
                        if (a.x_coordinate(), a.y_coordinate()) != (mk.2, mk.3) {
                            return Err(format!("{}: mark {} anchor {:?} expected {:?}", w, mk.0, (a.x_coordinate(), a.y_coordinate()), (mk.2, mk.3)));
                        }
                        let nc = rec.mark_class();
                        if nc >= t.mark_class_count() {
                            return Err(format!("{}: mark class {} >= count {}", w, nc, t.mark_class_count()));
                        }
                        if *new_to_orig.entry(nc).or_insert(mk.1) != mk.1 {
                            return Err(format!("{}: marks of different input classes merged into class {}", w, nc));
                        }
                        back.rules += 1;
                    }
                    let brecs = barr.base_records();
                    for (gid, exp) in &m.bases {
                        match bcov.get(GlyphId16::new(*gid)) {
                            Some(idx) => {
                                let rec = rd!(brecs.get(idx as usize), format!("{} base record {}", w, idx));
                                let anchors = rec.base_anchors(barr.offset_data());
                                for (nc, oc) in &new_to_orig {
                                    let got = match anchors.get(*nc as usize) {
                                        None => None,
                                        Some(a) => {
                                            let a = rd!(a, format!("{} base {} anchor class {}", w, gid, nc));
                                            Some((a.x_coordinate(), a.y_coordinate()))
                                        }
                                    };
                                    let want = exp.get(*oc as usize).copied().flatten();
                                    if got != want {
                                        return Err(format!("{}: base {} class {} (new {}) anchor {:?} expected {:?}", w, gid, oc, nc, got, want));
                                    }
                                    attach_seen.insert((*gid, *oc));
                                    back.rules += 1;
                                }
                            }
                            None => {
                                // allowed only if the base attaches to none of this subtable's classes
                                if let Some((_, oc)) = new_to_orig.iter().find(|(_, oc)| exp.get(**oc as usize).copied().flatten().is_some()) {
                                    return Err(format!("{}: base glyph {} is not covered but the input attaches class {} marks to it", w, gid, oc));
                                }
                            }
                        }
                    }
                }
                for mk in &m.marks {
                    let h = mark_holders.get(&mk.0).copied().unwrap_or(0);
                    if h != 1 {
                        return Err(format!("lookup {}: mark glyph {} is covered by {} of the {} output subtables (expected exactly 1)", li, mk.0, h, subs.len()));
                    }
                    back.glyphs_reached += 1;
                }
                let classes: HashSet<u16> = m.marks.iter().map(|x| x.1).collect();
                for (gid, anchors) in &m.bases {
                    for c in &classes {
                        if anchors[*c as usize].is_some() && !attach_seen.contains(&(*gid, *c)) {
                            return Err(format!("lookup {}: attachment base {} x class {} lost", li, gid, c));
                        }
                    }
                    back.glyphs_reached += 1;
                }
            }
            _ => return Err(format!("lookup {}: unexpected lookup kind in output", li)),
        }
    }
    Ok(back)
}

fn verify_gsub(bytes: &[u8], ex: &Expect) -> Result<Back, String> {
    let mut back = Back::default();
    let table = rd!(rgsub::Gsub::read(bytes.into()), "GSUB header");
    let list = rd!(table.lookup_list(), "lookup list offset");
    let lookups = list.lookups();
    let mut found: HashMap<(usize, u16), u16> = HashMap::new();
    for li in 0..list.lookup_count() as usize {
        let lookup = rd!(lookups.get(li), format!("lookup {} offset", li));
        if lookup.lookup_type() == 7 {
            back.extension_lookups += 1;
        }
        match rd!(lookup.subtables(), format!("lookup {} subtables", li)) {
            rgsub::SubstitutionSubtables::Single(subs) => {
                for si in 0..subs.len() {
                    back.subtables += 1;
                    let w = format!("lookup {} subtable {}", li, si);
                    match rd!(subs.get(si), format!("{} offset", w)) {
                        rgsub::SingleSubst::Format2(t) => {
                            let cov = rd!(t.coverage(), format!("{} coverage", w));
                            let subst = t.substitute_glyph_ids();
                            for (idx, g) in cov.iter().enumerate() {
                                let Some(s) = subst.get(idx) else {
                                    return Err(format!("{}: substitute {} missing", w, idx));
                                };
                                found.entry((li, g.to_u16())).or_insert(s.get().to_u16());
                                back.rules += 1;
                            }
                        }
                        _ => return Err(format!("{}: unexpected single subst format", w)),
                    }
                }
            }
            _ => return Err(format!("lookup {}: unexpected lookup kind", li)),
        }
    }
    if found != ex.subst {
        let bad = ex.subst.iter().find(|(k, v)| found.get(*k) != Some(*v));
        return Err(format!("substitutions differ ({} found, {} expected), e.g. {:?}", found.len(), ex.subst.len(), bad));
    }
    Ok(back)
}

// ---------------------------------------------------------------- cases

enum Built {
    Gpos(gpos::Gpos),
    Gsub(gsub::Gsub),
}

fn build(seed: u64, k: u64, adapt: &HashMap<(usize, usize), Vec<usize>>) -> (String, Built, Expect, Value) {
    let mut r = Rng::derive(seed, "c05-gpos", k);
    let mut gen = Gen { seed, k, slot: 0, adapt };
    let kind = KINDS[(k % KINDS.len() as u64) as usize];
    let mut ex = Expect::default();
    // total target size: 0.8x .. 4x of 64 KiB
    let scale_pct = r.range(80, 400) as usize;
    let target = 65536 * scale_pct / 100;
    let mut lookups = vec![];
    let n_lookups;
    match kind {
        "pairpos1" => {
            n_lookups = r.range(1, 3) as usize;
            for li in 0..n_lookups {
                lookups.push(big_pair_pos1(&mut r, &mut gen, li, target / n_lookups, &mut ex));
            }
        }
        "pairpos2" => {
            n_lookups = r.range(1, 2) as usize;
            for li in 0..n_lookups {
                lookups.push(big_pair_pos2(&mut r, &mut gen, li, target / n_lookups, &mut ex));
            }
        }
        "markbase" => {
            n_lookups = r.range(1, 2) as usize;
            for li in 0..n_lookups {
                lookups.push(big_mark_base(&mut r, &mut gen, li, target / n_lookups, &mut ex));
            }
        }
        "mixed" => {
            n_lookups = r.range(3, 7) as usize;
            for li in 0..n_lookups {
                let t = target / n_lookups;
                lookups.push(match r.below(4) {
                    0 => big_pair_pos2(&mut r, &mut gen, li, t, &mut ex),
                    1 => big_mark_base(&mut r, &mut gen, li, t, &mut ex),
                    _ => big_pair_pos1(&mut r, &mut gen, li, t, &mut ex),
                });
            }
        }
        _ => {
            n_lookups = r.range(2, 5) as usize;
            let mut sl = vec![];
            for li in 0..n_lookups {
                let n = ((target / n_lookups) / 4).clamp(10, 15000);
                let first = 1 + r.below(100) as u16;
                let mut cov = vec![];
                let mut subst = vec![];
                let mut g = first;
                for q in 0..n {
                    // odd steps keep the coverage in format 1 (2 bytes/glyph)
                    g += 2;
                    let s = (h16(li as u64, q as u64, 9) as u16) | 1;
                    cov.push(GlyphId16::new(g));
                    subst.push(GlyphId16::new(s));
                    ex.subst.insert((li, g), s);
                }
                ex.n_input_subtables += 1;
                sl.push(gsub::SubstitutionLookup::Single(layout::Lookup::new(
                    layout::LookupFlag::empty(),
                    vec![gsub::SingleSubst::format_2(cov.into_iter().collect(), subst)],
                )));
            }
            let recipe = json!({"kind": kind, "seed": seed, "k": k, "scale_pct": scale_pct, "lookups": n_lookups});
            let t = gsub::Gsub::new(Default::default(), Default::default(), layout::LookupList::new(sl));
            return (kind.to_string(), Built::Gsub(t), ex, recipe);
        }
    }
    let mut adapt_v: Vec<(&(usize, usize), &Vec<usize>)> = adapt.iter().collect();
    adapt_v.sort();
    let recipe = json!({"kind": kind, "seed": seed, "k": k, "scale_pct": scale_pct, "lookups": n_lookups,
        "coverages_shape_mode_format2_ranges": ex.coverages.iter().map(|c| json!([SHAPES[c.0], COV_MODES[c.1], c.2, c.3])).collect::<Vec<_>>(),
        "range_boundaries_placed_around_split_starts": adapt_v.iter().map(|(k, v)| json!({"lookup": k.0, "subtable": k.1, "split_starts": v})).collect::<Vec<_>>()});
    let t = gpos::Gpos::new(Default::default(), Default::default(), layout::LookupList::new(lookups));
    (kind.to_string(), Built::Gpos(t), ex, recipe)
}

/// Where the split starts of a PairPos1 subtable fall relative to the range
/// records of its (format 2) input coverage.
fn classify_splits(ctx: &mut Ctx, ex: &Expect, splits: &[((usize, usize), Vec<usize>)]) -> bool {
    let mut any_boundary = false;
    for ((li, si), starts) in splits {
        let Some(sub) = ex.pp1.iter().find(|x| x.0 == *li).and_then(|x| x.1.get(*si)) else { continue };
        ctx.count("gpos:pp1:input_subtables_split", 1);
        if sub.ranges.is_empty() {
            ctx.count("gpos:pp1:split_starts:coverage_format1", starts.len() as u64);
            continue;
        }
        ctx.count("gpos:pp1:input_subtables_split_with_range_coverage", 1);
        ctx.distinct("gpos:pp1:distinct_(shape,mode)_of_split_range_coverages", (sub.plan.shape * 16 + sub.plan.mode) as u64);
        for s in starts {
            let Some((a, b)) = sub.ranges.iter().find(|(a, b)| *a <= *s && *s <= *b).copied() else { continue };
            let class = if a == *s && b == *s {
                "single_glyph_range_exactly_at_split_start"
            } else if b == *s {
                "range_ends_exactly_at_split_start"
            } else if a == *s {
                "range_starts_exactly_at_split_start"
            } else if b == *s + 1 {
                "range_ends_one_after_split_start"
            } else {
                "split_start_strictly_inside_range"
            };
            if b == *s {
                any_boundary = true;
            }
            ctx.count(&format!("gpos:pp1:split_starts:{}", class), 1);
        }
    }
    any_boundary
}

/// Compile and verify one recipe variant; returns the observed PairPos1 split starts.
fn run_variant(ctx: &mut Ctx, k: u64, adapt: &HashMap<(usize, usize), Vec<usize>>) -> Vec<((usize, usize), Vec<usize>)> {
    let seed = ctx.seed;
    let variant = if adapt.is_empty() { "" } else { ":boundary-adapted" };
    let built = vf_core::guard(|| build(seed, k, adapt));
    let (kind, table, ex, recipe) = match built {
        Ok(b) => b,
        Err(p) => {
            // builders are library code too, but not this property's subject
            ctx.inconclusive(format!("GPOS recipe k={} could not be built: {}:{} {}", k, p.file, p.line, p.msg));
            return vec![];
        }
    };
    ctx.eval();
    ctx.count(&format!("gpos:{}{}:cases", kind, variant), 1);
    for c in &ex.coverages {
        ctx.count(&format!("gpos:input_coverage:{}:{}", COV_MODES[c.1], if c.2 { "format2" } else { "format1" }), 1);
        ctx.count(&format!("gpos:input_coverage_shape:{}", SHAPES[c.0]), 1);
    }
    let _ = hooks::take_trace();
    let label = || format!("gpos {}", recipe);
    let res = ctx.run_case(&label, None, &|| match &table {
        Built::Gpos(t) => dump_table(t),
        Built::Gsub(t) => dump_table(t),
    });
    let trace_v = hooks::take_trace();
    let trace = super::compress_trace(&trace_v);
    ctx.distinct("stage_traces", fnv64(trace.as_bytes()));
    ctx.label("stage_traces_gpos", &trace);
    for st in ["split_check", "promote", "assign_spaces", "isolate_subgraph", "duplicate_subgraph"] {
        if trace_v.iter().any(|s| *s == st) {
            ctx.count(&format!("gpos:stage_reached:{}", st), 1);
        }
    }
    let case_id = format!("{}{}:seed{}:k{}", kind, variant, seed, k);
    let mut splits_out = vec![];
    match res {
        Ok(Ok(bytes)) => {
            let v = vf_core::guard(|| match &table {
                Built::Gpos(_) => verify_gpos(&bytes, &ex),
                Built::Gsub(_) => verify_gsub(&bytes, &ex),
            });
            match v {
                Ok(Ok(back)) => {
                    ctx.count("gpos:outcome:success_all_rules_found", 1);
                    ctx.count("gpos:rules_checked", back.rules);
                    ctx.count("gpos:input_glyphs_reached_through_exactly_one_output_subtable", back.glyphs_reached);
                    let split = back.subtables > ex.n_input_subtables;
                    let promoted = back.extension_lookups > 0;
                    if split {
                        ctx.count("gpos:success_with_split_subtables", 1);
                        ctx.count("gpos:subtables_added_by_splitting", (back.subtables - ex.n_input_subtables) as u64);
                    }
                    if promoted {
                        ctx.count("gpos:success_with_extension_promotion", 1);
                        ctx.count("gpos:lookups_promoted", back.extension_lookups as u64);
                    }
                    if bytes.len() > 65535 {
                        ctx.count("gpos:output_above_64k", 1);
                    }
                    let boundary = classify_splits(ctx, &ex, &back.pp1_splits);
                    if split || promoted {
                        ctx.nontrivial(fnv64(recipe.to_string().as_bytes()));
                        ctx.count("nontrivial_cases", 1);
                        ctx.sample_by_kind(
                            &format!("gpos-{}{}{}{}", kind, if split { "-split" } else { "" }, if promoted { "-promoted" } else { "" }, if boundary { "-range-ends-at-split" } else { "" }),
                            json!({"recipe": recipe, "trace": trace, "out_len": bytes.len(), "subtables_in": ex.n_input_subtables,
                                   "subtables_out": back.subtables, "extension_lookups": back.extension_lookups,
                                   "pairpos1_split_starts": back.pp1_splits.iter().map(|(k, v)| json!({"lookup": k.0, "subtable": k.1, "starts": v})).collect::<Vec<_>>()}),
                        );
                    }
                    splits_out = back.pp1_splits;
                }
                Ok(Err(msg)) => {
                    ctx.count("gpos:outcome:success_but_misresolved", 1);
                    ctx.violation(
                        &format!("gpos-misresolved:{}", case_id),
                        json!({"what": "dump_table returned Ok but reading the table back does not give the input rules", "problem": msg,
                               "recipe": recipe, "trace": trace, "out_len": bytes.len()}),
                        Some(&bytes),
                    );
                }
                Err(p) => {
                    // a panic while reading back compiled bytes: the output is not a table in which offsets resolve
                    ctx.count("gpos:outcome:readback_panic", 1);
                    if p.in_repo() {
                        ctx.violation(
                            &format!("gpos-readback-panic:{}:{}:{}", p.file, p.line, case_id),
                            json!({"what": "read-back of compiled table panicked", "panic": {"file": p.file, "line": p.line, "msg": p.msg}, "recipe": recipe, "trace": trace}),
                            Some(&bytes),
                        );
                    } else {
                        ctx.inconclusive(format!("harness panic in GPOS read-back {}:{} {}", p.file, p.line, p.msg));
                    }
                }
            }
        }
        Ok(Err(Error::PackingFailed(_))) => {
            ctx.count("gpos:outcome:packing_failed", 1);
            ctx.sample_by_kind("gpos-packing-failed", json!({"recipe": recipe, "trace": trace}));
        }
        Ok(Err(e)) => {
            ctx.inconclusive(format!("GPOS recipe {} failed validation: {}", case_id, e));
        }
        Err(p) => {
            if !p.in_repo() {
                ctx.inconclusive(format!("harness panic {}:{} {}", p.file, p.line, p.msg));
                return vec![];
            }
            ctx.count("gpos:outcome:panic", 1);
            ctx.violation(
                &format!("pack-panic:{}:{}:gpos:{}", p.file.strip_prefix(&format!("{}/", vf_core::repo_dir())).unwrap_or(&p.file), p.line, case_id),
                json!({"what": "dump_table panicked on a real layout table", "panic": {"file": p.file, "line": p.line, "msg": p.msg, "class": p.class.as_str()},
                       "recipe": recipe, "trace": trace}),
                None,
            );
        }
    }
    splits_out
}

fn one(ctx: &mut Ctx, k: u64) {
    let none = HashMap::new();
    let splits = run_variant(ctx, k, &none);
    // boundary-adapted variant: the same pair sets, but the first-glyph coverage is a range-format table whose
    // records end one before / exactly at / one after every split start just observed (or isolate it)
    if !splits.is_empty() {
        let adapt: HashMap<(usize, usize), Vec<usize>> = splits.into_iter().collect();
        run_variant(ctx, k, &adapt);
    }
}

pub fn run(ctx: &mut Ctx) {
    let count: u64 = ctx.tier.pick(1600, 16000);
    for k in 0..count {
        if ctx.mine(k as usize) {
            one(ctx, k);
        }
    }
}

pub fn replay(ctx: &mut Ctx, recipe: &Value) {
    let Some(k) = recipe["k"].as_u64() else {
        ctx.inconclusive("GPOS replay without k");
        return;
    };
    if let Some(s) = recipe["seed"].as_u64() {
        ctx.seed = s;
    }
    one(ctx, k);
}
