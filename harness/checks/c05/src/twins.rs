//! (f) NEAR-TWIN objects: object de-duplication must keep apart objects whose
//! byte images coincide but which differ in a link's width, position, target or
//! adjustment, or in the number of links.
//!
//! `TableWriter` de-duplicates compiled objects on (bytes, offset records); the
//! bytes of an unresolved offset field are the placeholder 0xFF. All other graph
//! workloads of this check give every node a unique payload, so two objects never
//! collide there. Here nodes are built over a common byte image: literal 0xFF
//! bytes sit exactly where a twin has (part of) an offset field, e.g.
//! `[Offset16->X, u16 0xFFFF]`, `[Offset24->X, u8 0xFF]`, `[Offset32->X]`,
//! `[u16 0xFFFF, Offset16->X]`, `[Offset16->X, Offset16->X]`, `[u32 0xFFFFFFFF]`
//! all have the image FF FF FF FF. True twins (identical in everything) MAY be
//! merged; the oracle does not care: it is the unchanged independent resolver
//! (`spec::resolve`): every link of every LOGICAL node, read with its own width
//! at its own position, lands on a byte-for-byte copy of its own target.
//!
//! Exhaustive: all layouts of a 4-byte all-0xFF core (compositions into literal
//! bytes / 16 / 24 / 32-bit links x target in {X, Y} x adjustment in {0, 2}: 41
//! variants) as ORDERED pairs and as triples, under several frames (literal
//! prefix / suffix bytes), leaf modes (X != Y, X == Y bytewise, X == the core
//! image itself) and parent shapes. Sampled: random graphs of up to 12 nodes in
//! which most nodes are one-step mutations of an earlier node.

use crate::spec::{Link, NodeSpec, Spec};
use crate::run_graph_case;
use serde_json::json;
use vf_core::{Ctx, Digest, Rng};

#[derive(Clone, Debug, PartialEq, Eq)]
enum Part {
    Lit(u8),
    /// `to`: in the exhaustive family a symbolic leaf (0 = X, 1 = Y), in the sampled family a node index
    Link { w: u8, to: usize, adj: u32 },
}

#[derive(Clone, Debug, Default)]
struct Layout {
    pre: Vec<u8>,
    parts: Vec<Part>,
    suf: Vec<u8>,
}

impl Layout {
    fn size(&self) -> u32 {
        (self.pre.len() + self.suf.len()) as u32
            + self.parts.iter().map(|p| match p { Part::Lit(_) => 1, Part::Link { w, .. } => *w as u32 }).sum::<u32>()
    }
    /// (node, payload); `map` translates link targets to node indices
    fn build(&self, map: &dyn Fn(usize) -> usize) -> (NodeSpec, Vec<u8>) {
        let mut bytes = self.pre.clone();
        let mut links = vec![];
        let size = self.size();
        for p in &self.parts {
            match p {
                Part::Lit(b) => bytes.push(*b),
                Part::Link { w, to, adj } => {
                    links.push(Link { to: map(*to), width: *w, pos: bytes.len() as u32, adj: (*adj).min(size) });
                    // what the compiler's placeholder looks like; ignored by writer and resolver
                    bytes.extend(std::iter::repeat(0xFFu8).take(*w as usize));
                }
            }
        }
        bytes.extend_from_slice(&self.suf);
        (NodeSpec { size, links }, bytes)
    }
    fn links(&self) -> Vec<(u32, u8, usize, u32)> {
        let mut pos = self.pre.len() as u32;
        let size = self.size();
        let mut v = vec![];
        for p in &self.parts {
            match p {
                Part::Lit(_) => pos += 1,
                Part::Link { w, to, adj } => {
                    v.push((pos, *w, *to, (*adj).min(size)));
                    pos += *w as u32;
                }
            }
        }
        v
    }
    fn image(&self) -> Vec<u8> {
        self.build(&|t| t).1
    }
}

/// In what do two layouts with the same byte image differ?
fn relation(a: &Layout, b: &Layout) -> &'static str {
    if a.image() != b.image() {
        return "different-image";
    }
    let (la, lb) = (a.links(), b.links());
    if la == lb {
        return "true-twins";
    }
    if la.len() != lb.len() {
        return "number-of-links";
    }
    let mut kinds = [false; 4];
    for (x, y) in la.iter().zip(&lb) {
        kinds[0] |= x.0 != y.0;
        kinds[1] |= x.1 != y.1;
        kinds[2] |= x.2 != y.2;
        kinds[3] |= x.3 != y.3;
    }
    match kinds {
        [true, false, false, false] => "link-position",
        [false, true, false, false] => "link-width",
        [false, false, true, false] => "link-target",
        [false, false, false, true] => "adjustment",
        _ => "several-link-attributes",
    }
}

/// all layouts of a core of `len` 0xFF bytes: literal bytes and links to symbolic leaves
fn core_variants(len: usize, adj: u32) -> Vec<Vec<Part>> {
    fn rec(rem: usize, adj: u32, cur: &mut Vec<Part>, out: &mut Vec<Vec<Part>>) {
        if rem == 0 {
            out.push(cur.clone());
            return;
        }
        cur.push(Part::Lit(0xFF));
        rec(rem - 1, adj, cur, out);
        cur.pop();
        for w in 2..=4usize {
            if w > rem {
                break;
            }
            for to in 0..2usize {
                for a in [0, adj] {
                    cur.push(Part::Link { w: w as u8, to, adj: a });
                    rec(rem - w, adj, cur, out);
                    cur.pop();
                }
            }
        }
    }
    let mut out = vec![];
    rec(len, adj, &mut vec![], &mut out);
    out
}

const LEAF_X: [u8; 6] = [0xde, 0xad, 0xbe, 0xef, 0x01, 0x02];
const LEAF_Y: [u8; 6] = [0xde, 0xad, 0xbe, 0xef, 0x01, 0x03];

#[derive(Clone, Copy, Debug)]
struct Frame {
    pre: &'static [u8],
    suf: &'static [u8],
}

/// parent shapes: how the twins hang below the root
#[derive(Clone, Copy, Debug, PartialEq)]
enum Shape {
    /// root -> every twin, root link width as given
    Flat(u8),
    /// root -> M -> last twin; root -> the other twins
    Mid,
    /// root -> first twin twice (two fields) and every other twin
    Multi,
}

/// Build [root, (M), twins.., used leaves..].
fn exh_spec(twins: &[Layout], leaf_mode: u8, shape: Shape) -> Spec {
    let k = twins.len();
    let used = |s: usize| twins.iter().any(|t| t.parts.iter().any(|p| matches!(p, Part::Link { to, .. } if *to == s)));
    let (ux, uy) = (used(0), used(1));
    let has_mid = shape == Shape::Mid;
    let first_twin = 1 + has_mid as usize;
    let x_idx = first_twin + k;
    let y_idx = x_idx + ux as usize;
    let map = move |s: usize| if s == 0 { x_idx } else { y_idx };
    let mut nodes = vec![];
    let mut payloads = vec![];
    // root
    {
        let mut l = Layout { pre: b"ROOT".to_vec(), parts: vec![], suf: vec![] };
        let rw = if let Shape::Flat(w) = shape { w } else { 2 };
        if has_mid {
            l.parts.push(Part::Link { w: 2, to: 1, adj: 0 });
        }
        for t in 0..k {
            if has_mid && t == k - 1 {
                continue;
            }
            l.parts.push(Part::Link { w: rw, to: first_twin + t, adj: 0 });
            if shape == Shape::Multi && t == 0 {
                l.parts.push(Part::Lit(0x00));
                l.parts.push(Part::Link { w: 4, to: first_twin, adj: 0 });
            }
        }
        let (n, p) = l.build(&|t| t);
        nodes.push(n);
        payloads.push(p);
    }
    if has_mid {
        let l = Layout { pre: b"MID.".to_vec(), parts: vec![Part::Link { w: 2, to: first_twin + k - 1, adj: 0 }], suf: vec![] };
        let (n, p) = l.build(&|t| t);
        nodes.push(n);
        payloads.push(p);
    }
    for t in twins {
        let (n, p) = t.build(&map);
        nodes.push(n);
        payloads.push(p);
    }
    let xb: Vec<u8> = match leaf_mode {
        2 => twins[0].image(), // the leaf has the very byte image of the twins (0 links vs >= 1 link)
        _ => LEAF_X.to_vec(),
    };
    let yb: Vec<u8> = match leaf_mode {
        0 => LEAF_Y.to_vec(),
        1 => LEAF_X.to_vec(), // X and Y are true twins: the "different target" twins are true twins too
        _ => LEAF_Y.to_vec(),
    };
    if ux {
        nodes.push(NodeSpec { size: xb.len() as u32, links: vec![] });
        payloads.push(xb);
    }
    if uy {
        nodes.push(NodeSpec { size: yb.len() as u32, links: vec![] });
        payloads.push(yb);
    }
    Spec::with_payloads(nodes, payloads)
}

fn full_digest(spec: &Spec) -> u64 {
    let mut d = Digest::new();
    d.u64(spec.digest());
    for i in 0..spec.nodes.len() {
        d.bytes(spec.payload_of(i));
        d.u32(0xFFFF_FFFF);
    }
    d.finish()
}

fn run_one(ctx: &mut Ctx, spec: &Spec, tag: &str, id: &str, rels: &[&'static str]) {
    let out = run_graph_case(ctx, spec, tag, id);
    if !matches!(out.outcome, "success" | "packing_failed" | "panic" | "misresolved") {
        return;
    }
    ctx.count(&format!("{}:{}", tag, out.outcome), 1);
    let mut near = false;
    for r in rels {
        ctx.count(&format!("twins:pair_relation:{}", r), 1);
        near |= *r != "true-twins" && *r != "different-image";
    }
    if near {
        // non-trivial: at least two nodes with the same byte image that are NOT the same object
        ctx.nontrivial(full_digest(spec));
        ctx.count("twins:cases_with_near_twins", 1);
    }
    if out.outcome == "success" {
        if out.merged_objects > 0 {
            ctx.count("twins:success_with_objects_merged_by_the_compiler", 1);
            ctx.count("twins:objects_merged", out.merged_objects as u64);
            if near {
                ctx.sample_by_kind("twins:near-twins-kept-apart-while-true-twins-merged", json!({"id": id, "spec": spec.to_json(), "relations": rels}));
            }
        } else if near {
            ctx.sample_by_kind("twins:near-twins-kept-apart", json!({"id": id, "spec": spec.to_json(), "relations": rels}));
        }
    }
}

fn exhaustive(ctx: &mut Ctx) {
    const FRAMES: [Frame; 5] = [
        Frame { pre: &[], suf: &[] },
        Frame { pre: &[0x00, 0x01], suf: &[] },
        Frame { pre: &[], suf: &[0x00, 0x02] },
        Frame { pre: &[0xFF], suf: &[0xFF, 0xFF] },
        Frame { pre: &[0x7F], suf: &[0x80] },
    ];
    let thorough = ctx.tier.is_thorough();
    let vars = core_variants(4, 2);
    let nv = vars.len();
    ctx.extra.insert("twins_core4_variants".into(), json!(nv));
    let mk = |v: usize, f: &Frame| Layout { pre: f.pre.to_vec(), parts: vars[v].clone(), suf: f.suf.to_vec() };
    let mut item = 0usize;
    let mut pairs_run = 0u64;
    let mut triples_run = 0u64;
    // ordered pairs: every frame x leaf mode x shape
    for (fi, f) in FRAMES.iter().enumerate() {
        for leaf_mode in 0..3u8 {
            for (si, shape) in [Shape::Flat(2), Shape::Flat(4), Shape::Flat(3), Shape::Mid, Shape::Multi].iter().enumerate() {
                if !thorough && fi > 0 && (leaf_mode > 0 || si > 0) && !(fi == 3 && si == 0) {
                    continue; // quick: the full product only for the bare frame
                }
                for a in 0..nv {
                    for b in 0..nv {
                        pairs_run += 1;
                        item += 1;
                        if !ctx.mine(item) {
                            continue;
                        }
                        let (la, lb) = (mk(a, f), mk(b, f));
                        let rel = relation(&la, &lb);
                        let spec = exh_spec(&[la, lb], leaf_mode, *shape);
                        let id = format!("twin2:f{}:l{}:s{}:{}-{}", fi, leaf_mode, si, a, b);
                        run_one(ctx, &spec, "twin2", &id, &[rel]);
                    }
                }
            }
        }
    }
    // triples (unordered in quick, ordered in thorough), bare frame, leaves X != Y
    for a in 0..nv {
        for b in 0..nv {
            for c in 0..nv {
                if !thorough && !(a <= b && b <= c) {
                    continue;
                }
                triples_run += 1;
                item += 1;
                if !ctx.mine(item) {
                    continue;
                }
                let f = &FRAMES[0];
                let (la, lb, lc) = (mk(a, f), mk(b, f), mk(c, f));
                let rels = [relation(&la, &lb), relation(&la, &lc), relation(&lb, &lc)];
                let spec = exh_spec(&[la, lb, lc], 0, Shape::Flat(2));
                let id = format!("twin3:{}-{}-{}", a, b, c);
                run_one(ctx, &spec, "twin3", &id, &rels);
            }
        }
    }
    ctx.extra.insert(
        "twins_exhaustive_scope".into(),
        json!({"core": "4 bytes of 0xFF", "variants": nv, "pair_cases": pairs_run, "triple_cases": triples_run,
               "frames_pre_suf": FRAMES.iter().map(|f| json!([vf_core::hex(f.pre), vf_core::hex(f.suf)])).collect::<Vec<_>>(),
               "leaf_modes": ["X != Y", "X == Y bytewise", "X == byte image of the twins"],
               "shapes": ["root-16->twins", "root-32->twins", "root-24->twins", "root->M->last twin", "root links first twin twice (16 and 32 bit)"]}),
    );
}

// ---------------------------------------------------------------- sampled

fn random_layout(r: &mut Rng, i: usize, n: usize, is_leaf: &[bool], force_leaf: bool) -> Layout {
    let pick_fill = |r: &mut Rng| if r.chance(7, 8) { 0xFFu8 } else { *r.pick(&[0x00u8, 0x01, 0xFE]) };
    let pre: Vec<u8> = (0..r.below(3)).map(|_| pick_fill(r)).collect();
    let suf: Vec<u8> = (0..r.below(3)).map(|_| pick_fill(r)).collect();
    let core = r.range(2, 8) as usize;
    let mut parts = vec![];
    let mut rem = core;
    while rem > 0 {
        let w = *r.pick(&[1usize, 2, 2, 3, 4, 4]);
        if w == 1 || w > rem || force_leaf || i + 1 >= n {
            parts.push(Part::Lit(pick_fill(r)));
            rem -= 1;
            continue;
        }
        let to = r.range(i as i64 + 1, n as i64 - 1) as usize;
        let adj = if is_leaf[to] && r.chance(1, 4) { *r.pick(&[1u32, 2, 1000]) } else { 0 };
        parts.push(Part::Link { w: w as u8, to, adj });
        rem -= w;
    }
    Layout { pre, parts, suf }
}

/// one-step mutations that keep the byte image: returns the kind applied
fn mutate(r: &mut Rng, l: &mut Layout, i: usize, n: usize, is_leaf: &[bool]) -> &'static str {
    let link_ix: Vec<usize> = l.parts.iter().enumerate().filter(|(_, p)| matches!(p, Part::Link { .. })).map(|(k, _)| k).collect();
    // runs of literal 0xFF bytes (start, len) with len >= 2
    let mut runs = vec![];
    let mut k = 0;
    while k < l.parts.len() {
        if l.parts[k] == Part::Lit(0xFF) {
            let s = k;
            while k < l.parts.len() && l.parts[k] == Part::Lit(0xFF) {
                k += 1;
            }
            if k - s >= 2 {
                runs.push((s, k - s));
            }
        } else {
            k += 1;
        }
    }
    for _ in 0..8 {
        match r.below(6) {
            0 if !link_ix.is_empty() && i + 2 < n => {
                let k = *r.pick(&link_ix);
                if let Part::Link { to, adj, .. } = &mut l.parts[k] {
                    let nt = r.range(i as i64 + 1, n as i64 - 1) as usize;
                    if nt != *to {
                        *to = nt;
                        if !is_leaf[nt] {
                            *adj = 0;
                        }
                        return "retarget";
                    }
                }
            }
            1 if !link_ix.is_empty() => {
                let k = *r.pick(&link_ix);
                if let Part::Link { to, adj, .. } = &mut l.parts[k] {
                    if is_leaf[*to] {
                        *adj = if *adj == 0 { *r.pick(&[1u32, 2, 1000]) } else { 0 };
                        return "readjust";
                    }
                }
            }
            2 if !link_ix.is_empty() => {
                // link -> literal 0xFF bytes
                let k = *r.pick(&link_ix);
                if let Part::Link { w, .. } = l.parts[k].clone() {
                    l.parts.splice(k..k + 1, std::iter::repeat(Part::Lit(0xFF)).take(w as usize));
                    return "unlink";
                }
            }
            3 if !runs.is_empty() && i + 1 < n => {
                // literal 0xFF run -> link
                let (s, len) = *r.pick(&runs);
                let w = r.range(2, len.min(4) as i64) as usize;
                let at = s + r.usize(len - w + 1);
                let to = r.range(i as i64 + 1, n as i64 - 1) as usize;
                l.parts.splice(at..at + w, [Part::Link { w: w as u8, to, adj: 0 }]);
                return "link-over-literal-ff";
            }
            4 if !link_ix.is_empty() => {
                // change the width: narrower (+ 0xFF filler behind / in front) or wider (eating adjacent 0xFF literals)
                let k = *r.pick(&link_ix);
                if let Part::Link { w, to, adj } = l.parts[k].clone() {
                    if w > 2 && r.bool() {
                        let nw = r.range(2, w as i64 - 1) as u8;
                        let fill = (w - nw) as usize;
                        let mut rep = vec![Part::Link { w: nw, to, adj }];
                        if r.bool() {
                            rep.extend(std::iter::repeat(Part::Lit(0xFF)).take(fill));
                        } else {
                            for _ in 0..fill {
                                rep.insert(0, Part::Lit(0xFF));
                            }
                        }
                        l.parts.splice(k..k + 1, rep);
                        return "narrow";
                    }
                    // widen over following 0xFF literals
                    let mut avail = 0usize;
                    while k + 1 + avail < l.parts.len() && l.parts[k + 1 + avail] == Part::Lit(0xFF) {
                        avail += 1;
                    }
                    let grow = avail.min(4 - w as usize);
                    if grow > 0 {
                        let g = r.range(1, grow as i64) as usize;
                        l.parts.splice(k..k + 1 + g, [Part::Link { w: w + g as u8, to, adj }]);
                        return "widen";
                    }
                }
            }
            5 if !link_ix.is_empty() => {
                // move the link over an adjacent literal 0xFF run of its own width
                let k = *r.pick(&link_ix);
                if let Part::Link { w, .. } = l.parts[k].clone() {
                    let w = w as usize;
                    if k + w < l.parts.len() && (1..=w).all(|d| l.parts[k + d] == Part::Lit(0xFF)) {
                        let p = l.parts.remove(k);
                        l.parts.insert(k + w, p);
                        return "shift-right";
                    }
                    if k >= w && (1..=w).all(|d| l.parts[k - d] == Part::Lit(0xFF)) {
                        let p = l.parts.remove(k);
                        l.parts.insert(k - w, p);
                        return "shift-left";
                    }
                }
            }
            _ => {}
        }
    }
    "copy"
}

fn sample_spec(r: &mut Rng) -> (Spec, Vec<&'static str>, Vec<&'static str>) {
    let n = r.range(4, 12) as usize;
    let mut lay: Vec<Layout> = vec![Layout::default(); n];
    let mut is_leaf = vec![false; n];
    let mut muts = vec![];
    let p_copy = *r.pick(&[3u64, 6, 9]);
    for i in (1..n).rev() {
        if i + 1 < n && r.chance(p_copy, 10) {
            let j = r.range(i as i64 + 1, n as i64 - 1) as usize;
            let mut l = lay[j].clone();
            let steps = *r.pick(&[0usize, 1, 1, 1, 2]);
            if steps == 0 {
                muts.push("copy");
            }
            for _ in 0..steps {
                muts.push(mutate(r, &mut l, i, n, &is_leaf));
            }
            // adjustments never exceed the object (generator contract, see ctx.assumptions)
            lay[i] = l;
        } else {
            let force_leaf = i + 1 >= n || r.chance(1, 4);
            lay[i] = random_layout(r, i, n, &is_leaf, force_leaf);
        }
        is_leaf[i] = lay[i].links().is_empty();
    }
    let mut has_parent = vec![false; n];
    for l in &lay[1..] {
        for (_, _, to, _) in l.links() {
            has_parent[to] = true;
        }
    }
    let mut root = Layout { pre: b"ROOT".to_vec(), parts: vec![], suf: vec![] };
    for i in 1..n {
        if !has_parent[i] || r.chance(1, 6) {
            root.parts.push(Part::Link { w: *r.pick(&[2u8, 2, 3, 4]), to: i, adj: 0 });
            if r.chance(1, 3) {
                root.parts.push(Part::Lit(0xFF));
            }
        }
    }
    lay[0] = root;
    let mut rels = vec![];
    for i in 1..n {
        for j in i + 1..n {
            let rel = relation(&lay[i], &lay[j]);
            if rel != "different-image" {
                rels.push(rel);
            }
        }
    }
    let mut nodes = vec![];
    let mut payloads = vec![];
    for l in &lay {
        let (nd, p) = l.build(&|t| t);
        nodes.push(nd);
        payloads.push(p);
    }
    (Spec::with_payloads(nodes, payloads), rels, muts)
}

fn sampled(ctx: &mut Ctx) {
    let count: u64 = ctx.tier.pick(150_000, 1_500_000);
    for k in 0..count {
        if !ctx.mine(k as usize) {
            continue;
        }
        let mut r = Rng::derive(ctx.seed, "c05-twins", k);
        let (spec, rels, muts) = sample_spec(&mut r);
        for m in &muts {
            ctx.count(&format!("twinsmp:mutation:{}", m), 1);
        }
        let id = format!("twinsmp:seed{}:i{}", ctx.seed, k);
        run_one(ctx, &spec, "twinsmp", &id, &rels);
    }
}

pub fn run(ctx: &mut Ctx) {
    exhaustive(ctx);
    sampled(ctx);
}
