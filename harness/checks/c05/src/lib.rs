//! C05 — offset packing is sound: every offset resolves to its target or
//! packing fails with `Error::PackingFailed` (never bytes with a wrong offset,
//! never a panic). See /verif/DESIGN.md §3.
//!
//! Workloads
//!  (a) exhaustive enumeration of all labelled DAG shapes with <= 5 nodes
//!      (upper-triangular adjacency, every node has a parent) x link widths x
//!      size alphabet {10, 40000, 65530};
//!  (b) seeded random DAGs up to 40 nodes (sharing, multi-links, adjustments);
//!  (b') graphs of a few 1-16 MiB objects whose total size crosses 2^24 bytes,
//!      24-bit distances snapped to 0xFFFFFF -2..+2 (big.rs);
//!  (c) real GPOS PairPos / MarkBasePos lookups at 1x-4x the 64 KiB limit, every
//!      covered glyph set drawn from a family of run shapes and coverage formats,
//!      plus a boundary-adapted variant that puts range-record boundaries around
//!      the split points just observed (gpos.rs);
//!  (d) GPOS SinglePos / PairPos 1+2 / MarkBasePos lookups whose value records
//!      and anchors carry Device / VariationIndex tables with per-field ids
//!      (unique or pooled), sized to force splitting and promotion; on read-back
//!      every device offset must resolve to the table written for that exact
//!      field (gposdev.rs).
//!  (e) object SHARING across parents of different kinds x promotion / duplication:
//!      abstract graphs with typed lookup nodes whose subtables are shared between
//!      lookups of the same / of different lookup types, and real GSUB / GPOS tables with
//!      byte-identical subtables under several lookups (shared.rs).
//!  (f) NEAR-TWIN objects: nodes with identical byte images (literal 0xFF where a twin has
//!      placeholder bytes) differing in ONE of link width / position / target / adjustment /
//!      number of links, plus true twins; all layouts of a 4-byte core as ordered pairs and
//!      triples, and sampled mutation graphs (twins.rs). Guards object de-duplication.
//! Oracle: `spec::resolve` (graphs); GPOS: every input glyph is looked up through
//! the output coverage tables, is covered by exactly one output subtable and
//! reaches its own pair set / class record / anchors with every input value.
//!
//! Known defect (open finding): `Graph::isolate_subgraph_hb` re-links the wide
//! parents of a duplicated space root by iterating the *duplicate's* (empty)
//! parent list, so the duplicate root is orphaned; when one of its duplicated
//! descendants also has a live parent, `sort_shortest_distance` never sees all
//! of that descendant's incoming edges and panics "cycle or something?".

pub mod big;
pub mod gpos;
pub mod gposdev;
pub mod shared;
pub mod spec;
pub mod twins;

use serde_json::{json, Value};
use spec::{Link, NodeSpec, PayloadCache, Spec};
use vf_core::{fnv64, Args, Ctx, Digest, PanicInfo, Rng};
use write_fonts::{dump_table, error::Error, verif_graph_hooks as hooks};

pub const REPLAY: Option<fn(&mut Ctx, &Args, &serde_json::Value, Option<&[u8]>)> = Some(replay);

pub const SIZE_ALPHABET: [u32; 3] = [10, 40000, 65530];
/// name of the structural class of the known defect, see `Spec::has_mixed_root_with_shared_descendant`
pub const KNOWN_CLASS: &str = "root-with-16+32bit-parents-and-shared-descendant";
/// see `Spec::has_nested_wide_targets_with_shared_descendant`
pub const KNOWN_CLASS_2: &str = "nested-32bit-targets-with-shared-descendant";

pub fn run(ctx: &mut Ctx, _args: &Args) {
    ctx.level = "runtime-monitoring".into();
    ctx.rule = "graph cases: the object graph has >= 1 link and the plain topological (Kahn) order overflowed, \
                i.e. the recorded stage trace is longer than [kahn] (shortest-distance / space assignment / \
                isolation+duplication / PackingFailed paths ran); GPOS cases: the table exceeds 64 KiB in at \
                least one lookup so that split_check or promote ran (gposdev: the output has more subtables than the input or an extension lookup; shared-subtable tables: at least one lookup reads back promoted). Typed-lookup graphs count as graph cases. Near-twin cases (twins.rs): the graph holds at least two nodes with the same byte image (placeholder bytes = literal 0xFF bytes) that differ in a link's width / position / target / adjustment or in the number of links; digest = spec + payload bytes. Digest = the abstract spec (sizes, links, \
                widths, positions, adjustments) resp. the GPOS recipe"
        .into();
    ctx.assumptions = vec![
        "input graphs are acyclic and every object is reachable from the root (cyclic inputs are outside the property)".into(),
        "offset adjustments are only used on links to leaf objects and never exceed the parent's size (the public adjust_offsets contract: the adjustment in force is inherited by nested objects and a larger one makes the offset negative)".into(),
        "mock objects carry TableType::Unknown except the lookup nodes of the typed-graph workload (GsubLookup / GposLookup of non-splittable types, all under one lookup list), so splitting is exercised by the real GPOS workloads only, promotion by those and the typed graphs".into(),
    ];
    let _ = hooks::take_trace();

    // debugging aid: VF_C05_ONLY=gposdev runs only that workload
    if std::env::var("VF_C05_ONLY").map(|v| v == "gposdev").unwrap_or(false) {
        gposdev::run(ctx);
        return;
    }
    if std::env::var("VF_C05_ONLY").map(|v| v == "twins").unwrap_or(false) {
        twins::run(ctx);
        return;
    }
    if std::env::var("VF_C05_ONLY").map(|v| v == "shared").unwrap_or(false) {
        shared::run(ctx);
        return;
    }
    let t0 = ctx.elapsed_s();
    exhaustive(ctx);
    let t1 = ctx.elapsed_s();
    random_graphs(ctx);
    let t2 = ctx.elapsed_s();
    big::run(ctx);
    let t3 = ctx.elapsed_s();
    gpos::run(ctx);
    let t4 = ctx.elapsed_s();
    gposdev::run(ctx);
    let t5 = ctx.elapsed_s();
    shared::run(ctx);
    let t6 = ctx.elapsed_s();
    twins::run(ctx);
    let t7 = ctx.elapsed_s();
    ctx.extra.insert(
        "workload_seconds_this_shard".into(),
        json!({"exhaustive": t1 - t0, "random": t2 - t1, "big24": t3 - t2, "gpos": t4 - t3, "gposdev": t5 - t4, "shared": t6 - t5, "twins": t7 - t6}),
    );
}

// ---------------------------------------------------------------- one graph case

pub struct CaseOut {
    pub outcome: &'static str,
    pub trace: String,
    /// on success: logical nodes minus distinct output positions (objects the compiler merged), when nothing was duplicated
    pub merged_objects: usize,
}

fn compress_trace(t: &[&'static str]) -> String {
    let mut s = String::new();
    let mut i = 0;
    let mut groups = 0;
    while i < t.len() {
        let mut j = i;
        while j < t.len() && t[j] == t[i] {
            j += 1;
        }
        if groups == 40 {
            s.push_str(",...");
            break;
        }
        if !s.is_empty() {
            s.push(',');
        }
        s.push_str(t[i]);
        if j - i > 1 {
            // bucket the run length so that the number of distinct traces stays meaningful
            let n = j - i;
            let b = if n < 4 { n.to_string() } else if n < 16 { "4+".into() } else { "16+".into() };
            s.push_str(&format!("x{}", b));
        }
        groups += 1;
        i = j;
    }
    s
}

/// Run the real compiler on `spec` and judge the result.
pub fn run_graph_case(ctx: &mut Ctx, spec: &Spec, workload: &str, case_id: &str) -> CaseOut {
    if let Err(e) = spec.well_formed() {
        ctx.inconclusive(format!("generator produced a malformed spec ({}): {}", case_id, e));
        return CaseOut { outcome: "harness", trace: String::new(), merged_objects: 0 };
    }
    ctx.eval();
    ctx.count(&format!("{}:cases", workload), 1);
    let _ = hooks::take_trace();
    let objs_before = hooks::object_counter();
    let label = || format!("{} {}", case_id, spec.to_json());
    let res = ctx.run_case(&label, None, &|| dump_table(&spec.root()));
    let trace_v = hooks::take_trace();
    let objs = hooks::object_counter().saturating_sub(objs_before);
    let trace = compress_trace(&trace_v);
    ctx.distinct("stage_traces", fnv64(trace.as_bytes()));
    ctx.label("stage_traces", &trace);
    for st in ["kahn", "shortest_distance", "assign_spaces", "isolate_subgraph", "duplicate_subgraph"] {
        if trace_v.iter().any(|s| *s == st) {
            ctx.count(&format!("stage_reached:{}", st), 1);
        }
    }
    let beyond_kahn = trace_v.len() > 1;
    if spec.n_links() > 0 && beyond_kahn {
        ctx.nontrivial(spec.digest());
        ctx.count("nontrivial_cases", 1);
    }
    let mut merged_objects = 0usize;
    let outcome: &'static str = match res {
        Ok(Ok(bytes)) => match spec::resolve(spec, &bytes) {
            Ok(r) => {
                merged_objects = spec.nodes.len().saturating_sub(r.distinct_positions);
                ctx.count("outcome:success_all_offsets_resolved", 1);
                ctx.count("links_resolved", r.links_followed);
                if r.duplicates > 0 {
                    ctx.count("success_with_duplicated_objects", 1);
                    ctx.count("objects_duplicated_in_output", r.duplicates as u64);
                }
                if !r.exact_cover {
                    ctx.count("success_output_has_bytes_not_reached_from_root", 1);
                }
                if r.max_off16 > 0x7fff {
                    ctx.count("success_with_16bit_offset_above_32767", 1);
                }
                if r.max_off16 >= 65000 {
                    ctx.count("success_with_16bit_offset_ge_65000", 1);
                }
                if r.max_off32 > 0xffff || r.max_off24 > 0xffff {
                    ctx.count("success_with_wide_offset_above_65535", 1);
                }
                if r.lookups_promoted + r.lookups_not_promoted > 0 {
                    ctx.count("typed:lookups_found_promoted", r.lookups_promoted as u64);
                    ctx.count("typed:lookups_found_not_promoted", r.lookups_not_promoted as u64);
                    ctx.count("typed:extension_records_resolved", r.extension_records as u64);
                    if r.lookups_promoted > 0 {
                        ctx.count("typed:success_with_promotion", 1);
                    }
                    if r.promoted_sharing_across_types > 0 {
                        ctx.count("typed:success_with_subtable_shared_by_promoted_lookups_of_different_types", 1);
                    }
                    if r.shared_between_promoted_and_not {
                        ctx.count("typed:success_with_subtable_shared_by_a_promoted_and_a_non_promoted_lookup", 1);
                    }
                    if r.lookups_promoted > 0 && r.duplicates > 0 {
                        ctx.count("typed:success_with_promotion_and_duplication", 1);
                    }
                }
                if beyond_kahn {
                    ctx.count("success_after_kahn_overflowed", 1);
                    ctx.sample_by_kind(
                        if r.duplicates > 0 { "success-with-duplication" } else { "success-after-reordering" },
                        json!({"id": case_id, "spec": spec.to_json(), "trace": trace, "out_len": bytes.len(), "placements": r.placements}),
                    );
                }
                let _ = objs;
                "success"
            }
            Err(b) => {
                ctx.count("outcome:success_but_misresolved", 1);
                let sig = format!("misresolved:{}:{}", b.kind, case_id);
                ctx.violation(
                    &sig,
                    json!({"what": "dump_table returned Ok but an offset does not land on its target", "problem": b.detail, "kind": b.kind,
                           "workload": workload, "spec": spec.to_json(), "trace": trace, "out_len": bytes.len()}),
                    None,
                );
                "misresolved"
            }
        },
        Ok(Err(Error::PackingFailed(_))) => {
            ctx.count("outcome:packing_failed", 1);
            ctx.sample_by_kind("packing-failed", json!({"id": case_id, "spec": spec.to_json(), "trace": trace}));
            "packing_failed"
        }
        Ok(Err(e)) => {
            ctx.inconclusive(format!("unexpected error kind for {}: {}", case_id, e));
            "harness"
        }
        Err(p) => {
            judge_pack_panic(ctx, &p, spec, workload, case_id, &trace);
            "panic"
        }
    };
    CaseOut { outcome, trace, merged_objects }
}

/// Classes of the two open findings. Both are decided from (panic site,
/// message, stage trace) AND a structural predicate on the INPUT graph, so a
/// different panic, the same panic on a graph outside the class, or any
/// mis-resolved offset is still reported under a per-case signature.
fn known_class(p: &PanicInfo, spec: &Spec, trace: &str) -> Option<&'static str> {
    if !p.file.ends_with("write-fonts/src/graph.rs") {
        return None;
    }
    // defect 1: explicit panic at the end of sort_shortest_distance after duplication ran
    if p.msg == "cycle or something?"
        && trace.contains("duplicate_subgraph")
        && trace.ends_with("shortest_distance")
        && spec.has_mixed_root_with_shared_descendant()
    {
        return Some(KNOWN_CLASS);
    }
    // defect 2: assert_eq!(parent_space, child space) in try_isolating_subgraphs,
    // reached only after a first isolation round
    if p.msg.starts_with("assertion `left == right` failed")
        && p.msg.contains("Space(")
        && trace.contains("isolate_subgraph")
        && trace.ends_with("shortest_distance")
        && spec.has_nested_wide_targets_with_shared_descendant()
    {
        return Some(KNOWN_CLASS_2);
    }
    None
}

fn judge_pack_panic(ctx: &mut Ctx, p: &PanicInfo, spec: &Spec, workload: &str, case_id: &str, trace: &str) {
    if !p.in_repo() {
        ctx.inconclusive(format!("harness panic {}:{} {}", p.file, p.line, p.msg));
        return;
    }
    ctx.count("outcome:panic", 1);
    ctx.count(&format!("panic_class:{}", p.class.as_str()), 1);
    // scratch builds (VF_REPO_DIR) report absolute paths: make the signature tree-independent
    let prefix = format!("{}/", vf_core::repo_dir());
    let file = p.file.strip_prefix(&prefix).unwrap_or(&p.file).to_string();
    let sig = match known_class(p, spec, trace) {
        Some(class) => {
            ctx.count(&format!("panic_in_known_class:{}", class), 1);
            ctx.sample_by_kind(&format!("panic:{}", class), json!({"id": case_id, "spec": spec.to_json(), "trace": trace, "line": p.line}));
            format!("pack-panic:{}:{}:{}", file, p.line, class)
        }
        None => format!("pack-panic:{}:{}:unclassified:{}", file, p.line, case_id),
    };
    ctx.violation(
        &sig,
        json!({"what": "dump_table panicked on an acyclic object graph instead of returning Ok/PackingFailed",
               "panic": {"file": p.file, "line": p.line, "msg": p.msg, "class": p.class.as_str()},
               "workload": workload, "case": case_id, "spec": spec.to_json(), "trace": trace}),
        None,
    );
}

// ---------------------------------------------------------------- (a) exhaustive

fn pairs(n: usize) -> Vec<(usize, usize)> {
    let mut v = vec![];
    for j in 1..n {
        for i in 0..j {
            v.push((i, j));
        }
    }
    v
}

const WIDTH_OF_STATE: [u8; 4] = [0, 2, 4, 3]; // state 0 = no edge; 1 = 16, 2 = 32, 3 = 24

/// Build the spec for edge-state digits `e` (one per pair, in `pairs(n)` order)
/// and size digits `s`. Returns None when some node has no parent.
fn exh_spec(n: usize, e: &[u8], s: &[u8], cache: &mut PayloadCache) -> Option<Spec> {
    let pr = pairs(n);
    let mut nodes = vec![NodeSpec::default(); n];
    let mut has_parent = vec![false; n];
    has_parent[0] = true;
    for (k, (i, j)) in pr.iter().enumerate() {
        if e[k] != 0 {
            has_parent[*j] = true;
            let pos = 4 + nodes[*i].links.iter().map(|l| l.width as u32).sum::<u32>();
            nodes[*i].links.push(Link { to: *j, width: WIDTH_OF_STATE[e[k] as usize], pos, adj: 0 });
        }
    }
    if has_parent.iter().any(|x| !*x) {
        return None;
    }
    for (i, nd) in nodes.iter_mut().enumerate() {
        nd.links.sort_by_key(|l| l.pos);
        let lb: u32 = nd.links.iter().map(|l| l.width as u32).sum();
        nd.size = SIZE_ALPHABET[s[i] as usize].max(4 + lb);
    }
    Some(Spec::new(nodes, Some(cache)))
}

fn digits(mut x: u64, base: u64, len: usize) -> Vec<u8> {
    let mut v = vec![0u8; len];
    for d in v.iter_mut() {
        *d = (x % base) as u8;
        x /= base;
    }
    v
}

fn dstr(v: &[u8]) -> String {
    v.iter().map(|d| (b'0' + d) as char).collect()
}

/// Does some plain topological order (no duplication) satisfy all widths?
/// Evidence only: how incomplete the heuristic is. n <= 5.
pub(crate) fn layout_exists(spec: &Spec) -> bool {
    let n = spec.nodes.len();
    let mut perm: Vec<usize> = (1..n).collect();
    let mut ok = false;
    permute(&mut perm, 0, &mut |p| {
        if ok {
            return;
        }
        let mut pos = vec![0u64; n];
        let mut cur = spec.nodes[0].size as u64;
        for &x in p.iter() {
            pos[x] = cur;
            cur += spec.nodes[x].size as u64;
        }
        for (i, nd) in spec.nodes.iter().enumerate() {
            for l in &nd.links {
                if pos[l.to] < pos[i] + l.adj as u64 {
                    return;
                }
                let v = pos[l.to] - pos[i] - l.adj as u64;
                let max = match l.width {
                    2 => 0xffffu64,
                    3 => 0xff_ffff,
                    _ => 0xffff_ffff,
                };
                if v > max {
                    return;
                }
            }
        }
        ok = true;
    });
    ok
}

fn permute(v: &mut Vec<usize>, k: usize, f: &mut dyn FnMut(&[usize])) {
    if k == v.len() {
        f(v);
        return;
    }
    for i in k..v.len() {
        v.swap(k, i);
        permute(v, k + 1, f);
        v.swap(k, i);
    }
}

fn exh_one(ctx: &mut Ctx, tag: &str, n: usize, e: &[u8], s: &[u8], cache: &mut PayloadCache) {
    let Some(spec) = exh_spec(n, e, s, cache) else { return };
    let id = format!("{}:n{}:e{}:s{}", tag, n, dstr(e), dstr(s));
    let out = run_graph_case(ctx, &spec, tag, &id);
    if out.outcome == "packing_failed" && layout_exists(&spec) {
        ctx.count("packing_failed_although_a_plain_topological_layout_exists(heuristic incompleteness, allowed)", 1);
    }
    if out.outcome == "panic" || out.outcome == "packing_failed" || out.outcome == "success" {
        ctx.count(&format!("{}:n{}:{}", tag, n, out.outcome), 1);
    }
}

fn exhaustive(ctx: &mut Ctx) {
    let mut cache = PayloadCache::default();
    let thorough = ctx.tier.is_thorough();
    let mut item = 0usize;
    let mut scope = vec![];
    // full spaces: widths {16,32} for n <= 4 (quick) / n <= 5 (thorough);
    // widths {16,24,32} for n <= 4 in both tiers.
    for (tag, base, nmax) in [("exh", 3u64, if thorough { 5usize } else { 4 }), ("exh24", 4u64, 4usize)] {
        for n in 1..=nmax {
            let m = n * (n - 1) / 2;
            let ne = base.pow(m as u32);
            let ns = 3u64.pow(n as u32);
            let mut shapes = 0u64;
            for ec in 0..ne {
                let e = digits(ec, base, m);
                if tag == "exh24" && !e.contains(&3) {
                    continue; // already covered by "exh"
                }
                // every node needs a parent
                let pr = pairs(n);
                let mut hp = vec![false; n];
                hp[0] = true;
                for (k, (_, j)) in pr.iter().enumerate() {
                    if e[k] != 0 {
                        hp[*j] = true;
                    }
                }
                if hp.iter().any(|x| !*x) {
                    continue;
                }
                shapes += 1;
                for sc in 0..ns {
                    item += 1;
                    if !ctx.mine(item) {
                        continue;
                    }
                    let s = digits(sc, 3, n);
                    exh_one(ctx, tag, n, &e, &s, &mut cache);
                }
            }
            scope.push(json!({"workload": tag, "nodes": n, "shapes": shapes, "size_vectors": ns, "cases": shapes * ns}));
        }
    }
    // small multigraphs: n <= 3, up to two parallel links per pair
    {
        // pair states: none, [16], [32], [16,16], [16,32], [32,16], [32,32]
        const ST: [&[u8]; 7] = [&[], &[2], &[4], &[2, 2], &[2, 4], &[4, 2], &[4, 4]];
        for n in 2..=3usize {
            let pr = pairs(n);
            let m = pr.len();
            let mut cases = 0u64;
            for ec in 0..7u64.pow(m as u32) {
                let e = digits(ec, 7, m);
                for sc in 0..3u64.pow(n as u32) {
                    let s = digits(sc, 3, n);
                    let mut nodes = vec![NodeSpec::default(); n];
                    let mut hp = vec![false; n];
                    hp[0] = true;
                    for (k, (i, j)) in pr.iter().enumerate() {
                        for w in ST[e[k] as usize] {
                            hp[*j] = true;
                            let pos = 4 + nodes[*i].links.iter().map(|l| l.width as u32).sum::<u32>();
                            nodes[*i].links.push(Link { to: *j, width: *w, pos, adj: 0 });
                        }
                    }
                    if hp.iter().any(|x| !*x) {
                        continue;
                    }
                    cases += 1;
                    item += 1;
                    if !ctx.mine(item) {
                        continue;
                    }
                    for (i, nd) in nodes.iter_mut().enumerate() {
                        let lb: u32 = nd.links.iter().map(|l| l.width as u32).sum();
                        nd.size = SIZE_ALPHABET[s[i] as usize].max(4 + lb);
                    }
                    let spec = Spec::new(nodes, Some(&mut cache));
                    let id = format!("exhmulti:n{}:e{}:s{}", n, dstr(&e), dstr(&s));
                    run_graph_case(ctx, &spec, "exhmulti", &id);
                }
            }
            scope.push(json!({"workload": "exhmulti", "nodes": n, "cases": cases}));
        }
    }
    // seeded samples of the spaces that are too large to enumerate in this tier
    let samples: Vec<(&str, u64, usize, u64)> = if thorough {
        vec![("smp24", 4, 5, 1_500_000)]
    } else {
        vec![("smp", 3, 5, 1_200_000), ("smp24", 4, 5, 300_000)]
    };
    for (tag, base, n, count) in samples {
        let m = n * (n - 1) / 2;
        for k in 0..count {
            item += 1;
            if !ctx.mine(item) {
                continue;
            }
            let mut r = Rng::derive(ctx.seed, tag, k);
            // draw until every node has a parent (rejection keeps the distribution uniform)
            let (e, s) = loop {
                let e: Vec<u8> = (0..m).map(|_| r.below(base) as u8).collect();
                let pr = pairs(n);
                let mut hp = vec![false; n];
                hp[0] = true;
                for (q, (_, j)) in pr.iter().enumerate() {
                    if e[q] != 0 {
                        hp[*j] = true;
                    }
                }
                if hp.iter().all(|x| *x) {
                    let s: Vec<u8> = (0..n).map(|_| r.below(3) as u8).collect();
                    break (e, s);
                }
            };
            exh_one(ctx, tag, n, &e, &s, &mut cache);
        }
        scope.push(json!({"workload": tag, "nodes": n, "sampled_cases": count}));
    }
    ctx.exhaustive = Some(thorough);
    ctx.extra.insert(
        "exhaustive_scope".into(),
        json!({"size_alphabet": SIZE_ALPHABET, "fully_enumerated": scope,
               "note": "ctx.exhaustive=true means: every labelled DAG shape with <= 5 nodes x widths {16,32} x size alphabet was run (thorough); quick enumerates <= 4 nodes fully ({16,24,32}) and samples 5-node graphs"}),
    );
}

// ---------------------------------------------------------------- (b) random DAGs

fn draw_size(r: &mut Rng, mode: u64, n: usize) -> u32 {
    match mode {
        0 => r.below(70001) as u32,
        1 => {
            if r.chance(1, 6) {
                r.range(30000, 70000) as u32
            } else {
                r.below(200) as u32
            }
        }
        2 => *r.pick(&[0u32, 1, 2, 10, 40000, 65530, 65534, 65535, 65536, 70000]),
        3 => {
            // the whole graph is near the 64 KiB limit
            let per = 65536 / n as i64;
            r.range((per - per / 4).max(0), per + per / 4 + 8) as u32
        }
        _ => {
            if r.chance(1, 3) {
                r.range(65500, 65560) as u32
            } else {
                r.below(3000) as u32
            }
        }
    }
}

fn draw_width(r: &mut Rng, mode: u64) -> u8 {
    match mode {
        0 => 2,
        1 => {
            if r.chance(1, 5) {
                4
            } else {
                2
            }
        }
        2 => *r.pick(&[2u8, 3, 4]),
        3 => {
            if r.chance(1, 5) {
                2
            } else {
                4
            }
        }
        4 => {
            if r.chance(1, 3) {
                3
            } else {
                2
            }
        }
        _ => {
            if r.bool() {
                2
            } else {
                4
            }
        }
    }
}

pub fn random_spec(r: &mut Rng) -> Spec {
    let n = match r.below(10) {
        0..=4 => r.range(2, 8) as usize,
        5..=7 => r.range(9, 20) as usize,
        _ => r.range(21, 40) as usize,
    };
    let size_mode = r.below(5);
    let width_mode = r.below(6);
    let share_num = *r.pick(&[0u64, 1, 3, 5]); // extra-parent probability /10
    let multi = r.chance(1, 3);
    let adjust = r.chance(1, 4);
    let layout_mode = r.below(3);
    let sizes: Vec<u32> = (0..n).map(|_| draw_size(r, size_mode, n)).collect();
    // out-links per node, with path accounting to bound the adapter's work
    let mut out: Vec<Vec<(usize, u8)>> = vec![vec![]; n];
    let mut paths = vec![0u64; n];
    paths[0] = 1;
    let mut total_paths = 1u64;
    let mut total_bytes = sizes[0] as u64;
    const MAX_PATHS: u64 = 3000;
    const MAX_BYTES: u64 = 20_000_000;
    for j in 1..n {
        // first parent: biased towards recent nodes (deep) or the root (flat)
        let first = match r.below(3) {
            0 => 0,
            1 => j - 1 - r.usize(j.min(3)),
            _ => r.usize(j),
        };
        let mut ps = vec![first];
        while ps.len() < 6 && r.chance(share_num, 10) {
            ps.push(r.usize(j));
        }
        if multi && r.chance(1, 4) {
            let p = *r.pick(&ps);
            ps.push(p);
        }
        if !multi {
            ps.sort_unstable();
            ps.dedup();
        }
        let mut pj = 0u64;
        for (k, p) in ps.iter().enumerate() {
            let add = paths[*p];
            let would = pj + add;
            if k > 0 && (total_paths + would > MAX_PATHS || total_bytes + would * sizes[j] as u64 > MAX_BYTES) {
                continue;
            }
            pj = would;
            out[*p].push((j, draw_width(r, width_mode)));
        }
        paths[j] = pj;
        total_paths += pj;
        total_bytes += pj * sizes[j] as u64;
    }
    let mut nodes = vec![];
    for i in 0..n {
        let mut ls = std::mem::take(&mut out[i]);
        r.shuffle(&mut ls);
        let lb: u32 = ls.iter().map(|l| l.1 as u32).sum();
        let size = sizes[i].max(lb);
        let slack = size - lb;
        // distribute the slack between the offset fields
        let mut cuts: Vec<u32> = match layout_mode {
            0 => vec![0; ls.len()],                                       // fields first
            1 => vec![slack; ls.len()],                                   // fields last
            _ => (0..ls.len()).map(|_| r.below(slack as u64 + 1) as u32).collect(), // scattered
        };
        cuts.sort_unstable();
        let mut links = vec![];
        let mut used = 0u32;
        for (k, (to, w)) in ls.iter().enumerate() {
            let pos = cuts[k] + used;
            used += *w as u32;
            links.push(Link { to: *to, width: *w, pos, adj: 0 });
        }
        nodes.push(NodeSpec { size, links });
    }
    if adjust {
        let leaf: Vec<bool> = nodes.iter().map(|n| n.links.is_empty()).collect();
        for nd in nodes.iter_mut() {
            let size = nd.size;
            for l in nd.links.iter_mut() {
                if leaf[l.to] && r.bool() {
                    l.adj = match r.below(4) {
                        0 => size,
                        1 => r.below(size.min(64) as u64 + 1) as u32,
                        _ => r.below(size as u64 + 1) as u32,
                    };
                }
            }
        }
    }
    Spec::new(nodes, None)
}

fn random_graphs(ctx: &mut Ctx) {
    let count: u64 = ctx.tier.pick(200_000, 2_500_000);
    for k in 0..count {
        if !ctx.mine(k as usize) {
            continue;
        }
        let mut r = Rng::derive(ctx.seed, "c05-rand", k);
        let spec = random_spec(&mut r);
        let id = format!("rand:seed{}:i{}", ctx.seed, k);
        let out = run_graph_case(ctx, &spec, "rand", &id);
        if out.outcome == "success" || out.outcome == "packing_failed" || out.outcome == "panic" {
            let n = spec.nodes.len();
            let bucket = if n <= 8 { "2-8" } else if n <= 20 { "9-20" } else { "21-40" };
            ctx.count(&format!("rand:nodes_{}:{}", bucket, out.outcome), 1);
            if spec.has_sharing() {
                ctx.count("rand:with_shared_objects", 1);
            }
            if spec.has_multilink() {
                ctx.count("rand:with_multi_links", 1);
            }
            if spec.has_adjustment() {
                ctx.count("rand:with_adjustments", 1);
            }
            if spec.total_size() > 65535 {
                ctx.count("rand:total_size_above_64k", 1);
            }
            let mut d = Digest::new();
            d.u64(n as u64);
            d.u64(spec.n_links() as u64);
            ctx.distinct("rand:distinct_(nodes,links)", d.finish());
        }
    }
}

// ---------------------------------------------------------------- replay

fn replay(ctx: &mut Ctx, _args: &Args, rec: &Value, _bytes: Option<&[u8]>) {
    let d = &rec["detail"];
    if let Some(spec) = Spec::from_json(&d["spec"]) {
        let id = d["case"].as_str().unwrap_or("replay").to_string();
        let out = run_graph_case(ctx, &spec, "replay", &id);
        eprintln!("replay {}: outcome={} trace={}", id, out.outcome, out.trace);
    } else if d["recipe"]["kshared"].is_u64() {
        shared::replay(ctx, &d["recipe"]);
    } else if d["recipe"]["kdev"].is_u64() {
        gposdev::replay(ctx, &d["recipe"]);
    } else if d["recipe"].is_object() {
        gpos::replay(ctx, &d["recipe"]);
    } else {
        ctx.inconclusive("replay record carries neither a graph spec nor a GPOS recipe");
    }
}
