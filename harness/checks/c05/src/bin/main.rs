fn main() {
    vf_core::main_with("C05", vf_c05::run, vf_c05::REPLAY);
}
