//! Developer tool (not used by the check): greedy minimiser for a graph case.
//! usage: c05min <replay.json | spec.json>
use vf_c05::spec::{NodeSpec, Spec};
use write_fonts::dump_table;

fn outcome(spec: &Spec) -> String {
    if spec.well_formed().is_err() {
        return "malformed".into();
    }
    match vf_core::guard(|| dump_table(&spec.root())) {
        Ok(Ok(b)) => match vf_c05::spec::resolve(spec, &b) {
            Ok(_) => "ok".into(),
            Err(e) => format!("misresolved:{}", e.kind),
        },
        Ok(Err(_)) => "failed".into(),
        Err(p) => format!("panic:{}:{}", p.file, p.line),
    }
}

/// drop unreachable nodes and renumber
fn prune(nodes: &[NodeSpec]) -> Vec<NodeSpec> {
    let n = nodes.len();
    let mut reach = vec![false; n];
    let mut st = vec![0];
    while let Some(x) = st.pop() {
        if std::mem::replace(&mut reach[x], true) {
            continue;
        }
        for l in &nodes[x].links {
            st.push(l.to);
        }
    }
    let mut map = vec![usize::MAX; n];
    let mut k = 0;
    for i in 0..n {
        if reach[i] {
            map[i] = k;
            k += 1;
        }
    }
    let mut out = vec![];
    for i in 0..n {
        if reach[i] {
            let mut nd = nodes[i].clone();
            for l in nd.links.iter_mut() {
                l.to = map[l.to];
            }
            out.push(nd);
        }
    }
    out
}

fn relayout(nodes: &mut [NodeSpec]) {
    for nd in nodes.iter_mut() {
        let mut pos = 0;
        for l in nd.links.iter_mut() {
            l.pos = pos;
            pos += l.width as u32;
        }
        nd.size = nd.size.max(pos);
    }
}

fn main() {
    let path = std::env::args().nth(1).expect("path");
    let v: serde_json::Value = serde_json::from_slice(&std::fs::read(path).unwrap()).unwrap();
    let sv = if v["detail"]["spec"].is_object() { v["detail"]["spec"].clone() } else { v };
    let spec = Spec::from_json(&sv).expect("spec");
    let want = outcome(&spec);
    eprintln!("target outcome: {}", want);
    let mut cur: Vec<NodeSpec> = spec.nodes.clone();
    loop {
        let mut changed = false;
        // remove links
        let mut i = 0;
        while i < cur.len() {
            let mut k = 0;
            while k < cur[i].links.len() {
                let mut t = cur.clone();
                t[i].links.remove(k);
                let t = prune(&t);
                if outcome(&Spec::new(t.clone(), None)) == want {
                    cur = t;
                    changed = true;
                    if i >= cur.len() {
                        break;
                    }
                } else {
                    k += 1;
                }
            }
            i += 1;
        }
        // remove whole nodes (all links into them)
        let mut x = 1;
        while x < cur.len() {
            let mut t = cur.clone();
            for nd in t.iter_mut() {
                nd.links.retain(|l| l.to != x);
            }
            let t = prune(&t);
            if t.len() < cur.len() && outcome(&Spec::new(t.clone(), None)) == want {
                cur = t;
                changed = true;
            } else {
                x += 1;
            }
        }
        // bypass a node: parents link to its children instead
        let mut x = 1;
        while x < cur.len() {
            let kids: Vec<_> = cur[x].links.clone();
            if kids.len() == 1 {
                let mut t = cur.clone();
                for nd in t.iter_mut() {
                    for l in nd.links.iter_mut() {
                        if l.to == x {
                            l.to = kids[0].to;
                        }
                    }
                }
                let t = prune(&t);
                if t.len() < cur.len() && outcome(&Spec::new(t.clone(), None)) == want {
                    cur = t;
                    changed = true;
                    continue;
                }
            }
            x += 1;
        }
        // drop adjustments, put link fields first
        {
            let mut t = cur.clone();
            for nd in t.iter_mut() {
                for l in nd.links.iter_mut() {
                    l.adj = 0;
                }
            }
            relayout(&mut t);
            if t != cur && outcome(&Spec::new(t.clone(), None)) == want {
                cur = t;
                changed = true;
            }
        }
        // shrink sizes
        for i in 0..cur.len() {
            for cand in [0u32, 10, 100, 1000, 10000, 40000, 65530] {
                let lb: u32 = cur[i].links.iter().map(|l| l.pos + l.width as u32).max().unwrap_or(0);
                let c = cand.max(lb);
                if c >= cur[i].size {
                    continue;
                }
                let mut t = cur.clone();
                t[i].size = c;
                if outcome(&Spec::new(t.clone(), None)) == want {
                    cur = t;
                    changed = true;
                    break;
                }
            }
        }
        // narrow widths 32->16 is a semantic change; try 24->16 and 24->32 only
        for i in 0..cur.len() {
            for k in 0..cur[i].links.len() {
                if cur[i].links[k].width == 3 {
                    for w in [2u8, 4] {
                        let mut t = cur.clone();
                        t[i].links[k].width = w;
                        relayout(&mut t);
                        if outcome(&Spec::new(t.clone(), None)) == want {
                            cur = t;
                            changed = true;
                            break;
                        }
                    }
                }
            }
        }
        if !changed {
            break;
        }
    }
    let s = Spec::new(cur, None);
    println!("{}", s.to_json());
    println!("known-class predicate: {}", s.has_mixed_root_with_shared_descendant());
}
