//! Abstract object-graph specs, the `FontWrite` adapter that feeds them to the
//! real compiler through the public API, and the independent resolver.
//!
//! The resolver knows nothing of the packer's order: it starts at byte 0 (the
//! root object) and follows every link of the *input* spec through the
//! *output* bytes.

use std::collections::{HashMap, HashSet};
use std::rc::Rc;

use serde_json::{json, Value};
use vf_core::Digest;
use write_fonts::tables::layout::{Lookup, LookupFlag, LookupSubtable, LookupType};
use write_fonts::{validate::Validate, validate::ValidationCtx, FontWrite, OffsetMarker, TableWriter};

#[derive(Clone, Debug, PartialEq, Eq)]
pub struct Link {
    pub to: usize,
    /// 2, 3 or 4 bytes
    pub width: u8,
    /// position of the offset field inside the parent
    pub pos: u32,
    /// offset adjustment: value written = target_pos - (parent_pos + adj)
    pub adj: u32,
}

#[derive(Clone, Debug, Default, PartialEq, Eq)]
pub struct NodeSpec {
    /// total byte size of the object (offset fields included)
    pub size: u32,
    /// sorted by `pos`, non-overlapping, `pos + width <= size`
    pub links: Vec<Link>,
}

/// Node 0 is the root. Acyclic: every link goes from a lower to a higher index.
#[derive(Clone, Debug)]
pub struct Spec {
    pub nodes: Vec<NodeSpec>,
    payload: Vec<Rc<Vec<u8>>>,
    rep_cache: std::cell::OnceCell<Vec<usize>>,
    /// per node: `Some((is_gsub, lookup type))` when the object is handed to the compiler as a
    /// GSUB / GPOS *lookup* (`FontWrite::table_type`), so that the compiler may promote it to an
    /// extension lookup. Empty = no typed nodes. The first two payload bytes of a typed node are
    /// its lookup type: the node is written as a real `layout::Lookup` (type, flag 0, count, offsets).
    pub lookup_types: Vec<Option<(bool, u16)>>,
    /// payloads were supplied by the generator (near-twin workload) instead of `make_payload`;
    /// they are then part of the JSON form so that a replay rebuilds the same objects
    pub custom_payload: bool,
}

pub const GSUB_EXT: u16 = 7;
pub const GPOS_EXT: u16 = 9;

/// Payload of node `id` with total size `size`: a 4-byte header (id, 24-bit
/// length) followed by a filler in which every byte depends on id and position.
pub fn make_payload(id: usize, size: u32) -> Vec<u8> {
    let n = size as usize;
    let mut v = Vec::with_capacity(n);
    let hdr = [id as u8 ^ 0xC5, (size >> 16) as u8, (size >> 8) as u8, size as u8];
    let k = (id as u32).wrapping_mul(0x9E37_79B1) | 1;
    let m = (2 * id as u32 + 3) & 0xff;
    for i in 0..n {
        if i < 4 {
            v.push(hdr[i]);
        } else {
            let i = i as u32;
            // never 0xff-runs of placeholder-like bytes only by chance; not required
            v.push(((i.wrapping_mul(m)) ^ (i >> 8).wrapping_mul(k) ^ (k >> 24)) as u8);
        }
    }
    v
}

/// Cache of payloads for the exhaustive enumeration (few (id,size) pairs).
#[derive(Default)]
pub struct PayloadCache {
    map: HashMap<(usize, u32), Rc<Vec<u8>>>,
}

impl PayloadCache {
    pub fn get(&mut self, id: usize, size: u32) -> Rc<Vec<u8>> {
        if self.map.len() > 4096 {
            self.map.clear();
        }
        self.map
            .entry((id, size))
            .or_insert_with(|| Rc::new(make_payload(id, size)))
            .clone()
    }
}

impl Spec {
    pub fn new(nodes: Vec<NodeSpec>, cache: Option<&mut PayloadCache>) -> Spec {
        let payload = match cache {
            Some(c) => nodes.iter().enumerate().map(|(i, n)| c.get(i, n.size)).collect(),
            None => nodes
                .iter()
                .enumerate()
                .map(|(i, n)| Rc::new(make_payload(i, n.size)))
                .collect(),
        };
        Spec { nodes, payload, rep_cache: Default::default(), lookup_types: vec![], custom_payload: false }
    }

    /// Spec whose payload bytes are chosen by the generator (one byte string per node, of the
    /// node's size; the bytes under the offset fields are ignored). Used by the near-twin
    /// workload, where DIFFERENT nodes deliberately carry identical bytes.
    pub fn with_payloads(nodes: Vec<NodeSpec>, payloads: Vec<Vec<u8>>) -> Spec {
        let payload = payloads.into_iter().map(Rc::new).collect();
        Spec { nodes, payload, rep_cache: Default::default(), lookup_types: vec![], custom_payload: true }
    }

    pub fn payload_of(&self, idx: usize) -> &[u8] {
        &self.payload[idx]
    }

    /// Mark nodes as GSUB / GPOS lookups (see `lookup_types`); writes the type into the
    /// first two payload bytes.
    pub fn with_lookup_types(mut self, types: Vec<Option<(bool, u16)>>) -> Spec {
        for (i, t) in types.iter().enumerate() {
            if let Some((_, ty)) = t {
                if let Some(p) = self.payload.get_mut(i) {
                    // the bytes `layout::Lookup` writes: lookupType, lookupFlag 0, subTableCount
                    let n = self.nodes[i].links.len() as u16;
                    let v = Rc::make_mut(p);
                    if v.len() >= 6 {
                        v[..6].copy_from_slice(&[(*ty >> 8) as u8, *ty as u8, 0, 0, (n >> 8) as u8, n as u8]);
                    }
                }
            }
        }
        self.lookup_types = types;
        self.rep_cache = Default::default();
        self
    }

    pub fn lookup_type(&self, idx: usize) -> Option<(bool, u16)> {
        self.lookup_types.get(idx).copied().flatten()
    }

    pub fn has_typed_nodes(&self) -> bool {
        self.lookup_types.iter().any(|t| t.is_some())
    }

    /// Generator self-check (harness invariant, not a property of the library).
    pub fn well_formed(&self) -> Result<(), String> {
        if self.nodes.is_empty() {
            return Err("empty".into());
        }
        if self.payload.len() != self.nodes.len() || self.nodes.iter().zip(&self.payload).any(|(n, p)| p.len() != n.size as usize) {
            return Err("payload length differs from node size".into());
        }
        if !self.lookup_types.is_empty() {
            if self.lookup_types.len() != self.nodes.len() {
                return Err("lookup_types length".into());
            }
            // all lookups hang under exactly one parent (the lookup list), carry their type in
            // the first two bytes, and have plain 16-bit subtable links after it
            let mut parent_of_typed: Option<usize> = None;
            for (i, n) in self.nodes.iter().enumerate() {
                for l in &n.links {
                    if self.lookup_type(l.to).is_some() {
                        if parent_of_typed.is_some_and(|p| p != i) {
                            return Err("lookups with more than one parent".into());
                        }
                        parent_of_typed = Some(i);
                    }
                }
                if let Some((gsub, ty)) = self.lookup_type(i) {
                    // exactly the layout of a Lookup table without mark filtering set
                    if n.size as usize != 6 + 2 * n.links.len() || n.links.iter().enumerate().any(|(k, l)| l.pos as usize != 6 + 2 * k || l.adj != 0 || l.width != 2) {
                        return Err("typed node layout".into());
                    }
                    if ty == 0 || (gsub && (ty >= 9 || ty == GSUB_EXT)) || (!gsub && (ty >= 10 || ty == GPOS_EXT || ty == 2 || ty == 4)) {
                        // GPOS 2 / 4 are splittable: the compiler would parse the (mock) subtable bytes
                        return Err("lookup type not usable for a mock lookup".into());
                    }
                    if n.links.iter().any(|l| self.lookup_type(l.to).is_some()) {
                        return Err("lookup links to lookup".into());
                    }
                }
            }
        }
        let mut has_parent = vec![false; self.nodes.len()];
        has_parent[0] = true;
        for (i, n) in self.nodes.iter().enumerate() {
            let mut cur = 0u32;
            for l in &n.links {
                if l.to <= i || l.to >= self.nodes.len() {
                    return Err(format!("link {}->{} not forward", i, l.to));
                }
                if !matches!(l.width, 2 | 3 | 4) {
                    return Err("width".into());
                }
                if l.pos < cur || l.pos + l.width as u32 > n.size {
                    return Err(format!("link field of {} at {} overlaps/out of object", i, l.pos));
                }
                if l.adj > n.size {
                    return Err("adjustment beyond parent".into());
                }
                if l.adj != 0 && !self.nodes[l.to].links.is_empty() {
                    return Err("adjusted link to non-leaf".into());
                }
                cur = l.pos + l.width as u32;
                has_parent[l.to] = true;
            }
        }
        if has_parent.iter().any(|x| !*x) {
            return Err("unreachable node".into());
        }
        Ok(())
    }

    pub fn n_links(&self) -> usize {
        self.nodes.iter().map(|n| n.links.len()).sum()
    }
    pub fn total_size(&self) -> u64 {
        self.nodes.iter().map(|n| n.size as u64).sum()
    }
    /// number of object serialisations the adapter will perform (root paths)
    pub fn write_cost(&self) -> (u64, u64) {
        let mut paths = vec![0u64; self.nodes.len()];
        paths[0] = 1;
        let mut bytes = 0u64;
        let mut total = 0u64;
        for (i, n) in self.nodes.iter().enumerate() {
            let p = paths[i];
            total = total.saturating_add(p);
            bytes = bytes.saturating_add(p.saturating_mul(n.size as u64));
            for l in &n.links {
                paths[l.to] = paths[l.to].saturating_add(p);
            }
        }
        (total, bytes)
    }

    pub fn digest(&self) -> u64 {
        let mut d = Digest::new();
        for n in &self.nodes {
            d.u32(n.size);
            d.u32(n.links.len() as u32);
            for l in &n.links {
                d.u32(l.to as u32);
                d.u32(l.width as u32);
                d.u32(l.pos);
                d.u32(l.adj);
            }
        }
        for (i, t) in self.lookup_types.iter().enumerate() {
            if let Some((g, ty)) = t {
                d.u32(i as u32);
                d.u32(*g as u32);
                d.u32(*ty as u32);
            }
        }
        d.finish()
    }

    pub fn to_json(&self) -> Value {
        let sizes: Vec<u32> = self.nodes.iter().map(|n| n.size).collect();
        let mut links = vec![];
        for (i, n) in self.nodes.iter().enumerate() {
            for l in &n.links {
                links.push(json!([i, l.to, l.width as u32 * 8, l.pos, l.adj]));
            }
        }
        if self.has_typed_nodes() {
            let typed: Vec<Value> = self.lookup_types.iter().enumerate().filter_map(|(i, t)| t.map(|(g, ty)| json!([i, if g { "GSUB" } else { "GPOS" }, ty]))).collect();
            return json!({"sizes": sizes, "links_from_to_bits_pos_adj": links, "lookups_node_table_type": typed});
        }
        if self.custom_payload {
            let pl: Vec<String> = self.payload.iter().map(|p| vf_core::hex(p)).collect();
            return json!({"sizes": sizes, "links_from_to_bits_pos_adj": links, "payloads_hex": pl});
        }
        json!({"sizes": sizes, "links_from_to_bits_pos_adj": links})
    }

    pub fn from_json(v: &Value) -> Option<Spec> {
        let sizes = v["sizes"].as_array()?;
        let mut nodes: Vec<NodeSpec> = sizes
            .iter()
            .map(|s| NodeSpec { size: s.as_u64().unwrap_or(0) as u32, links: vec![] })
            .collect();
        for l in v["links_from_to_bits_pos_adj"].as_array()? {
            let a = l.as_array()?;
            let g = |i: usize| a.get(i).and_then(|x| x.as_u64());
            let from = g(0)? as usize;
            if from >= nodes.len() {
                return None;
            }
            nodes[from].links.push(Link {
                to: g(1)? as usize,
                width: (g(2)? / 8) as u8,
                pos: g(3)? as u32,
                adj: g(4)? as u32,
            });
        }
        if let Some(pl) = v["payloads_hex"].as_array() {
            let mut payloads = vec![];
            for h in pl {
                let h = h.as_str()?.as_bytes();
                let mut b = Vec::with_capacity(h.len() / 2);
                for c in h.chunks(2) {
                    b.push(u8::from_str_radix(std::str::from_utf8(c).ok()?, 16).ok()?);
                }
                payloads.push(b);
            }
            return Some(Spec::with_payloads(nodes, payloads));
        }
        let spec = Spec::new(nodes, None);
        if let Some(typed) = v["lookups_node_table_type"].as_array() {
            let mut types = vec![None; spec.nodes.len()];
            for t in typed {
                let a = t.as_array()?;
                let i = a.first()?.as_u64()? as usize;
                if i >= types.len() {
                    return None;
                }
                types[i] = Some((a.get(1)?.as_str()? == "GSUB", a.get(2)?.as_u64()? as u16));
            }
            return Some(spec.with_lookup_types(types));
        }
        Some(spec)
    }

    pub fn root(&self) -> NodeW<'_> {
        NodeW { spec: self, idx: 0 }
    }

    // ---- structural predicates used for evidence and for the known-defect classes
    //
    // Objects with identical content (bytes outside the offset fields, and
    // offset fields pointing to identical objects) are ONE object for the
    // compiler. `rep` maps every node to the first node with equal content;
    // the predicates below work on these merged objects.

    fn rep(&self) -> Vec<usize> {
        self.rep_cache.get_or_init(|| self.compute_rep()).clone()
    }

    fn compute_rep(&self) -> Vec<usize> {
        let n = self.nodes.len();
        let mut rep: Vec<usize> = (0..n).collect();
        // children have higher indices: settle them first
        for i in (0..n).rev() {
            for j in (i + 1)..n {
                if rep[j] != j || self.nodes[i].size != self.nodes[j].size || self.nodes[i].links.len() != self.nodes[j].links.len() {
                    continue;
                }
                let (a, b) = (&self.nodes[i], &self.nodes[j]);
                let same_links = a.links.iter().zip(&b.links).all(|(x, y)| {
                    x.pos == y.pos && x.width == y.width && x.adj == y.adj && rep[x.to] == rep[y.to]
                });
                if !same_links {
                    continue;
                }
                let (pa, pb) = (&self.payload[i], &self.payload[j]);
                let mut cur = 0usize;
                let mut same = true;
                for l in &a.links {
                    same &= pa[cur..l.pos as usize] == pb[cur..l.pos as usize];
                    cur = (l.pos + l.width as u32) as usize;
                }
                same &= pa[cur..] == pb[cur..];
                if same {
                    // j > i: keep the smaller index as representative
                    for r in rep.iter_mut() {
                        if *r == j {
                            *r = i;
                        }
                    }
                }
            }
        }
        rep
    }

    fn parents_with(&self, rep: &[usize]) -> Vec<Vec<(usize, u8)>> {
        let mut p = vec![vec![]; self.nodes.len()];
        for (i, n) in self.nodes.iter().enumerate() {
            if rep[i] != i {
                continue; // a merged copy: its links are its representative's links
            }
            for l in &n.links {
                p[rep[l.to]].push((i, l.width));
            }
        }
        p
    }

    fn parents(&self) -> Vec<Vec<(usize, u8)>> {
        self.parents_with(&self.rep())
    }

    /// descendants-or-self of `r`
    fn subgraph(&self, r: usize) -> Vec<bool> {
        let rep = self.rep();
        let mut seen = vec![false; self.nodes.len()];
        let mut st = vec![rep[r]];
        while let Some(x) = st.pop() {
            if std::mem::replace(&mut seen[x], true) {
                continue;
            }
            for l in &self.nodes[x].links {
                st.push(rep[l.to]);
            }
        }
        seen
    }

    /// does `r` have a proper descendant with a parent outside `r`'s subgraph?
    fn has_descendant_shared_with_outside(&self, r: usize, parents: &[Vec<(usize, u8)>]) -> bool {
        let sub = self.subgraph(r);
        (0..self.nodes.len()).any(|d| d != r && sub[d] && parents[d].iter().any(|(p, _)| !sub[*p]))
    }

    /// Structural class of known defect 1 ("orphaned duplicate of a space root",
    /// graph.rs isolate_subgraph_hb re-links the wide parents of a duplicated
    /// root through the duplicate's empty parent list):
    ///
    /// there is an object R that is the target of at least one 32-bit link AND
    /// of at least one 16-bit link (when R becomes the root of a 32-bit space it
    /// is duplicated so that the 16-bit parent keeps the original), and a proper
    /// descendant D of R that has a parent outside R's subgraph (D's duplicate
    /// keeps one live parent while its other parent, the duplicate of R, is
    /// never linked in, so the sort never sees all of D's incoming edges).
    pub fn has_mixed_root_with_shared_descendant(&self) -> bool {
        let parents = self.parents();
        let rep = self.rep();
        (1..self.nodes.len()).any(|r| {
            rep[r] == r
                && parents[r].iter().any(|(_, w)| *w == 4)
                && parents[r].iter().any(|(_, w)| *w == 2)
                && self.has_descendant_shared_with_outside(r, &parents)
        })
    }

    /// Structural class of known defect 2 ("links between nested space roots
    /// are counted twice", graph.rs isolate_subgraph_hb / find_subgraph_map_hb):
    ///
    /// there are two objects R1 != R2 that are both targets of 32-bit links, R2
    /// is a proper descendant of R1, and a descendant of R1 at or below R2 is
    /// shared with the outside: either R2 itself also has a 16-bit parent, or a
    /// proper descendant D of R2 has a parent outside R2's subgraph. When R1
    /// and R2 are isolated together, R2's wide incoming link from inside the
    /// set is counted both as "wide" and as "internal" and the links leaving
    /// R2 are visited twice; the shared object's outside parent goes
    /// unnoticed, it is moved to the new space without being duplicated, and
    /// the space invariant asserted in try_isolating_subgraphs breaks.
    pub fn has_nested_wide_targets_with_shared_descendant(&self) -> bool {
        let parents = self.parents();
        let rep = self.rep();
        let wide: Vec<usize> = (1..self.nodes.len())
            .filter(|r| rep[*r] == *r && parents[*r].iter().any(|(_, w)| *w == 4))
            .collect();
        wide.iter().any(|r2| {
            (parents[*r2].iter().any(|(_, w)| *w == 2) || self.has_descendant_shared_with_outside(*r2, &parents))
                && wide.iter().any(|r1| r1 != r2 && self.subgraph(*r1)[*r2])
        })
    }

    pub fn has_sharing(&self) -> bool {
        let id: Vec<usize> = (0..self.nodes.len()).collect();
        self.parents_with(&id).iter().any(|p| p.len() > 1)
    }
    pub fn has_multilink(&self) -> bool {
        self.nodes.iter().any(|n| {
            let mut t: Vec<usize> = n.links.iter().map(|l| l.to).collect();
            t.sort_unstable();
            t.windows(2).any(|w| w[0] == w[1])
        })
    }
    pub fn has_adjustment(&self) -> bool {
        self.nodes.iter().any(|n| n.links.iter().any(|l| l.adj != 0))
    }
}

/// `FontWrite` adapter: node `idx` of `spec`.
pub struct NodeW<'a> {
    spec: &'a Spec,
    idx: usize,
}

impl FontWrite for NodeW<'_> {
    fn write_into(&self, w: &mut TableWriter) {
        let n = &self.spec.nodes[self.idx];
        let p = &self.spec.payload[self.idx];
        let mut cur = 0usize;
        for l in &n.links {
            let pos = l.pos as usize;
            w.write_slice(&p[cur..pos]);
            let child = NodeW { spec: self.spec, idx: l.to };
            if let Some((g, ty)) = self.spec.lookup_type(l.to) {
                // a lookup: handed to the compiler as a real `layout::Lookup` of that type
                write_lookup(w, self.spec, l.to, g, ty, l.width as usize);
            } else if l.adj != 0 {
                // only used for links to leaf objects (see Spec::well_formed):
                // the adjustment in force is read *after* the child has been
                // written and is inherited by the child's own links.
                w.verif_adjust_offsets(l.adj, |w| w.write_offset(&child, l.width as usize));
            } else {
                w.write_offset(&child, l.width as usize);
            }
            cur = pos + l.width as usize;
        }
        w.write_slice(&p[cur..]);
    }
}

/// Subtable of a mock lookup: node `idx` of `spec`, written like any other node. The const
/// parameters attach the lookup type (`LookupSubtable::TYPE`), which is how the compiler learns
/// that the parent `layout::Lookup` is a promotable GSUB / GPOS lookup.
pub struct MockSub<'a, const G: bool, const T: u16> {
    spec: &'a Spec,
    idx: usize,
}

impl<const G: bool, const T: u16> LookupSubtable for MockSub<'_, G, T> {
    const TYPE: LookupType = if G { LookupType::Gsub(T) } else { LookupType::Gpos(T) };
}

impl<const G: bool, const T: u16> FontWrite for MockSub<'_, G, T> {
    fn write_into(&self, w: &mut TableWriter) {
        NodeW { spec: self.spec, idx: self.idx }.write_into(w)
    }
}

fn write_lookup_as<const G: bool, const T: u16>(w: &mut TableWriter, spec: &Spec, idx: usize, width: usize) {
    let lk: Lookup<MockSub<G, T>> = Lookup {
        lookup_flag: LookupFlag::empty(),
        subtables: spec.nodes[idx].links.iter().map(|l| OffsetMarker::new(MockSub { spec, idx: l.to })).collect(),
        mark_filtering_set: None,
    };
    w.write_offset(&lk, width);
}

fn write_lookup(w: &mut TableWriter, spec: &Spec, idx: usize, gsub: bool, ty: u16, width: usize) {
    macro_rules! go {
        ($($g:literal $t:literal),*) => {
            match (gsub, ty) {
                $(($g, $t) => write_lookup_as::<$g, $t>(w, spec, idx, width),)*
                _ => {} // excluded by Spec::well_formed
            }
        };
    }
    go!(true 1, true 2, true 3, true 4, true 5, true 6, true 8, false 1, false 3, false 5, false 6, false 7, false 8);
}

impl Validate for NodeW<'_> {
    fn validate_impl(&self, _ctx: &mut ValidationCtx) {}
}

// ---------------------------------------------------------------- resolver

#[derive(Clone, Debug, Default)]
pub struct Resolved {
    /// distinct (node, position) placements reached from the root
    pub placements: usize,
    /// distinct output positions among the placements (fewer than nodes = the compiler merged objects)
    pub distinct_positions: usize,
    /// placements - distinct nodes reached (copies made by the packer)
    pub duplicates: usize,
    pub links_followed: u64,
    /// sum of sizes of the distinct placements == output length
    pub exact_cover: bool,
    pub max_off16: u32,
    pub max_off24: u32,
    pub max_off32: u32,
    /// typed (lookup) placements found promoted to extension lookups / left as they were
    pub lookups_promoted: usize,
    pub lookups_not_promoted: usize,
    /// distinct 8-byte extension records reached
    pub extension_records: usize,
    /// promoted lookups whose subtable is also referenced by a lookup of another type
    pub promoted_sharing_across_types: usize,
    /// some object is placed both below a promoted and below a non-promoted lookup
    pub shared_between_promoted_and_not: bool,
}

#[derive(Clone, Debug)]
pub struct Bad {
    pub kind: &'static str,
    pub detail: Value,
}

fn bad(kind: &'static str, detail: Value) -> Bad {
    Bad { kind, detail }
}

/// Walk `spec` and `out` in lockstep from the root at offset 0.
pub fn resolve(spec: &Spec, out: &[u8]) -> Result<Resolved, Bad> {
    let mut seen: HashSet<(usize, u64)> = HashSet::new();
    let mut reached = vec![false; spec.nodes.len()];
    let mut stack: Vec<(usize, u64, usize, usize)> = vec![(0, 0, usize::MAX, 0)]; // node,pos,parent,link#
    let mut r = Resolved::default();
    let mut covered: u64 = 0;
    let mut ext_seen: HashSet<usize> = HashSet::new();
    let mut promoted_node: Vec<Option<bool>> = vec![None; spec.nodes.len()];
    while let Some((idx, pos, par, li)) = stack.pop() {
        if !seen.insert((idx, pos)) {
            continue;
        }
        let n = &spec.nodes[idx];
        let p = &spec.payload[idx];
        let end = pos + n.size as u64;
        if end > out.len() as u64 {
            return Err(bad(
                "target-out-of-bounds",
                json!({"node": idx, "at": pos, "size": n.size, "out_len": out.len(), "via_parent": par as i64, "via_link": li}),
            ));
        }
        let o = &out[pos as usize..end as usize];
        // a lookup: the first two bytes are its type, which the compiler may have replaced by
        // the extension type of its table (promotion); anything else is a wrong object
        let typed = spec.lookup_type(idx);
        let mut promoted = false;
        if let Some((gsub, ty)) = typed {
            let found = u16::from_be_bytes([o[0], o[1]]);
            let ext = if gsub { GSUB_EXT } else { GPOS_EXT };
            if found == ext {
                promoted = true;
                r.lookups_promoted += 1;
            } else if found == ty {
                r.lookups_not_promoted += 1;
            } else {
                return Err(bad(
                    "lookup-type-changed",
                    json!({"node": idx, "at": pos, "lookup_type_written": ty, "lookup_type_found": found, "extension_type": ext, "via_parent": par as i64, "via_link": li}),
                ));
            }
        }
        if typed.is_some() {
            promoted_node[idx] = Some(promoted);
        }
        // compare the payload outside the offset fields
        let mut cur = if typed.is_some() { 2usize } else { 0usize };
        let cmp = |a: usize, b: usize| -> Result<(), Bad> {
            if o[a..b] != p[a..b] {
                let k = (a..b).find(|&k| o[k] != p[k]).unwrap_or(a);
                return Err(bad(
                    "payload-mismatch",
                    json!({"node": idx, "at": pos, "first_diff_at": k, "expected": p[k], "found": o[k],
                           "found_header": vf_core::hex(&o[..o.len().min(8)]), "expected_header": vf_core::hex(&p[..p.len().min(8)]),
                           "via_parent": par as i64, "via_link": li}),
                ));
            }
            Ok(())
        };
        for l in &n.links {
            cmp(cur, l.pos as usize)?;
            cur = (l.pos + l.width as u32) as usize;
        }
        cmp(cur, n.size as usize)?;
        reached[idx] = true;
        covered += n.size as u64;
        // follow the links
        for (k, l) in n.links.iter().enumerate() {
            let f = &o[l.pos as usize..(l.pos + l.width as u32) as usize];
            let mut val: u64 = 0;
            for b in f {
                val = (val << 8) | *b as u64;
            }
            match l.width {
                2 => r.max_off16 = r.max_off16.max(val as u32),
                3 => r.max_off24 = r.max_off24.max(val as u32),
                _ => r.max_off32 = r.max_off32.max(val as u32),
            }
            let mut target = pos + l.adj as u64 + val;
            r.links_followed += 1;
            if promoted {
                // the link must land on an extension record made for THIS lookup:
                // format 1, extensionLookupType = the lookup's original type, Offset32 to the subtable
                let (_, ty) = typed.unwrap_or((true, 0));
                let e = target as usize;
                let Some(rec) = out.get(e..e + 8) else {
                    return Err(bad("extension-record-out-of-bounds", json!({"lookup_node": idx, "lookup_at": pos, "link": k, "record_at": e, "out_len": out.len()})));
                };
                let fmt = u16::from_be_bytes([rec[0], rec[1]]);
                let ety = u16::from_be_bytes([rec[2], rec[3]]);
                let off = u32::from_be_bytes([rec[4], rec[5], rec[6], rec[7]]);
                if fmt != 1 {
                    return Err(bad("extension-record-format", json!({"lookup_node": idx, "lookup_at": pos, "link": k, "record_at": e, "format_found": fmt, "record": vf_core::hex(rec)})));
                }
                if ety != ty {
                    return Err(bad(
                        "extension-type-differs",
                        json!({"lookup_node": idx, "lookup_at": pos, "link": k, "record_at": e, "lookup_type_written": ty, "extension_lookup_type_found": ety,
                               "subtable_node": l.to, "note": "the subtable of a promoted lookup is reached through an extension record that carries another lookup's type"}),
                    ));
                }
                if ext_seen.insert(e) {
                    covered += 8;
                }
                r.max_off32 = r.max_off32.max(off);
                target = e as u64 + off as u64;
            }
            stack.push((l.to, target, idx, k));
        }
    }
    if let Some(m) = reached.iter().position(|x| !*x) {
        // cannot happen when every node is reachable in the spec and all links
        // resolved, kept as a direct statement of "every reachable object is present"
        return Err(bad("reachable-object-absent", json!({"node": m})));
    }
    r.extension_records = ext_seen.len();
    if spec.has_typed_nodes() {
        // (subtable node) -> lookups linking to it
        let mut users: HashMap<usize, Vec<usize>> = HashMap::new();
        for (i, n) in spec.nodes.iter().enumerate() {
            if spec.lookup_type(i).is_some() {
                for l in &n.links {
                    let u = users.entry(l.to).or_default();
                    if !u.contains(&i) {
                        u.push(i);
                    }
                }
            }
        }
        for u in users.values() {
            for (a, i) in u.iter().enumerate() {
                for j in &u[a + 1..] {
                    let (pi, pj) = (promoted_node[*i], promoted_node[*j]);
                    if pi == Some(true) && pj == Some(true) && spec.lookup_type(*i) != spec.lookup_type(*j) {
                        r.promoted_sharing_across_types += 1;
                    }
                    if pi.is_some() && pj.is_some() && pi != pj {
                        r.shared_between_promoted_and_not = true;
                    }
                }
            }
        }
    }
    r.placements = seen.len();
    r.distinct_positions = seen.iter().map(|(_, p)| *p).collect::<HashSet<u64>>().len();
    r.duplicates = seen.len() - spec.nodes.len();
    r.exact_cover = covered == out.len() as u64;
    Ok(r)
}
