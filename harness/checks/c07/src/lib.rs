//! C07 — compilation is deterministic across threads, runs and unrelated
//! prior work (see /verif/DESIGN.md §3 "C07").
//!
//! Oracle: byte equality against a reference compiled once, single-threaded,
//! at the start of the process (object ids starting at 0), and equality of
//! the per-input digests across all processes of the run (the shards: every
//! shard compiles the same canonical inputs; `<out dir>/C07.digests.*` files
//! are compared by every shard when it finishes).
//!
//! Schedules: repetition; histories of k unrelated compilations; object-id
//! counter jumps (hook `bump_object_counter`) between compilations, so that a
//! compilation straddles multiples of 2^16/2^24/2^31/2^32/.../2^56 and 2^63;
//! 16 threads released from a barrier compiling the same / mixed values with
//! seeded yields, with and without a sidecar thread that jumps the counter
//! *during* the compilations.
mod inputs;
mod ties;

use inputs::Input;
use serde_json::{json, Value};
use std::collections::BTreeMap;
use std::path::{Path, PathBuf};
use std::sync::atomic::{AtomicBool, AtomicU64, Ordering};
use std::sync::{Arc, Barrier};
use vf_core::{fnv64, Args, Ctx, Digest, PanicInfo, PanicPolicy, Rng};
use write_fonts::verif_graph_hooks as hooks;

pub const REPLAY: Option<fn(&mut Ctx, &Args, &Value, Option<&[u8]>)> = None;

const N_THREADS: usize = 16;

// ------------------------------------------------------------ one compilation

enum Out {
    Bytes(Vec<u8>),
    Err(String),
    Panic(PanicInfo),
}

struct Run {
    out: Out,
    start: u64,
    end: u64,
    trace: String,
}

fn compress_trace(t: &[&'static str]) -> String {
    let mut s = String::new();
    let mut i = 0;
    while i < t.len() {
        let mut j = i;
        while j < t.len() && t[j] == t[i] {
            j += 1;
        }
        if !s.is_empty() {
            s.push('>');
        }
        s.push_str(t[i]);
        if j - i > 1 {
            // bucket repeat counts so that the label set stays small
            let n = j - i;
            let b = if n < 4 { n.to_string() } else if n < 16 { "4+".into() } else if n < 256 { "16+".into() } else { "256+".into() };
            s.push_str(&format!("*{}", b));
        }
        i = j;
    }
    s
}

fn compile(inp: &Input) -> Run {
    let _ = hooks::take_trace();
    let start = hooks::object_counter();
    let r = vf_core::guard(|| (inp.make)());
    let end = hooks::object_counter();
    let trace = compress_trace(&hooks::take_trace());
    let out = match r {
        Ok(Ok(b)) => Out::Bytes(b),
        Ok(Err(e)) => Out::Err(e),
        Err(p) => Out::Panic(p),
    };
    Run {
        out,
        start,
        end,
        trace,
    }
}

/// One monitored single-threaded compilation. Under ThreadSanitizer the cpu-time bound of `run_case`
/// does not apply (instrumentation slow-down is not the library's): only the panic monitor is used.
fn run_compile(ctx: &mut Ctx, tsan: bool, label: &dyn Fn() -> String, inp: &Input) -> Result<Run, PanicInfo> {
    if tsan {
        vf_core::guard(|| compile(inp))
    } else {
        ctx.run_case(label, None, &|| compile(inp))
    }
}

struct Ref {
    bytes: Arc<Vec<u8>>,
    digest: u64,
    objects: u64,
    trace: String,
    nontrivial: bool,
}

fn beyond_kahn(trace: &str) -> bool {
    trace.split('>').any(|s| !s.is_empty() && !s.starts_with("kahn"))
}

// ------------------------------------------------------------ checker

struct Checker {
    refs: Vec<Option<Ref>>,
    reported: BTreeMap<String, u32>,
}

impl Checker {
    /// Compare one observed run against the reference of input `i`.
    fn check(&mut self, ctx: &mut Ctx, inputs: &[Input], i: usize, run: &Run, schedule: &str, instance: u64) {
        let inp = &inputs[i];
        let Some(r) = &self.refs[i] else { return };
        ctx.eval();
        ctx.count("compilations_checked", 1);
        ctx.count(&format!("schedule:{}", schedule), 1);
        if r.nontrivial {
            let mut d = Digest::new();
            d.str(&inp.name);
            d.str(schedule);
            d.u64(instance);
            d.u64(ctx.shard.0 as u64);
            d.str(&ctx.profile);
            ctx.nontrivial(d.finish());
        }
        if run.end.wrapping_sub(run.start) > r.objects {
            ctx.count("compilations_with_foreign_ids_inside_their_id_range", 1);
        }
        if run.trace != r.trace {
            ctx.count("stage_trace_differs_from_reference", 1);
            ctx.label("stage_trace_differences", &format!("{}: {} vs {}", inp.name, r.trace, run.trace));
        }
        let (kind, detail): (&str, Value) = match &run.out {
            Out::Bytes(b) => {
                let dg = fnv64(b);
                ctx.distinct(&format!("output:{}", inp.name), dg);
                if b.len() == r.bytes.len() && dg == r.digest && **b == **r.bytes {
                    return;
                }
                let at = b.iter().zip(r.bytes.iter()).position(|(x, y)| x != y);
                (
                    "nondeterministic-output",
                    json!({"reference_len": r.bytes.len(), "len": b.len(), "first_diff": at,
                           "reference_digest": format!("{:016x}", r.digest), "digest": format!("{:016x}", dg)}),
                )
            }
            Out::Err(e) => ("nondeterministic-error", json!({"error": e})),
            Out::Panic(p) => {
                if !p.in_repo() {
                    ctx.inconclusive(format!("harness panic {}:{} {}", p.file, p.line, p.msg));
                    return;
                }
                ("nondeterministic-panic", json!({"panic": {"file": p.file, "line": p.line, "msg": p.msg}}))
            }
        };
        let sig = format!("{}:{}:{}", kind, inp.name, schedule);
        let total: u32 = self.reported.values().map(|v| (*v).min(3)).sum();
        let c = self.reported.entry(format!("{}:{}", kind, inp.name)).or_insert(0);
        *c += 1;
        ctx.count(&format!("mismatch:{}", kind), 1);
        // the core keeps at most 40 violations per process: leave room for
        // the cross-process comparison that runs last
        if *c > 3 || total > 28 {
            return;
        }
        let bytes: Option<&[u8]> = match &run.out {
            Out::Bytes(b) => Some(&b[..]),
            _ => None,
        };
        ctx.violation(
            &sig,
            json!({"input": inp.name, "schedule": schedule, "instance": instance, "id_range": [run.start, run.end],
                   "reference_objects": r.objects, "trace": run.trace, "reference_trace": r.trace, "what": detail}),
            bytes,
        );
    }
}

// ------------------------------------------------------------ counter jumps

/// Move the object counter so that the next compilation (which allocates
/// about `objects` ids) straddles the next multiple of 2^bits.
fn jump_before_boundary(bits: u32, objects: u64, rng: &mut Rng) -> u64 {
    let cur = hooks::object_counter();
    let unit = 1u64 << bits;
    let back = 1 + rng.below(objects.max(2) - 1); // 1..objects-1 ids before the boundary
    let mut next = (cur / unit + 1) * unit;
    if next - cur < back {
        next += unit;
    }
    hooks::bump_object_counter(next - back - cur);
    next
}

fn random_jump(rng: &mut Rng, max_bits: u32) -> u64 {
    let n = match rng.below(6) {
        0 => 1,
        1 => 2 + rng.below(3),
        2 => rng.below(1000) | 1,
        3 => 1u64 << rng.below(max_bits as u64),
        4 => (1u64 << (1 + rng.below(max_bits as u64 - 1))) - 1,
        _ => rng.below(1u64 << max_bits),
    };
    hooks::bump_object_counter(n);
    n
}

// ------------------------------------------------------------ threads

struct ThreadPlan {
    input: usize,
    yields: u32,
    reps: u32,
}

/// One round: N threads released from a barrier; optionally a sidecar that
/// jumps the id counter while they compile. Returns the runs per thread.
fn thread_round(inputs: &[Input], plans: &[ThreadPlan], sidecar: Option<u64>, sidecar_bumps: &AtomicU64) -> Vec<Vec<Run>> {
    let n = plans.len();
    let barrier = Barrier::new(n + sidecar.is_some() as usize);
    let stop = AtomicBool::new(false);
    let mut results: Vec<Vec<Run>> = Vec::new();
    std::thread::scope(|s| {
        let mut handles = vec![];
        for p in plans {
            let barrier = &barrier;
            handles.push(s.spawn(move || {
                barrier.wait();
                let mut runs = vec![];
                for rep in 0..p.reps {
                    for _ in 0..(p.yields + rep) {
                        std::thread::yield_now();
                    }
                    runs.push(compile(&inputs[p.input]));
                }
                runs
            }));
        }
        let side = sidecar.map(|sseed| {
            let barrier = &barrier;
            let stop = &stop;
            s.spawn(move || {
                let mut rng = Rng::new(sseed);
                barrier.wait();
                let mut n = 0u64;
                // at most 2^16 jumps of < 2^34 per round: < 2^50 in total
                while !stop.load(Ordering::Relaxed) && n < 65536 {
                    random_jump(&mut rng, 34);
                    n += 1;
                    for _ in 0..rng.below(4) {
                        std::thread::yield_now();
                    }
                    if rng.chance(1, 8) {
                        std::thread::sleep(std::time::Duration::from_micros(rng.below(200)));
                    }
                }
                sidecar_bumps.fetch_add(n, Ordering::Relaxed);
            })
        });
        for h in handles {
            match h.join() {
                Ok(r) => results.push(r),
                Err(_) => results.push(vec![]),
            }
        }
        stop.store(true, Ordering::Relaxed);
        if let Some(h) = side {
            let _ = h.join();
        }
    });
    results
}

// ------------------------------------------------------------ cross-process digests

fn digest_file(dir: &Path, profile: &str, shard: usize) -> PathBuf {
    dir.join(format!("C07.digests.{}.{}", profile, shard))
}

fn write_and_compare_digests(ctx: &mut Ctx, args: &Args, lines: &BTreeMap<String, String>) {
    let Some(dir) = args.out.parent().map(|p| p.to_path_buf()) else { return };
    let header = format!("C07 seed={} tier={}", ctx.seed, ctx.tier.as_str());
    let mut s = header.clone();
    s.push('\n');
    for (k, v) in lines {
        s.push_str(k);
        s.push('\t');
        s.push_str(v);
        s.push('\n');
    }
    let mine = digest_file(&dir, &ctx.profile, ctx.shard.0);
    let tmp = mine.with_extension(format!("tmp{}", std::process::id()));
    if std::fs::write(&tmp, s).is_err() || std::fs::rename(&tmp, &mine).is_err() {
        ctx.inconclusive("cannot write the digest side file");
        return;
    }
    // compare with every digest file of the same run already present
    let Ok(rd) = std::fs::read_dir(&dir) else { return };
    let mut names: Vec<PathBuf> = rd.flatten().map(|e| e.path()).collect();
    names.sort();
    let mut same_profile = 0u64;
    let mut other_profile = 0u64;
    for p in names {
        let Some(fname) = p.file_name().and_then(|f| f.to_str()) else { continue };
        if !fname.starts_with("C07.digests.") || p == mine || fname.contains(".tmp") {
            continue;
        }
        let Ok(text) = std::fs::read_to_string(&p) else { continue };
        let mut it = text.lines();
        if it.next() != Some(header.as_str()) {
            // stale file of another seed / tier: remove it if it is old
            let old = std::fs::metadata(&p)
                .and_then(|m| m.modified())
                .ok()
                .and_then(|t| t.elapsed().ok())
                .map(|e| e.as_secs() > 1800)
                .unwrap_or(false);
            if old {
                let _ = std::fs::remove_file(&p);
            }
            continue;
        }
        let fresh = std::fs::metadata(&p)
            .and_then(|m| m.modified())
            .ok()
            .and_then(|t| t.elapsed().ok())
            .map(|e| e.as_secs() < 3 * 3600)
            .unwrap_or(false);
        if !fresh {
            let _ = std::fs::remove_file(&p);
            continue;
        }
        let their_profile = fname.split('.').nth(2).unwrap_or("?").to_string();
        let cross = their_profile != ctx.profile;
        if cross {
            other_profile += 1;
        } else {
            same_profile += 1;
        }
        for l in it {
            let Some((name, val)) = l.split_once('\t') else { continue };
            let Some(my) = lines.get(name) else { continue };
            ctx.count("cross_process_comparisons", 1);
            if my != val {
                if cross {
                    // a different build of the library is a different program:
                    // recorded, not judged by this property
                    ctx.count("differs_between_build_profiles", 1);
                    ctx.label("differs_between_build_profiles", name);
                } else {
                    let sig = format!("nondeterministic-across-processes:{}", name);
                    ctx.violation(&sig, json!({"input": name, "this_process": my, "other_process": val, "other_file": fname}), None);
                }
            }
        }
    }
    ctx.count("digest_files_compared_same_profile", same_profile);
    ctx.count("digest_files_compared_other_profile", other_profile);
}

// ------------------------------------------------------------ run

pub fn run(ctx: &mut Ctx, args: &Args) {
    ctx.policy = PanicPolicy::Any;
    ctx.rule = "a checked compilation (input x schedule instance) whose input feeds >= 50 entries into a hashed collection \
                (measured: object ids allocated by the reference compilation = object-store entries; declared: regions / \
                delta sets / tuples / classes / retained glyphs) or whose packing enters a stage beyond the Kahn sort \
                (measured with the stage-trace hook). Digest = input name, schedule kind, schedule instance (round / thread / history index), process (profile, shard)."
        .into();
    ctx.assumptions = vec![
        "the object-id counter never wraps 2^64 (jumps are bounded; only relative order inside one compilation is specified)".into(),
        "inputs whose reference compilation fails or panics are outside this property and only compared across processes".into(),
        "outputs of differently configured builds (strict / rel) are recorded but not required to be equal".into(),
    ];
    // `--profile tsan` (extra stage "tsan", /verif/tools/stage_tsan.sh): the binary and std are built with
    // ThreadSanitizer, which is 5-15x slower. Only the reference compilations and the thread schedules
    // (phase 4 and the threaded part of phase 5) run, at a reduced size; a data race in the compilation
    // path (object-id counter, caches) ends the process with a TSan report (exit 66) that the driver
    // turns into a violation. The byte-equality oracle stays on.
    let tsan = args.profile == "tsan";
    if tsan {
        ctx.assumptions.push("tsan slice: only the single-threaded references and the 16-thread schedules (with and without the counter-jumping sidecar) run, at a reduced number of rounds; ThreadSanitizer watches every access of the compilation path (std is instrumented too, -Zbuild-std)".into());
    }
    let thorough = ctx.tier.is_thorough() && !tsan;
    let inputs = inputs::canonical_inputs(ctx.seed, thorough);
    let fillers = inputs::filler_inputs(ctx.seed);
    let mut rng = Rng::derive(ctx.seed, "c07-schedule", ctx.shard.0 as u64 * 2 + ctx.is_strict() as u64);
    ctx.count("processes", 1);

    // ---------------- phase 0: reference, single-threaded, ids from 0
    let mut phase_t: Vec<(String, f64)> = vec![];
    let first_id = hooks::object_counter();
    ctx.extra.insert("first_object_id_of_process".into(), json!(first_id));
    let mut chk = Checker {
        refs: vec![],
        reported: BTreeMap::new(),
    };
    let mut digest_lines: BTreeMap<String, String> = BTreeMap::new();
    let mut input_table = vec![];
    for inp in &inputs {
        let label = || format!("reference {}", inp.name);
        let t_ref = std::time::Instant::now();
        let run = match run_compile(ctx, tsan, &label, inp) {
            Ok(r) => r,
            Err(p) => {
                ctx.inconclusive(format!("harness panic in reference of {}: {}:{}", inp.name, p.file, p.line));
                chk.refs.push(None);
                continue;
            }
        };
        ctx.eval();
        ctx.count("reference_compilations", 1);
        match run.out {
            Out::Bytes(b) => {
                let objects = run.end - run.start;
                let digest = fnv64(&b);
                let nontrivial = objects >= 50 || inp.declared_hashed >= 50 || beyond_kahn(&run.trace);
                ctx.distinct(&format!("output:{}", inp.name), digest);
                ctx.label(&format!("stage_traces:{}", inp.kind), &run.trace);
                ctx.label("stage_traces_all", &run.trace);
                ctx.count(&format!("inputs:{}", inp.kind), 1);
                if nontrivial {
                    ctx.count("inputs_nontrivial", 1);
                }
                if beyond_kahn(&run.trace) {
                    ctx.count("inputs_beyond_kahn", 1);
                }
                digest_lines.insert(inp.name.clone(), format!("{:016x}:{}", digest, b.len()));
                ctx.sample_by_kind(inp.kind, json!({"input": inp.name, "output_len": b.len(), "objects": objects,
                                                    "stage_trace": run.trace, "output_digest": format!("{:016x}", digest),
                                                    "schedules": "reference, repeat, histories k in {0,1,7,1000}, counter jumps, 16-thread rounds, cross-process"}));
                let described = inp.describe.map(|f| f(&b));
                if let Some(d) = &described {
                    ctx.label("ties:what_the_packer_did", &format!("{}: {} [{}]", inp.name, d, run.trace));
                }
                if inp.name.starts_with("ties:") {
                    ctx.count("inputs_with_deliberate_ties", 1);
                }
                input_table.push(json!({"name": inp.name, "kind": inp.kind, "output_len": b.len(), "objects": objects, "described": described,
                                        "declared_hashed": inp.declared_hashed, "trace": run.trace, "nontrivial": nontrivial,
                                        "reference_ms": (t_ref.elapsed().as_secs_f64() * 1000.0).round()}));
                chk.refs.push(Some(Ref {
                    bytes: Arc::new(b),
                    digest,
                    objects,
                    trace: run.trace,
                    nontrivial,
                }));
            }
            Out::Err(e) => {
                ctx.count("reference_unusable:error", 1);
                ctx.label("reference_unusable", &format!("{}: {}", inp.name, e.chars().take(80).collect::<String>()));
                digest_lines.insert(inp.name.clone(), format!("ERR:{:016x}", fnv64(e.as_bytes())));
                chk.refs.push(None);
            }
            Out::Panic(p) => {
                ctx.count("reference_unusable:panic", 1);
                ctx.label("reference_unusable", &format!("{}: {}", inp.name, p.signature()));
                digest_lines.insert(inp.name.clone(), format!("PANIC:{}", p.signature()));
                chk.refs.push(None);
            }
        }
    }
    let usable: Vec<usize> = (0..inputs.len()).filter(|i| chk.refs[*i].is_some()).collect();
    let heavy: Vec<usize> = usable.iter().copied().filter(|i| chk.refs[*i].as_ref().unwrap().nontrivial).collect();
    ctx.extra.insert("inputs".into(), json!(input_table));
    ctx.extra.insert("n_inputs_usable".into(), json!(usable.len()));
    if usable.is_empty() {
        ctx.inconclusive("no usable input");
        return;
    }

    phase_t.push(("reference".into(), ctx.elapsed_s()));
    // ---------------- phase 1: repetition (fresh RandomState in every HashMap)
    let reps = if tsan { 0 } else { ctx.tier.pick(2, 4) };
    for rep in 0..reps {
        for &i in &usable {
            let inp = &inputs[i];
            let label = || format!("repeat {}", inp.name);
            if let Ok(run) = ctx.run_case(&label, None, &|| compile(inp)) {
                chk.check(ctx, &inputs, i, &run, "repeat", rep as u64);
            }
        }
    }

    phase_t.push(("repeat".into(), ctx.elapsed_s()));
    // ---------------- phase 2: histories of k unrelated compilations
    for (ki, k) in [0usize, 1, 7, 1000].into_iter().enumerate() {
        if tsan {
            break;
        }
        // for k = 1000 each shard takes a different slice of the inputs
        let targets: Vec<usize> = if k >= 1000 {
            let per = ctx.tier.pick(10, 40);
            (0..per).map(|j| usable[(ctx.shard.0 * per + j + rng.usize(usable.len())) % usable.len()]).collect()
        } else {
            usable.clone()
        };
        for &i in &targets {
            let mut hist_ok = 0u64;
            for h in 0..k {
                // unrelated work: fillers mostly, sometimes another canonical input
                let r = if k < 1000 && rng.chance(1, 3) {
                    let j = *rng.pick(&usable);
                    compile(&inputs[j])
                } else {
                    compile(&fillers[(h + i) % fillers.len()])
                };
                if matches!(r.out, Out::Bytes(_)) {
                    hist_ok += 1;
                }
            }
            ctx.count("history_compilations", hist_ok);
            let inp = &inputs[i];
            let label = || format!("history k={} {}", k, inp.name);
            if let Ok(run) = ctx.run_case(&label, None, &|| compile(inp)) {
                chk.check(ctx, &inputs, i, &run, &format!("history-k{}", k), ki as u64);
            }
        }
    }

    phase_t.push(("histories".into(), ctx.elapsed_s()));
    // ---------------- phase 3: counter jumps between compilations (low range)
    let low_bits = [16u32, 24, 31, 32, 33];
    let rounds = if tsan { 0 } else { ctx.tier.pick(1, 3) };
    for round in 0..rounds {
        for &i in &usable {
            let objects = chk.refs[i].as_ref().unwrap().objects;
            let inp = &inputs[i];
            let (sched, boundary) = if objects >= 3 && rng.chance(2, 3) {
                let bits = *rng.pick(&low_bits);
                let b = jump_before_boundary(bits, objects, &mut rng);
                (format!("straddle-2^{}", bits), Some(b))
            } else {
                let n = random_jump(&mut rng, 30);
                ctx.label("jump_parity", if n % 2 == 0 { "even" } else { "odd" });
                ("random-jump".to_string(), None)
            };
            let label = || format!("{} {}", sched, inp.name);
            if let Ok(run) = ctx.run_case(&label, None, &|| compile(inp)) {
                if let Some(b) = boundary {
                    if run.start < b && b <= run.end {
                        ctx.count("boundary_straddled", 1);
                        ctx.count(&format!("boundary_straddled:{}", sched), 1);
                    } else {
                        ctx.count("boundary_not_straddled", 1);
                    }
                }
                chk.check(ctx, &inputs, i, &run, &sched, round as u64);
            }
        }
    }

    phase_t.push(("jumps-low".into(), ctx.elapsed_s()));
    // ---------------- phase 4: threads
    let sidecar_bumps = AtomicU64::new(0);
    let n_rounds = if tsan { ctx.tier.pick(24, 96) } else { ctx.tier.pick(160, 1600) };
    // light inputs for most rounds, heavy ones regularly
    let mut by_cost: Vec<usize> = usable.clone();
    by_cost.sort_by_key(|i| chk.refs[*i].as_ref().unwrap().bytes.len());
    let light: Vec<usize> = by_cost[..(by_cost.len() * 3 / 4).max(1)].to_vec();
    for round in 0..n_rounds {
        let kind = round % 4; // 0: same light, 1: mixed, 2: same heavy, 3: mixed with sidecar
        let with_sidecar = kind == 3 || round % 8 == 2;
        let plans: Vec<ThreadPlan> = match kind {
            0 | 2 => {
                let pool = if kind == 2 && !heavy.is_empty() { &heavy } else { &light };
                let i = *rng.pick(pool);
                let reps = if chk.refs[i].as_ref().unwrap().bytes.len() > 200_000 { 1 } else { 2 };
                (0..N_THREADS)
                    .map(|_| ThreadPlan {
                        input: i,
                        yields: rng.below(8) as u32,
                        reps,
                    })
                    .collect()
            }
            _ => (0..N_THREADS)
                .map(|t| {
                    let pool = if t % 4 == 0 && !heavy.is_empty() { &heavy } else { &light };
                    ThreadPlan {
                        input: *rng.pick(pool),
                        yields: rng.below(8) as u32,
                        reps: 1 + rng.below(2) as u32,
                    }
                })
                .collect(),
        };
        let sched = match (kind, with_sidecar) {
            (0, false) | (2, false) => "threads-same-value",
            (0, true) | (2, true) => "threads-same-value+sidecar-jumps",
            (_, false) => "threads-mixed-values",
            (_, true) => "threads-mixed-values+sidecar-jumps",
        };
        let sseed = if with_sidecar { Some(rng.u64()) } else { None };
        let label = || format!("{} round {}", sched, round);
        let inputs_ref = &inputs;
        let plans_ref = &plans;
        let sb = &sidecar_bumps;
        let res = ctx.run_case(&label, None, &|| thread_round(inputs_ref, plans_ref, sseed, sb));
        let Ok(res) = res else {
            ctx.inconclusive("harness panic in a thread round");
            continue;
        };
        ctx.count("thread_rounds", 1);
        // interleaving signature: order of the first ids + who saw foreign ids
        let mut order: Vec<(u64, usize)> = res.iter().enumerate().filter_map(|(t, r)| r.first().map(|x| (x.start, t))).collect();
        order.sort();
        let mut sig = Digest::new();
        for (_, t) in &order {
            sig.u64(*t as u64);
        }
        let mut overlapped = 0u64;
        for (t, runs) in res.iter().enumerate() {
            if runs.is_empty() {
                ctx.inconclusive("a worker thread died outside the panic guard");
            }
            for run in runs {
                let objects = chk.refs[plans[t].input].as_ref().unwrap().objects;
                let foreign = run.end.wrapping_sub(run.start) > objects;
                sig.u64(foreign as u64);
                overlapped += foreign as u64;
                chk.check(ctx, &inputs, plans[t].input, run, sched, round as u64 * 64 + t as u64);
            }
        }
        ctx.distinct("interleaving_signatures", sig.finish());
        if overlapped > 0 {
            ctx.count("thread_rounds_with_interleaved_id_ranges", 1);
        }
    }
    ctx.count("sidecar_jumps_during_compilations", sidecar_bumps.load(Ordering::Relaxed));

    phase_t.push(("threads".into(), ctx.elapsed_s()));
    // ---------------- phase 5: high id range, 2^63
    let high_bits = [40u32, 48, 53, 56];
    let mut n56 = 0;
    let per = if tsan { 2 } else { ctx.tier.pick(24, 96) };
    for j in 0..per {
        let i = usable[(ctx.shard.0 * 7 + j * 5 + rng.usize(usable.len())) % usable.len()];
        let objects = chk.refs[i].as_ref().unwrap().objects;
        if objects < 3 {
            continue;
        }
        let mut bits = *rng.pick(&high_bits);
        if bits == 56 {
            n56 += 1;
            if n56 > 8 {
                bits = 48;
            }
        }
        let b = jump_before_boundary(bits, objects, &mut rng);
        let sched = format!("straddle-2^{}", bits);
        let inp = &inputs[i];
        let label = || format!("{} {}", sched, inp.name);
        if let Ok(run) = run_compile(ctx, tsan, &label, inp) {
            if run.start < b && b <= run.end {
                ctx.count("boundary_straddled", 1);
                ctx.count(&format!("boundary_straddled:{}", sched), 1);
            } else {
                ctx.count("boundary_not_straddled", 1);
            }
            chk.check(ctx, &inputs, i, &run, &sched, j as u64);
        }
        random_jump(&mut rng, 44);
    }
    // the sign bit: exactly one compilation per process can straddle 2^63;
    // which input does depends on the shard
    let cur = hooks::object_counter();
    if cur < (1u64 << 62) {
        let cands: Vec<usize> = if heavy.is_empty() { usable.clone() } else { heavy.clone() };
        let i = cands[(ctx.shard.0 * 3 + ctx.is_strict() as usize + (ctx.seed as usize % 97)) % cands.len()];
        let objects = chk.refs[i].as_ref().unwrap().objects;
        let b = jump_before_boundary(63, objects.max(3), &mut rng);
        let inp = &inputs[i];
        let label = || format!("straddle-2^63 {}", inp.name);
        if let Ok(run) = run_compile(ctx, tsan, &label, inp) {
            if run.start < b && b <= run.end {
                ctx.count("boundary_straddled", 1);
                ctx.count("boundary_straddled:straddle-2^63", 1);
                ctx.label("straddled_2^63_with", &inp.name);
            } else {
                ctx.count("boundary_not_straddled", 1);
            }
            chk.check(ctx, &inputs, i, &run, "straddle-2^63", 0);
        }
        // above 2^63: sequential and threaded
        for j in 0..(if tsan { 2 } else { ctx.tier.pick(12, 48) }) {
            let i = usable[(j * 11 + ctx.shard.0) % usable.len()];
            random_jump(&mut rng, 40);
            let inp = &inputs[i];
            let label = || format!("above-2^63 {}", inp.name);
            if let Ok(run) = run_compile(ctx, tsan, &label, inp) {
                chk.check(ctx, &inputs, i, &run, "above-2^63", j as u64);
            }
        }
        for round in 0..(if tsan { 4 } else { ctx.tier.pick(4, 16) }) {
            let plans: Vec<ThreadPlan> = (0..N_THREADS)
                .map(|_| ThreadPlan {
                    input: *rng.pick(&light),
                    yields: rng.below(8) as u32,
                    reps: 1,
                })
                .collect();
            let sseed = Some(rng.u64());
            let label = || format!("threads above 2^63 round {}", round);
            let (inputs_ref, plans_ref, sb) = (&inputs, &plans, &sidecar_bumps);
            if let Ok(res) = ctx.run_case(&label, None, &|| thread_round(inputs_ref, plans_ref, sseed, sb)) {
                ctx.count("thread_rounds", 1);
                for (t, runs) in res.iter().enumerate() {
                    for run in runs {
                        chk.check(ctx, &inputs, plans[t].input, run, "threads-above-2^63+sidecar-jumps", round as u64 * 64 + t as u64);
                    }
                }
            }
        }
    } else {
        ctx.inconclusive("object counter unexpectedly high before the 2^63 phase");
    }
    ctx.extra.insert("last_object_id_of_process".into(), json!(format!("{:#x}", hooks::object_counter())));

    phase_t.push(("high-ids".into(), ctx.elapsed_s()));
    ctx.extra.insert("phase_end_s".into(), json!(phase_t));
    // ---------------- cross-process comparison (an instrumented build is a different program: not compared)
    if !tsan {
        write_and_compare_digests(ctx, args, &digest_lines);
    }
}
