//! Canonical inputs of the C07 workload. Every process (shard) constructs the
//! same list (a function of VERIF_SEED only); each entry builds its input
//! value afresh from a seeded generator on every call and compiles it.
use std::collections::BTreeMap;
use std::sync::Arc;
use vf_core::Rng;
use write_fonts::read::collections::IntSet;
use write_fonts::read::{FontRead, FontRef, TopLevelTable};
use write_fonts::tables::gdef::Gdef;
use write_fonts::tables::gpos::builders::{
    AnchorBuilder, CursivePosBuilder, MarkToBaseBuilder, MarkToLigBuilder, MarkToMarkBuilder, PairPosBuilder, SinglePosBuilder,
    ValueRecordBuilder,
};
use write_fonts::tables::gpos::{Gpos, PositionLookup, PositionLookupList};
use write_fonts::tables::gsub::builders::{AlternateSubBuilder, LigatureSubBuilder, MultipleSubBuilder, SingleSubBuilder};
use write_fonts::tables::gsub::{Gsub, SubstitutionLookup, SubstitutionLookupList};
use write_fonts::tables::gvar::{GlyphDelta, GlyphDeltas, GlyphVariations, Gvar, Tent};
use write_fonts::tables::layout::builders::{Builder, LookupBuilder};
use write_fonts::tables::layout::{
    Feature, FeatureList, FeatureRecord, LangSys, LookupFlag, Script, ScriptList, ScriptRecord,
};
use write_fonts::tables::variations::ivs_builder::{RemapVariationIndices, VariationStoreBuilder};
use write_fonts::tables::variations::{RegionAxisCoordinates, VariationRegion};
use write_fonts::types::{F2Dot14, FWord, GlyphId, GlyphId16, NameId, Tag};
use write_fonts::validate::Validate;
use write_fonts::{dump_table, FontBuilder, FontWrite};

pub type MakeFn = Arc<dyn Fn() -> Result<Vec<u8>, String> + Send + Sync>;

#[derive(Clone)]
pub struct Input {
    pub name: String,
    pub kind: &'static str,
    /// declared number of entries in the largest hashed collection the input
    /// feeds besides the object store (regions, delta sets, tuples, classes,
    /// retained glyphs); the object-store size is measured at run time.
    pub declared_hashed: usize,
    pub make: MakeFn,
    /// optional: what the compiler did with this input, read back from the
    /// reference output (e.g. which lookups were promoted); evidence only
    pub describe: Option<fn(&[u8]) -> String>,
}

pub(crate) fn g(i: usize) -> GlyphId16 {
    GlyphId16::new(i as u16)
}

fn f2(v: f64) -> F2Dot14 {
    F2Dot14::from_f32(v as f32)
}

// ------------------------------------------------------------ variation regions

pub(crate) const AXES: u16 = 3;

/// A pool of `n` distinct regions over AXES axes.
fn region_pool(rng: &mut Rng, n: usize) -> Vec<VariationRegion> {
    let mut seen: BTreeMap<Vec<(i16, i16, i16)>, ()> = BTreeMap::new();
    let mut out = vec![];
    while out.len() < n {
        let mut key = vec![];
        let mut axes = vec![];
        for _ in 0..AXES {
            let (s, p, e) = match rng.below(5) {
                0 => (0.0, 0.0, 0.0),
                1 => (0.0, 1.0, 1.0),
                2 => (-1.0, -1.0, 0.0),
                3 => {
                    let p = (rng.range(1, 15) as f64) / 16.0;
                    (0.0, p, 1.0)
                }
                _ => {
                    let p = (rng.range(2, 14) as f64) / 16.0;
                    (p - 0.125, p, p + 0.125)
                }
            };
            key.push(((s * 16384.0) as i16, (p * 16384.0) as i16, (e * 16384.0) as i16));
            axes.push(RegionAxisCoordinates::new(f2(s), f2(p), f2(e)));
        }
        if seen.insert(key, ()).is_none() {
            out.push(VariationRegion::new(axes));
        }
    }
    out
}

fn deltas(rng: &mut Rng, pool: &[VariationRegion]) -> Vec<(VariationRegion, i16)> {
    let k = 1 + rng.below(4) as usize;
    let mut idx: Vec<usize> = (0..pool.len()).collect();
    rng.shuffle(&mut idx);
    idx.truncate(k);
    idx.into_iter()
        .map(|i| {
            let v = match rng.below(3) {
                0 => rng.range(-100, 100),
                1 => rng.range(-2000, 2000),
                _ => rng.range(-5, 5),
            } as i16;
            (pool[i].clone(), v)
        })
        .collect()
}

fn value(rng: &mut Rng, pool: Option<&[VariationRegion]>) -> ValueRecordBuilder {
    let mut v = ValueRecordBuilder::new().with_x_advance(rng.range(-500, 500) as i16);
    if rng.chance(1, 3) {
        v = v.with_x_placement(rng.range(-50, 50) as i16);
    }
    if let Some(p) = pool {
        if rng.chance(1, 25) {
            v = v.with_x_advance_device(deltas(rng, p));
        }
    }
    v
}

fn anchor(rng: &mut Rng, pool: Option<&[VariationRegion]>) -> AnchorBuilder {
    let mut a = AnchorBuilder::new(rng.range(-1000, 1000) as i16, rng.range(-1000, 1000) as i16);
    if let Some(p) = pool {
        if rng.chance(1, 30) {
            a = a.with_x_device(deltas(rng, p));
        }
        if rng.chance(1, 50) {
            a = a.with_y_device(deltas(rng, p));
        }
    }
    a
}

// ------------------------------------------------------------ layout scaffolding

pub(crate) fn scripts_features(tag: &[u8; 4], n_lookups: usize) -> (ScriptList, FeatureList) {
    // several features/scripts sharing lookups, so that the object store
    // dedups identical LangSys / Feature tables
    let mut frecs = vec![];
    for (i, t) in [tag, b"mark", b"mkmk", b"liga", b"dist", b"abvm"].iter().enumerate() {
        let idx: Vec<u16> = (0..n_lookups as u16).filter(|l| i == 0 || (*l as usize + i) % 3 != 0).collect();
        frecs.push(FeatureRecord::new(Tag::new(t), Feature::new(None, idx)));
    }
    frecs.sort_by_key(|r| r.feature_tag);
    let nf = frecs.len() as u16;
    let mut srecs = vec![];
    for t in [b"DFLT", b"arab", b"cyrl", b"grek", b"latn"] {
        srecs.push(ScriptRecord::new(Tag::new(t), Script::new(Some(LangSys::new((0..nf).collect())), vec![])));
    }
    (ScriptList::new(srecs), FeatureList::new(frecs))
}

fn finish_gpos(lookups: Vec<PositionLookup>, store: VariationStoreBuilder) -> Result<(Gpos, Option<Gdef>), String> {
    let (sl, fl) = scripts_features(b"kern", lookups.len());
    let mut gpos = Gpos::new(sl, fl, PositionLookupList::new(lookups));
    if store.is_empty() {
        return Ok((gpos, None));
    }
    let (ivs, remap) = store.build();
    gpos.remap_variation_indices(&remap);
    let mut gdef = Gdef::new(None, None, None, None);
    gdef.item_var_store.set(ivs);
    Ok((gpos, Some(gdef)))
}

fn dump_gpos_gdef(lookups: Vec<PositionLookup>, store: VariationStoreBuilder) -> Result<Vec<u8>, String> {
    let (gpos, gdef) = finish_gpos(lookups, store)?;
    let mut out = dump_table(&gpos).map_err(|e| format!("GPOS: {e}"))?;
    if let Some(gdef) = gdef {
        out.extend_from_slice(b"--GDEF--");
        out.extend(dump_table(&gdef).map_err(|e| format!("GDEF: {e}"))?);
    }
    Ok(out)
}

// ------------------------------------------------------------ GPOS inputs

fn pairpos_glyph_lookup(rng: &mut Rng, n1: usize, n2: usize, pool: Option<&[VariationRegion]>, store: &mut VariationStoreBuilder) -> PositionLookup {
    let mut lb = LookupBuilder::<PairPosBuilder>::new(LookupFlag::empty(), None);
    {
        let b = lb.last_mut().unwrap();
        for i in 0..n1 {
            for j in 0..n2 {
                if rng.chance(1, 10) {
                    continue;
                }
                let v2 = if rng.chance(1, 8) { value(rng, None) } else { ValueRecordBuilder::new() };
                b.insert_pair(g(10 + i * 2), value(rng, pool), g(20 + j), v2);
            }
        }
    }
    PositionLookup::Pair(lb.build(store))
}

fn pairpos_class_lookup(rng: &mut Rng, n1: usize, n2: usize, pool: Option<&[VariationRegion]>, store: &mut VariationStoreBuilder) -> PositionLookup {
    let mut lb = LookupBuilder::<PairPosBuilder>::new(LookupFlag::empty(), None);
    {
        let b = lb.last_mut().unwrap();
        let c1: Vec<IntSet<GlyphId16>> = (0..n1)
            .map(|i| {
                // equal-sized classes: the class-id order is decided by the tie-break
                let mut s = IntSet::empty();
                s.insert(g(100 + 2 * i));
                s.insert(g(101 + 2 * i));
                s
            })
            .collect();
        let c2: Vec<IntSet<GlyphId16>> = (0..n2)
            .map(|j| {
                let mut s = IntSet::empty();
                s.insert(g(3000 + 3 * j));
                if j % 2 == 0 {
                    s.insert(g(3001 + 3 * j));
                }
                s
            })
            .collect();
        // insertion order scrambled (a function of the seed)
        let mut order: Vec<(usize, usize)> = vec![];
        for i in 0..n1 {
            for j in 0..n2 {
                if !rng.chance(1, 12) {
                    order.push((i, j));
                }
            }
        }
        for (i, j) in order {
            b.insert_classes(c1[i].clone(), value(rng, pool), c2[j].clone(), ValueRecordBuilder::new());
        }
    }
    PositionLookup::Pair(lb.build(store))
}

fn markbase_lookup(rng: &mut Rng, n_marks: usize, n_classes: usize, n_bases: usize, pool: Option<&[VariationRegion]>, store: &mut VariationStoreBuilder) -> PositionLookup {
    let mut lb = LookupBuilder::<MarkToBaseBuilder>::new(LookupFlag::empty(), None);
    {
        let b = lb.last_mut().unwrap();
        let names: Vec<String> = (0..n_classes).map(|c| format!("cls{}_{}", c, rng.below(1000))).collect();
        for m in 0..n_marks {
            let _ = b.insert_mark(g(5000 + m), &names[m % n_classes], anchor(rng, pool));
        }
        for base in 0..n_bases {
            for name in &names {
                if rng.chance(1, 7) {
                    continue;
                }
                b.insert_base(g(10 + base), name, anchor(rng, pool));
            }
        }
    }
    PositionLookup::MarkToBase(lb.build(store))
}

fn single_lookup(rng: &mut Rng, n: usize, pool: Option<&[VariationRegion]>, store: &mut VariationStoreBuilder) -> PositionLookup {
    let mut lb = LookupBuilder::<SinglePosBuilder>::new(LookupFlag::empty(), None);
    {
        let b = lb.last_mut().unwrap();
        // ~n/3 distinct records, many of them shared by a few glyphs (equal
        // group sizes: ties in the size-ordered subtable sort)
        let recs: Vec<ValueRecordBuilder> = (0..(n / 3).max(1))
            .map(|k| {
                let mut v = ValueRecordBuilder::new().with_x_advance(k as i16 - 40);
                if k % 4 == 0 {
                    v = v.with_y_placement(rng.range(-9, 9) as i16);
                }
                if k % 5 == 0 {
                    v = v.with_x_placement(7);
                }
                if let Some(p) = pool {
                    if k % 9 == 0 {
                        v = v.with_y_advance_device(deltas(rng, p));
                    }
                }
                v
            })
            .collect();
        for i in 0..n {
            b.insert(g(40 + i), recs[(i * 7) % recs.len()].clone());
        }
    }
    PositionLookup::Single(lb.build(store))
}

fn cursive_lookup(rng: &mut Rng, n: usize, store: &mut VariationStoreBuilder) -> PositionLookup {
    let mut lb = LookupBuilder::<CursivePosBuilder>::new(LookupFlag::RIGHT_TO_LEFT, None);
    {
        let b = lb.last_mut().unwrap();
        for i in 0..n {
            let e = if i % 3 == 0 { None } else { Some(anchor(rng, None)) };
            let x = if i % 5 == 0 { None } else { Some(AnchorBuilder::new((i % 11) as i16, 0)) };
            b.insert(g(700 + i), e, x);
        }
    }
    PositionLookup::Cursive(lb.build(store))
}

fn markmark_lookup(rng: &mut Rng, n: usize, pool: Option<&[VariationRegion]>, store: &mut VariationStoreBuilder) -> PositionLookup {
    let mut lb = LookupBuilder::<MarkToMarkBuilder>::new(LookupFlag::USE_MARK_FILTERING_SET, Some(0));
    {
        let b = lb.last_mut().unwrap();
        let names = ["top", "bottom", "ring", "ogonek", "cedilla"];
        for m in 0..n {
            let _ = b.insert_mark1(g(5000 + m), names[m % names.len()], anchor(rng, pool));
        }
        for m in 0..n {
            for nm in names {
                if (m + nm.len()) % 3 != 0 {
                    b.insert_mark2(g(5000 + m), nm, anchor(rng, pool));
                }
            }
        }
    }
    PositionLookup::MarkToMark(lb.build(store))
}

fn marklig_lookup(rng: &mut Rng, n_marks: usize, n_ligs: usize, store: &mut VariationStoreBuilder) -> PositionLookup {
    let mut lb = LookupBuilder::<MarkToLigBuilder>::new(LookupFlag::empty(), None);
    {
        let b = lb.last_mut().unwrap();
        let names = ["above", "below", "center"];
        for m in 0..n_marks {
            let _ = b.insert_mark(g(5000 + m), names[m % 3], anchor(rng, None));
        }
        for l in 0..n_ligs {
            let comps = 2 + l % 3;
            for nm in names {
                let v: Vec<Option<AnchorBuilder>> = (0..comps).map(|c| if (c + l) % 4 == 0 { None } else { Some(anchor(rng, None)) }).collect();
                b.insert_ligature(g(900 + l), nm, v);
            }
        }
    }
    PositionLookup::MarkToLig(lb.build(store))
}

// ------------------------------------------------------------ GSUB

fn gsub_large(seed: u64, scale: usize) -> Result<Vec<u8>, String> {
    let mut rng = Rng::derive(seed, "c07-gsub", scale as u64);
    let mut store = VariationStoreBuilder::new(AXES);
    let mut lookups = vec![];
    for l in 0..scale {
        // ligatures
        let mut lb = LookupBuilder::<LigatureSubBuilder>::new(LookupFlag::empty(), None);
        {
            let b = lb.last_mut().unwrap();
            for i in 0..900 {
                let first = 30 + (i % 60);
                let len = 2 + rng.below(3) as usize;
                let mut t = vec![g(first)];
                for _ in 1..len {
                    t.push(g(30 + rng.below(400) as usize));
                }
                b.insert(t, g(2000 + (i + l * 7) % 1500));
            }
        }
        lookups.push(SubstitutionLookup::Ligature(lb.build(&mut store)));
        // alternates
        let mut lb = LookupBuilder::<AlternateSubBuilder>::new(LookupFlag::empty(), None);
        {
            let b = lb.last_mut().unwrap();
            for i in 0..400 {
                let n = 1 + rng.below(5) as usize;
                b.insert(g(30 + i), (0..n).map(|k| g(4000 + (i * 3 + k + l) % 900)).collect());
            }
        }
        lookups.push(SubstitutionLookup::Alternate(lb.build(&mut store)));
        // multiple
        let mut lb = LookupBuilder::<MultipleSubBuilder>::new(LookupFlag::empty(), None);
        {
            let b = lb.last_mut().unwrap();
            for i in 0..400 {
                let n = 2 + rng.below(3) as usize;
                b.insert(g(600 + i), (0..n).map(|k| g(30 + (i + k * 5 + l) % 300)).collect());
            }
        }
        lookups.push(SubstitutionLookup::Multiple(lb.build(&mut store)));
        // single (both formats)
        let mut lb = LookupBuilder::<SingleSubBuilder>::new(LookupFlag::empty(), None);
        {
            let b = lb.last_mut().unwrap();
            for i in 0..300 {
                let d = if l % 2 == 0 { 1000 } else { 1000 + (i * 7) % 13 };
                b.insert(g(50 + i), g(50 + i + d));
            }
        }
        lookups.push(SubstitutionLookup::Single(lb.build(&mut store)));
    }
    let (sl, fl) = scripts_features(b"calt", lookups.len());
    let gsub = Gsub::new(sl, fl, SubstitutionLookupList::new(lookups));
    dump_table(&gsub).map_err(|e| format!("GSUB: {e}"))
}

// ------------------------------------------------------------ gvar

fn gvar_equal_counts(seed: u64, n_glyphs: usize, n_tuples: usize, per_glyph: usize) -> Result<Vec<u8>, String> {
    let mut rng = Rng::derive(seed, "c07-gvar", (n_glyphs * 1000 + n_tuples) as u64);
    // distinct peaks
    let mut peaks: Vec<Vec<F2Dot14>> = vec![];
    let mut seen = std::collections::BTreeSet::new();
    while peaks.len() < n_tuples {
        let p: Vec<i16> = (0..AXES).map(|_| rng.range(-8, 8) as i16 * 2048).collect();
        if p.iter().all(|x| *x == 0) || !seen.insert(p.clone()) {
            continue;
        }
        peaks.push(p.iter().map(|x| F2Dot14::from_bits(*x)).collect());
    }
    let mut vars = vec![];
    for gi in 0..n_glyphs {
        let n_points = 4 + (gi % 9);
        let mut list = vec![];
        for k in 0..per_glyph {
            // every tuple is used exactly n_glyphs*per_glyph/n_tuples times
            let t = &peaks[(gi * per_glyph + k) % n_tuples];
            let tents: Vec<Tent> = t
                .iter()
                .map(|p| {
                    if gi % 17 == 0 && k == 0 && p.to_bits() > 0 {
                        Tent::new(*p, Some((F2Dot14::from_bits(p.to_bits() / 2), F2Dot14::from_bits(16384))))
                    } else {
                        Tent::new(*p, None)
                    }
                })
                .collect();
            let ds: Vec<GlyphDelta> = (0..n_points)
                .map(|pi| {
                    let (x, y) = (rng.range(-300, 300) as i16, rng.range(-300, 300) as i16);
                    if (pi + gi + k) % 3 == 0 {
                        GlyphDelta::optional(x, y)
                    } else {
                        GlyphDelta::required(x, y)
                    }
                })
                .collect();
            list.push(GlyphDeltas::new(tents, ds));
        }
        // a few glyphs without variations, a few with a private tuple
        if gi % 23 == 5 {
            list.clear();
        }
        vars.push(GlyphVariations::new(GlyphId::new(gi as u32), list));
    }
    // glyph order scrambled: Gvar::new sorts by gid but counts tuples in input order
    rng.shuffle(&mut vars);
    let gvar = Gvar::new(vars, AXES).map_err(|e| format!("gvar input: {e:?}"))?;
    dump_table(&gvar).map_err(|e| format!("gvar: {e}"))
}

// ------------------------------------------------------------ ItemVariationStore

fn ivs_many(seed: u64, n_regions: usize, n_rows: usize, direct: bool) -> Result<Vec<u8>, String> {
    let mut rng = Rng::derive(seed, "c07-ivs", (n_regions * 100000 + n_rows) as u64 + direct as u64);
    let pool = region_pool(&mut rng, n_regions);
    let mut b = if direct { VariationStoreBuilder::new_with_implicit_indices(AXES) } else { VariationStoreBuilder::new(AXES) };
    let mut ids = vec![];
    for r in 0..n_rows {
        let k = 1 + rng.below(6) as usize;
        let mut idx: Vec<usize> = (0..pool.len()).collect();
        rng.shuffle(&mut idx);
        idx.truncate(k);
        let row: Vec<(VariationRegion, i32)> = idx
            .into_iter()
            .map(|i| {
                let v = match (r + i) % 4 {
                    0 => rng.range(-100, 100),
                    1 => rng.range(-30000, 30000),
                    2 => rng.range(-100000, 100000),
                    _ => 0,
                } as i32;
                (pool[i].clone(), v)
            })
            .collect();
        ids.push(b.add_deltas(row));
    }
    let (store, remap) = b.build();
    let mut out = dump_table(&store).map_err(|e| format!("ivs: {e}"))?;
    out.extend_from_slice(b"--REMAP--");
    for id in ids {
        match remap.get(id) {
            Some(v) => {
                out.extend_from_slice(&v.delta_set_outer_index.to_be_bytes());
                out.extend_from_slice(&v.delta_set_inner_index.to_be_bytes());
            }
            None => out.extend_from_slice(b"none"),
        }
    }
    Ok(out)
}

// ------------------------------------------------------------ COLR

fn colr_synth(seed: u64, n_base: usize) -> Result<Vec<u8>, String> {
    use write_fonts::tables::colr::*;
    let mut rng = Rng::derive(seed, "c07-colr", n_base as u64);
    let mut layers: Vec<Paint> = vec![];
    let mut base = vec![];
    for i in 0..n_base {
        let n_layers = 1 + (i % 4);
        let first = layers.len() as u32;
        for l in 0..n_layers {
            // few distinct fills: many identical subtables for the object store to share
            let fill = match (i + l) % 4 {
                0 => Paint::solid((i % 7) as u16, F2Dot14::from_bits(16384)),
                1 => Paint::linear_gradient(
                    ColorLine::new(
                        Extend::Pad,
                        2,
                        vec![
                            ColorStop::new(F2Dot14::from_bits(0), (i % 5) as u16, F2Dot14::from_bits(16384)),
                            ColorStop::new(F2Dot14::from_bits(16384), (l % 5) as u16, F2Dot14::from_bits(8192)),
                        ],
                    ),
                    FWord::new(0),
                    FWord::new(0),
                    FWord::new(rng.range(0, 3) as i16 * 100),
                    FWord::new(100),
                    FWord::new(0),
                    FWord::new(100),
                ),
                2 => Paint::var_solid((l % 3) as u16, F2Dot14::from_bits(16384), (i % 10) as u32),
                _ => Paint::solid(1, F2Dot14::from_bits(8192)),
            };
            let mut p = Paint::glyph(fill, g(1000 + (i * 3 + l) % 500));
            if (i + l) % 5 == 0 {
                p = Paint::translate(p, FWord::new((i % 9) as i16), FWord::new(3));
            }
            layers.push(p);
        }
        let root = if n_layers == 1 && i % 2 == 0 {
            layers.pop().unwrap()
        } else {
            Paint::colr_layers(n_layers as u8, first)
        };
        base.push(BaseGlyphPaint::new(g(10 + i), root));
    }
    let clips: Vec<Clip> = (0..n_base / 4)
        .map(|c| {
            Clip::new(
                g(10 + c * 4),
                g(10 + c * 4 + 3),
                ClipBox::format_1(FWord::new(0), FWord::new(0), FWord::new(500 + (c % 3) as i16), FWord::new(700)),
            )
        })
        .collect();
    let mut colr = Colr::new(0, None, None, 0);
    colr.base_glyph_list.set(BaseGlyphList::new(base.len() as u32, base));
    colr.layer_list.set(LayerList::new(layers.len() as u32, layers));
    colr.clip_list.set(ClipList::new(1, clips.len() as u32, clips));
    dump_table(&colr).map_err(|e| format!("COLR: {e}"))
}

// ------------------------------------------------------------ recompiling corpus tables

fn recompile<T>(data: &[u8]) -> Result<Vec<u8>, String>
where
    T: for<'a> FontRead<'a> + FontWrite + Validate + TopLevelTable,
{
    let font = FontRef::new(data).map_err(|e| format!("{e}"))?;
    let td = font.table_data(T::TAG).ok_or("missing")?;
    let t = T::read(td).map_err(|e| format!("read: {e}"))?;
    dump_table(&t).map_err(|e| format!("dump: {e}"))
}

type Recompiler = fn(&[u8]) -> Result<Vec<u8>, String>;

fn recompilers() -> Vec<(&'static str, Recompiler)> {
    use write_fonts::tables as t;
    vec![
        ("GPOS", recompile::<t::gpos::Gpos> as Recompiler),
        ("GSUB", recompile::<t::gsub::Gsub>),
        ("GDEF", recompile::<t::gdef::Gdef>),
        ("BASE", recompile::<t::base::Base>),
        ("cmap", recompile::<t::cmap::Cmap>),
        ("COLR", recompile::<t::colr::Colr>),
        ("CPAL", recompile::<t::cpal::Cpal>),
        ("fvar", recompile::<t::fvar::Fvar>),
        ("avar", recompile::<t::avar::Avar>),
        ("HVAR", recompile::<t::hvar::Hvar>),
        ("VVAR", recompile::<t::vvar::Vvar>),
        ("MVAR", recompile::<t::mvar::Mvar>),
        ("STAT", recompile::<t::stat::Stat>),
        ("name", recompile::<t::name::Name>),
        ("OS/2", recompile::<t::os2::Os2>),
        ("post", recompile::<t::post::Post>),
        ("meta", recompile::<t::meta::Meta>),
    ]
}

/// A full font through FontBuilder: every table write-fonts can re-compile is
/// added with add_table (in a scrambled order), the rest is copied.
fn rebuild_font(data: &[u8], order_seed: u64) -> Result<Vec<u8>, String> {
    use write_fonts::tables as t;
    let font = FontRef::new(data).map_err(|e| format!("{e}"))?;
    let mut b = FontBuilder::new();
    let mut steps: Vec<usize> = (0..12).collect();
    Rng::new(order_seed).shuffle(&mut steps);
    macro_rules! add {
        ($ty:ty) => {{
            if let Some(td) = font.table_data(<$ty as TopLevelTable>::TAG) {
                if let Ok(tbl) = <$ty as FontRead>::read(td) {
                    b.add_table(&tbl).map_err(|e| format!("{e}"))?;
                }
            }
        }};
    }
    for s in steps {
        match s {
            0 => add!(t::gpos::Gpos),
            1 => add!(t::gsub::Gsub),
            2 => add!(t::gdef::Gdef),
            3 => add!(t::cmap::Cmap),
            4 => add!(t::name::Name),
            5 => add!(t::os2::Os2),
            6 => add!(t::post::Post),
            7 => add!(t::fvar::Fvar),
            8 => add!(t::hvar::Hvar),
            9 => add!(t::stat::Stat),
            10 => add!(t::head::Head),
            _ => add!(t::maxp::Maxp),
        }
    }
    b.copy_missing_tables(font);
    Ok(b.build())
}

// ------------------------------------------------------------ klippa

pub(crate) fn subset(data: &[u8], plan_kind: usize) -> Result<Vec<u8>, String> {
    use klippa::{subset_font, Plan, SubsetFlags, DEFAULT_LAYOUT_FEATURES};
    let font = FontRef::new(data).map_err(|e| format!("{e}"))?;
    let mut gids: IntSet<GlyphId> = IntSet::empty();
    let mut unicodes: IntSet<u32> = IntSet::empty();
    let mut flags = SubsetFlags::SUBSET_FLAGS_DEFAULT;
    match plan_kind {
        0 => {
            unicodes.insert_range(0x20..=0x17F);
            unicodes.insert_range(0x391..=0x3C9);
            unicodes.insert_range(0x5D0..=0x5EA);
            unicodes.insert_range(0x4E00..=0x4E40);
        }
        1 => {
            for i in 0..120u32 {
                gids.insert(GlyphId::new(i * 3));
            }
            flags |= SubsetFlags::SUBSET_FLAGS_RETAIN_GIDS;
        }
        _ => {
            unicodes.insert_range(0x0..=0xFFFF);
            flags |= SubsetFlags::SUBSET_FLAGS_NO_HINTING;
            flags |= SubsetFlags::SUBSET_FLAGS_NOTDEF_OUTLINE;
        }
    }
    let drop_tables: IntSet<Tag> = IntSet::empty();
    let mut layout_scripts: IntSet<Tag> = IntSet::empty();
    layout_scripts.invert();
    let mut layout_features: IntSet<Tag> = IntSet::empty();
    if plan_kind == 2 {
        layout_features.invert();
    } else {
        layout_features.extend(DEFAULT_LAYOUT_FEATURES.iter().copied());
    }
    let mut name_ids: IntSet<NameId> = IntSet::empty();
    name_ids.insert_range(NameId::from(0)..=NameId::from(6));
    let mut name_languages: IntSet<u16> = IntSet::empty();
    name_languages.insert(0x0409);
    let plan = Plan::new(&gids, &unicodes, &font, flags, &drop_tables, &layout_scripts, &layout_features, &name_ids, &name_languages);
    subset_font(&font, &plan).map_err(|e| format!("{e}"))
}

// ------------------------------------------------------------ the list

pub(crate) fn mk(name: impl Into<String>, kind: &'static str, declared: usize, f: impl Fn() -> Result<Vec<u8>, String> + Send + Sync + 'static) -> Input {
    Input {
        name: name.into(),
        kind,
        declared_hashed: declared,
        make: Arc::new(f),
        describe: None,
    }
}

/// Small, fast compilations used as "unrelated prior work".
pub fn filler_inputs(seed: u64) -> Vec<Input> {
    let mut v = vec![];
    for k in 0..6usize {
        v.push(mk(format!("filler-single-{k}"), "filler", 0, move || {
            let mut rng = Rng::derive(seed, "c07-filler", k as u64);
            let mut store = VariationStoreBuilder::new(AXES);
            let l = single_lookup(&mut rng, 12 + k * 5, None, &mut store);
            dump_gpos_gdef(vec![l], store)
        }));
    }
    v.push(mk("filler-ivs", "filler", 0, move || ivs_many(seed, 6, 12, false)));
    v.push(mk("filler-gvar", "filler", 0, move || gvar_equal_counts(seed, 12, 4, 2)));
    v
}

pub fn canonical_inputs(seed: u64, thorough: bool) -> Vec<Input> {
    let mut v: Vec<Input> = vec![];

    // ---- synthesized through the builders
    v.push(mk("gpos-pairpos-glyph-110KiB", "gpos-builder", 64, move || {
        let mut rng = Rng::derive(seed, "c07-ppg", 0);
        let mut store = VariationStoreBuilder::new(AXES);
        let l = pairpos_glyph_lookup(&mut rng, 130, 150, None, &mut store);
        dump_gpos_gdef(vec![l], store)
    }));
    v.push(mk("gpos-pairpos-glyph-variable", "gpos-builder", 64, move || {
        let mut rng = Rng::derive(seed, "c07-ppgv", 0);
        let pool = region_pool(&mut rng, 64);
        let mut store = VariationStoreBuilder::new(AXES);
        let l = pairpos_glyph_lookup(&mut rng, 60, 120, Some(&pool), &mut store);
        dump_gpos_gdef(vec![l], store)
    }));
    v.push(mk("gpos-pairpos-class-150x150", "gpos-builder", 150, move || {
        let mut rng = Rng::derive(seed, "c07-ppc", 0);
        let mut store = VariationStoreBuilder::new(AXES);
        let l = pairpos_class_lookup(&mut rng, 150, 150, None, &mut store);
        dump_gpos_gdef(vec![l], store)
    }));
    v.push(mk("gpos-markbase-900bases", "gpos-builder", 60, move || {
        let mut rng = Rng::derive(seed, "c07-mb", 0);
        let mut store = VariationStoreBuilder::new(AXES);
        let l = markbase_lookup(&mut rng, 300, 12, 900, None, &mut store);
        dump_gpos_gdef(vec![l], store)
    }));
    v.push(mk("gpos-markbase-variable", "gpos-builder", 60, move || {
        let mut rng = Rng::derive(seed, "c07-mbv", 0);
        let pool = region_pool(&mut rng, 60);
        let mut store = VariationStoreBuilder::new(AXES);
        let l = markbase_lookup(&mut rng, 120, 12, 900, Some(&pool), &mut store);
        dump_gpos_gdef(vec![l], store)
    }));
    v.push(mk("gpos-all-lookup-types-variable", "gpos-builder", 80, move || {
        let mut rng = Rng::derive(seed, "c07-all", 0);
        let pool = region_pool(&mut rng, 80);
        let mut store = VariationStoreBuilder::new(AXES);
        let mut ls = vec![];
        ls.push(single_lookup(&mut rng, 400, Some(&pool), &mut store));
        ls.push(pairpos_glyph_lookup(&mut rng, 40, 90, Some(&pool), &mut store));
        ls.push(cursive_lookup(&mut rng, 200, &mut store));
        ls.push(markbase_lookup(&mut rng, 100, 8, 500, Some(&pool), &mut store));
        ls.push(marklig_lookup(&mut rng, 60, 150, &mut store));
        ls.push(markmark_lookup(&mut rng, 120, Some(&pool), &mut store));
        ls.push(pairpos_class_lookup(&mut rng, 60, 70, Some(&pool), &mut store));
        ls.push(single_lookup(&mut rng, 90, None, &mut store));
        ls.push(pairpos_glyph_lookup(&mut rng, 50, 60, None, &mut store));
        dump_gpos_gdef(ls, store)
    }));
    v.push(mk("gpos-small-all-types", "gpos-builder", 50, move || {
        let mut rng = Rng::derive(seed, "c07-small", 0);
        let pool = region_pool(&mut rng, 50);
        let mut store = VariationStoreBuilder::new(AXES);
        let mut ls = vec![];
        ls.push(single_lookup(&mut rng, 150, Some(&pool), &mut store));
        ls.push(pairpos_glyph_lookup(&mut rng, 12, 20, Some(&pool), &mut store));
        ls.push(markbase_lookup(&mut rng, 30, 4, 60, Some(&pool), &mut store));
        ls.push(markmark_lookup(&mut rng, 30, None, &mut store));
        ls.push(pairpos_class_lookup(&mut rng, 12, 14, None, &mut store));
        dump_gpos_gdef(ls, store)
    }));
    v.push(mk("gsub-large-3x4-lookups", "gsub-builder", 900, move || gsub_large(seed, 3)));
    v.push(mk("gsub-1x4-lookups", "gsub-builder", 900, move || gsub_large(seed, 1)));
    v.push(mk("gvar-300glyphs-60tuples-equal-counts", "gvar", 60, move || gvar_equal_counts(seed, 300, 60, 4)));
    v.push(mk("gvar-120glyphs-120tuples-count2", "gvar", 120, move || gvar_equal_counts(seed, 120, 120, 2)));
    v.push(mk("ivs-80regions-400rows", "ivs", 400, move || ivs_many(seed, 80, 400, false)));
    v.push(mk("ivs-60regions-700rows", "ivs", 700, move || ivs_many(seed, 60, 700, false)));
    v.push(mk("ivs-direct-64regions-300rows", "ivs", 64, move || ivs_many(seed, 64, 300, true)));
    v.push(mk("colr-synth-400", "colr", 0, move || colr_synth(seed, 400)));
    v.push(mk("fontbuilder-synth-layout-font", "fontbuilder", 80, move || {
        let mut rng = Rng::derive(seed, "c07-font", 0);
        let pool = region_pool(&mut rng, 80);
        let mut store = VariationStoreBuilder::new(AXES);
        let ls = vec![
            single_lookup(&mut rng, 120, Some(&pool), &mut store),
            pairpos_glyph_lookup(&mut rng, 30, 40, Some(&pool), &mut store),
            markbase_lookup(&mut rng, 40, 5, 120, Some(&pool), &mut store),
        ];
        let (gpos, gdef) = finish_gpos(ls, store)?;
        let gsub = gsub_large(seed, 1)?;
        let gvar = gvar_equal_counts(seed, 60, 12, 3)?;
        let colr = colr_synth(seed, 60)?;
        let mut b = FontBuilder::new();
        b.add_raw(Tag::new(b"gvar"), gvar);
        b.add_table(&gpos).map_err(|e| format!("{e}"))?;
        b.add_raw(Tag::new(b"COLR"), colr);
        if let Some(gdef) = gdef {
            b.add_table(&gdef).map_err(|e| format!("{e}"))?;
        }
        b.add_raw(Tag::new(b"GSUB"), gsub);
        b.add_raw(Tag::new(b"head"), vec![0u8; 54]);
        Ok(b.build())
    }));

    // ---- corpus tables re-compiled, whole fonts rebuilt, fonts subset
    let mut fonts = vf_core::test_data_fonts();
    fonts.extend(vf_core::extra_fonts());
    fonts.retain(|f| f.name.ends_with(".ttf") || f.name.ends_with(".otf"));
    let big_ok = thorough;
    for f in &fonts {
        if f.data.len() > 1_000_000 && !big_ok {
            continue;
        }
        let Ok(font) = FontRef::new(&f.data) else { continue };
        for (tag, rc) in recompilers() {
            let t = Tag::new_checked(tag.as_bytes()).unwrap();
            let Some(td) = font.table_data(t) else { continue };
            if td.len() < 64 {
                continue;
            }
            let data = f.data.clone();
            v.push(mk(format!("recompile:{}:{}", f.name, tag), "recompile", 0, move || rc(&data)));
        }
    }
    for (i, f) in fonts.iter().enumerate() {
        if f.data.len() > 1_000_000 {
            continue;
        }
        let data = f.data.clone();
        v.push(mk(format!("rebuild-font:{}", f.name), "fontbuilder", 0, move || rebuild_font(&data, seed ^ i as u64)));
    }
    let mut sub_fonts = vf_core::klippa_fonts();
    sub_fonts.extend(vf_core::extra_fonts());
    sub_fonts.extend(vf_core::test_data_fonts().into_iter().filter(|f| {
        ["vazirmatn_var_trimmed.ttf", "noto_serif_display_trimmed.ttf", "cantarell_vf_trimmed.ttf", "material_icons_subset.ttf", "tinos_subset.ttf"]
            .contains(&f.name.as_str())
    }));
    sub_fonts.retain(|f| f.name.ends_with(".ttf") || f.name.ends_with(".otf"));
    for f in &sub_fonts {
        for plan in 0..3usize {
            let data = f.data.clone();
            v.push(mk(format!("klippa-subset:{}:plan{}", f.name, plan), "klippa", 120, move || subset(&data, plan)));
        }
    }
    // ---- deliberate ties (see ties.rs)
    v.extend(crate::ties::tie_inputs(seed));
    v
}
