fn main() {
    vf_core::main_with("C07", vf_c07::run, vf_c07::REPLAY);
}
