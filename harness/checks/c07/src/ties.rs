//! Canonical inputs with DELIBERATE TIES.
//!
//! Every place where the compiler orders things by a computed key (subgraph
//! size ratio, class size, tuple use count, row cost, merge gain, distance)
//! is only deterministic on ties if the incoming order is deterministic (or
//! the key is total). Inputs made of "random" values almost never tie; the
//! inputs here are built so that the computed keys are EQUAL for several
//! competing candidates while the candidates themselves differ (other glyph
//! ids / values, so nothing is shared or deduplicated between them):
//!
//!  * GSUB / GPOS tables of k in {2,3,8} lookups of identical shape and size
//!    whose total does not fit the 16-bit offset space, so that the packer
//!    must promote some — but not all — of the tied lookups to extension
//!    lookups (`select_promotions_hb` sorts by subtables-per-byte);
//!  * pair-pos (format 1 and 2) and mark-to-base lookups of identical size
//!    whose subtables are all > 64 KiB and made of equal-size pair sets /
//!    class records / base records, so that several lookups need splitting
//!    (and every split point is a tie);
//!  * variation stores whose rows fall into many encodings of equal row cost
//!    and equal pairwise merge gain; regions used equally often;
//!  * gvar with more tuples of equal use count than there are shared-tuple
//!    slots (4095);
//!  * a font whose `name` table carries records that tie on klippa's
//!    sort key, subset with klippa.
//!
//! All sizes are functions of the parameters only; VERIF_SEED varies values
//! (never sizes), so every shard of a run compiles the same input set.
use crate::inputs::{g, mk, scripts_features, Input, AXES};
use write_fonts::read::{FontRef, TableProvider};
use write_fonts::tables::gpos::{
    AnchorTable, BaseArray, BaseRecord, Class1Record, Class2Record, CursivePosFormat1, EntryExitRecord, Gpos, MarkArray,
    MarkBasePosFormat1, MarkRecord, PairPos, PairSet, PairValueRecord, PositionLookup, PositionLookupList, SinglePos, ValueRecord,
};
use write_fonts::tables::gsub::{
    AlternateSet, AlternateSubstFormat1, Gsub, Ligature, LigatureSet, LigatureSubstFormat1, MultipleSubstFormat1, Sequence, SingleSubst,
    SubstitutionLookup, SubstitutionLookupList,
};
use write_fonts::tables::gvar::{GlyphDelta, GlyphDeltas, GlyphVariations, Gvar, Tent};
use write_fonts::tables::layout::{ClassDef, CoverageTable, Lookup, LookupFlag};
use write_fonts::tables::variations::ivs_builder::VariationStoreBuilder;
use write_fonts::tables::variations::{RegionAxisCoordinates, VariationRegion};
use write_fonts::types::{F2Dot14, GlyphId, GlyphId16, Tag};
use write_fonts::{dump_table, FontBuilder};

/// value salt derived from the seed: changes values, never sizes
fn salt(seed: u64, label: u64) -> usize {
    (vf_core::Rng::derive(seed, "c07-ties", label).below(97)) as usize
}

// ------------------------------------------------------------ GSUB families

#[derive(Clone, Copy)]
pub enum SubKind {
    /// flat (format 2) single substitution: no level below the subtable
    Single,
    Ligature,
    Alternate,
    Multiple,
}

/// One GSUB lookup of `n_sub` subtables, each covering `sets` glyphs with
/// `per_set` items. Lookup `l` of a family uses its own glyph-id block, so
/// that families are isomorphic but share no object.
fn gsub_lookup(kind: SubKind, l: usize, n_sub: usize, sets: usize, per_set: usize, salt: usize) -> SubstitutionLookup {
    let block = 7000 * l; // k <= 8 -> < 56000
    let cov = |s: usize| -> CoverageTable { (0..sets).map(|i| g(100 + block + s * sets + i)).collect() };
    match kind {
        SubKind::Single => {
            // wide blocks: only for k <= 2
            let subs = (0..n_sub)
                .map(|s| {
                    let c: CoverageTable = (0..sets).map(|i| g(100 + 25000 * l + s * sets + i)).collect();
                    SingleSubst::format_2(c, (0..sets).map(|i| g((i * 7 + l * 13 + s * 3 + salt) % 65000)).collect())
                })
                .collect();
            SubstitutionLookup::Single(Lookup::new(LookupFlag::empty(), subs))
        }
        SubKind::Ligature => {
            let subs = (0..n_sub)
                .map(|s| {
                    let sets_v = (0..sets)
                        .map(|i| {
                            LigatureSet::new(
                                (0..per_set)
                                    .map(|j| {
                                        // unique ligature glyph: no two Ligature tables are equal
                                        let lig = 100 + block + ((s * sets + i) * per_set + j) % 6900;
                                        Ligature::new(g(lig), vec![g(20 + (j + salt) % 60), g(20 + (i + l) % 60)])
                                    })
                                    .collect(),
                            )
                        })
                        .collect();
                    LigatureSubstFormat1::new(cov(s), sets_v)
                })
                .collect();
            SubstitutionLookup::Ligature(Lookup::new(LookupFlag::empty(), subs))
        }
        SubKind::Alternate => {
            let subs = (0..n_sub)
                .map(|s| {
                    let sets_v = (0..sets)
                        .map(|i| {
                            let first = 100 + block + (s * sets + i) % 6900;
                            AlternateSet::new((0..per_set).map(|j| if j == 0 { g(first) } else { g(60000 + (j + salt) % 500) }).collect())
                        })
                        .collect();
                    AlternateSubstFormat1::new(cov(s), sets_v)
                })
                .collect();
            SubstitutionLookup::Alternate(Lookup::new(LookupFlag::empty(), subs))
        }
        SubKind::Multiple => {
            let subs = (0..n_sub)
                .map(|s| {
                    let seqs = (0..sets)
                        .map(|i| {
                            let first = 100 + block + (s * sets + i) % 6900;
                            Sequence::new((0..per_set).map(|j| if j == 0 { g(first) } else { g(61000 + (j * 3 + salt) % 500) }).collect())
                        })
                        .collect();
                    MultipleSubstFormat1::new(cov(s), seqs)
                })
                .collect();
            SubstitutionLookup::Multiple(Lookup::new(LookupFlag::empty(), subs))
        }
    }
}

/// A family: `k` tied lookups preceded by `ballast` small lookups of other
/// (pairwise different) size ratios.
fn gsub_family(seed: u64, kind: SubKind, k: usize, n_sub: usize, sets: usize, per_set: usize, ballast: usize) -> Result<Vec<u8>, String> {
    let sa = salt(seed, (k * 1000 + sets) as u64);
    let mut lookups = vec![];
    for l in 0..k {
        lookups.push(gsub_lookup(kind, l, n_sub, sets, per_set, sa));
    }
    // ballast after the tied lookups (so that the offset to the last lookup
    // overflows even when the tied ones alone would pack); distinct ratios
    let mut cov_off = 0;
    for b in 0..ballast {
        lookups.push(gsub_ballast(cov_off, 40 + 17 * b, 3 + b % 3, sa));
        cov_off += 40 + 17 * b;
    }
    let (sl, fl) = scripts_features(b"liga", lookups.len());
    let gsub = Gsub::new(sl, fl, SubstitutionLookupList::new(lookups));
    dump_table(&gsub).map_err(|e| format!("GSUB: {e}"))
}

// ------------------------------------------------------------ GPOS families

#[derive(Clone, Copy)]
pub enum PosKind {
    Single,
    Cursive,
    PairGlyph,
    PairClass,
    MarkBase,
}

fn val(x: usize) -> ValueRecord {
    ValueRecord::new().with_x_advance((x % 30000) as i16 - 15000)
}

/// 8-byte record (four fields), unique per `x`
fn val4(x: usize, y: usize) -> ValueRecord {
    ValueRecord::new().with_x_placement((y % 7) as i16).with_y_placement((y % 1000) as i16).with_x_advance((x % 30000) as i16 - 15000).with_y_advance(1)
}

/// One GPOS lookup of `n_sub` subtables of `n` primary entries with `m`
/// secondary entries each (pair records / class2 records / mark classes).
fn gpos_lookup(kind: PosKind, l: usize, n_sub: usize, n: usize, m: usize, salt: usize) -> PositionLookup {
    let block = 7000 * l;
    let cov = |s: usize| -> CoverageTable { (0..n).map(|i| g(100 + block + s * n + i)).collect() };
    match kind {
        PosKind::Single => {
            let subs = (0..n_sub)
                .map(|s| {
                    // all records distinct inside the lookup and across lookups
                    let recs = (0..n).map(|i| val4(s * n + i + 7 * l + salt, i + l * 100)).collect();
                    SinglePos::format_2(cov(s), recs)
                })
                .collect();
            PositionLookup::Single(Lookup::new(LookupFlag::empty(), subs))
        }
        PosKind::Cursive => {
            let subs = (0..n_sub)
                .map(|s| {
                    let recs = (0..n)
                        .map(|i| {
                            // anchors unique per (lookup, subtable, glyph): no sharing
                            let x = (s * n + i) as i16;
                            EntryExitRecord::new(Some(AnchorTable::format_1(x, (l * 2) as i16 + salt as i16 * 16)), Some(AnchorTable::format_1(x, (l * 2 + 1) as i16 + salt as i16 * 16)))
                        })
                        .collect();
                    CursivePosFormat1::new(cov(s), recs)
                })
                .collect();
            PositionLookup::Cursive(Lookup::new(LookupFlag::RIGHT_TO_LEFT, subs))
        }
        PosKind::PairGlyph => {
            let subs = (0..n_sub)
                .map(|s| {
                    let sets = (0..n)
                        .map(|i| {
                            // every pair set has m records: equal-size siblings;
                            // the first record makes the set unique
                            PairSet::new(
                                (0..m)
                                    .map(|j| PairValueRecord::new(g(10 + j), val(if j == 0 { (s * n + i) * 8 + l + salt * 64 } else { j + l }), ValueRecord::default()))
                                    .collect(),
                            )
                        })
                        .collect();
                    PairPos::format_1(cov(s), sets)
                })
                .collect();
            PositionLookup::Pair(Lookup::new(LookupFlag::empty(), subs))
        }
        PosKind::PairClass => {
            let subs = (0..n_sub)
                .map(|s| {
                    // n class-1 classes of one glyph each (equal sizes), m class-2 classes of one glyph each
                    let cd1: ClassDef = (0..n).map(|i| (g(100 + block + s * n + i), i as u16)).collect();
                    let cd2: ClassDef = (1..m).map(|j| (g(60000 + j), j as u16)).collect();
                    let c1 = (0..n)
                        .map(|i| Class1Record::new((0..m).map(|j| Class2Record::new(val(i * 31 + j * 7 + l + salt), ValueRecord::default())).collect()))
                        .collect();
                    PairPos::format_2(cov(s), cd1, cd2, c1)
                })
                .collect();
            PositionLookup::Pair(Lookup::new(LookupFlag::empty(), subs))
        }
        PosKind::MarkBase => {
            let subs = (0..n_sub)
                .map(|s| {
                    // m mark classes, 2 marks per class; n bases with an anchor per class
                    let n_marks = m * 2;
                    let mark_cov: CoverageTable = (0..n_marks).map(|k| g(62000 + l * 100 + s * n_marks + k)).collect();
                    let marks = MarkArray::new((0..n_marks).map(|k| MarkRecord::new((k % m) as u16, AnchorTable::format_1(k as i16, -(l as i16) - 1))).collect());
                    let bases = BaseArray::new(
                        (0..n)
                            .map(|i| BaseRecord::new((0..m).map(|c| Some(AnchorTable::format_1((s * n + i) as i16, (c * 16 + l * 2 + (salt % 8) * 512) as i16))).collect()))
                            .collect(),
                    );
                    MarkBasePosFormat1::new(mark_cov, cov(s), marks, bases)
                })
                .collect();
            PositionLookup::MarkToBase(Lookup::new(LookupFlag::empty(), subs))
        }
    }
}

fn gpos_family(seed: u64, kind: PosKind, k: usize, n_sub: usize, n: usize, m: usize, ballast: usize) -> Result<Vec<u8>, String> {
    let sa = salt(seed, (k * 1000 + n) as u64);
    let mut lookups = vec![];
    for l in 0..k {
        lookups.push(gpos_lookup(kind, l, n_sub, n, m, sa));
    }
    for b in 0..ballast {
        // different glyph blocks (8 + b would leave the 16-bit range): shift inside block 8
        lookups.push(gpos_ballast(b * 400, 60 + 23 * b, sa));
    }
    let (sl, fl) = scripts_features(b"kern", lookups.len());
    let gpos = Gpos::new(sl, fl, PositionLookupList::new(lookups));
    dump_table(&gpos).map_err(|e| format!("GPOS: {e}"))
}

/// Two tied families in one table (4 + 4 lookups, two size classes).
fn gpos_two_classes(seed: u64) -> Result<Vec<u8>, String> {
    let sa = salt(seed, 44);
    let mut lookups = vec![];
    for l in 0..4 {
        lookups.push(gpos_lookup(PosKind::Single, l, 1, 2200, 0, sa));
    }
    for l in 4..8 {
        lookups.push(gpos_lookup(PosKind::Cursive, l, 1, 900, 0, sa));
    }
    let (sl, fl) = scripts_features(b"kern", lookups.len());
    let gpos = Gpos::new(sl, fl, PositionLookupList::new(lookups));
    dump_table(&gpos).map_err(|e| format!("GPOS: {e}"))
}

/// small single-subtable lookups of pairwise different size
fn gsub_ballast(cov_off: usize, sets: usize, per_set: usize, salt: usize) -> SubstitutionLookup {
    let cov: CoverageTable = (0..sets).map(|i| g(57000 + cov_off + i)).collect();
    let sets_v = (0..sets).map(|i| AlternateSet::new((0..per_set).map(|j| if j == 0 { g(57000 + cov_off + i) } else { g(60000 + (j + salt) % 500) }).collect())).collect();
    SubstitutionLookup::Alternate(Lookup::new(LookupFlag::empty(), vec![AlternateSubstFormat1::new(cov, sets_v)]))
}

fn gpos_ballast(cov_off: usize, n: usize, salt: usize) -> PositionLookup {
    let cov: CoverageTable = (0..n).map(|i| g(57000 + cov_off + i)).collect();
    let recs = (0..n).map(|i| val4(cov_off + i + salt, i)).collect();
    PositionLookup::Single(Lookup::new(LookupFlag::empty(), vec![SinglePos::format_2(cov, recs)]))
}

// ------------------------------------------------------------ what the packer did

/// "promoted p of k lookups; subtables per lookup [..]" read back from the
/// compiled table (GPOS extension = type 9, GSUB extension = type 7).
pub fn describe_layout(bytes: &[u8], gsub: bool) -> String {
    // raw header walk: GSUB/GPOS header -> LookupList -> Lookup {type, flag, subTableCount}
    let u16_at = |o: usize| -> Option<usize> { Some(u16::from_be_bytes([*bytes.get(o)?, *bytes.get(o + 1)?]) as usize) };
    let parse = || -> Option<String> {
        let ll = u16_at(8)?;
        let n = u16_at(ll)?;
        let mut types = vec![];
        let mut counts = vec![];
        for i in 0..n {
            let lo = ll + u16_at(ll + 2 + 2 * i)?;
            types.push(u16_at(lo)?);
            counts.push(u16_at(lo + 4)?);
        }
        let ext = if gsub { 7 } else { 9 };
        let promoted: Vec<usize> = types.iter().enumerate().filter(|(_, t)| **t == ext).map(|(i, _)| i).collect();
        Some(format!("{} lookups, promoted {} {:?}, subtables {:?}", types.len(), promoted.len(), promoted, counts))
    };
    parse().unwrap_or_else(|| "unreadable".into())
}

// ------------------------------------------------------------ variation store ties

fn region(peaks: &[i16]) -> VariationRegion {
    VariationRegion::new(
        peaks
            .iter()
            .map(|p| {
                let p = F2Dot14::from_bits(*p);
                let z = F2Dot14::from_bits(0);
                if p.to_bits() >= 0 {
                    RegionAxisCoordinates::new(z, p, p)
                } else {
                    RegionAxisCoordinates::new(p, p, z)
                }
            })
            .collect(),
    )
}

/// `n_regions` regions, every one used by exactly the same number of rows;
/// rows fall into 3 * n_regions encodings (single i8 column r; single i16
/// column r; two i8 columns r, r+1) with `rows` rows each: all encodings of
/// a tier have equal row cost, and all pairwise merge gains inside a tier
/// are equal.
fn ivs_ties(seed: u64, n_regions: usize, rows: usize, direct: bool) -> Result<Vec<u8>, String> {
    let sa = salt(seed, (n_regions * 100 + rows) as u64) as i32;
    let pool: Vec<VariationRegion> = (0..n_regions).map(|r| region(&[((r % 7) as i16 + 1) * 2048, ((r / 7) as i16 + 1) * 2048, 0])).collect();
    let mut b = if direct { VariationStoreBuilder::new_with_implicit_indices(AXES) } else { VariationStoreBuilder::new(AXES) };
    let mut ids = vec![];
    // insertion order interleaves the tiers and walks the regions backwards:
    // nothing is "already sorted"
    for i in 0..rows {
        for r in (0..n_regions).rev() {
            let u = (i * n_regions + r) as i32; // unique per row of a tier
            ids.push(b.add_deltas(vec![(pool[r].clone(), 1 + (u + sa) % 120)]));
            ids.push(b.add_deltas(vec![(pool[r].clone(), 1000 + u + sa)]));
            ids.push(b.add_deltas(vec![(pool[r].clone(), -1 - (u % 120)), (pool[(r + 1) % n_regions].clone(), 1 + (u / 120 + sa) % 120)]));
        }
    }
    let (store, remap) = b.build();
    let mut out = dump_table(&store).map_err(|e| format!("ivs: {e}"))?;
    out.extend_from_slice(b"--REMAP--");
    for id in ids {
        match remap.get(id) {
            Some(v) => {
                out.extend_from_slice(&v.delta_set_outer_index.to_be_bytes());
                out.extend_from_slice(&v.delta_set_inner_index.to_be_bytes());
            }
            None => out.extend_from_slice(b"none"),
        }
    }
    Ok(out)
}

// ------------------------------------------------------------ gvar: more tied tuples than shared slots

/// `n` distinct peak tuples, each used by exactly two glyphs (count 2 > 1, so
/// every one is a candidate for sharing); n > 4095 = MAX_SHARED_TUPLES, so
/// which of the tied tuples get a slot is decided by the tie-break alone.
fn gvar_tied_slots(seed: u64, n: usize) -> Result<Vec<u8>, String> {
    let sa = salt(seed, n as u64) as i16;
    let peak = |t: usize| -> Vec<F2Dot14> {
        // 3 axes, 17 steps each (never all zero)
        let t = t + 1;
        [t % 17, (t / 17) % 17, (t / 289) % 17].iter().map(|v| F2Dot14::from_bits((*v as i16 - 8) * 2048)).collect()
    };
    // skip the all-zero tuple (t+1 such that all three digits are 8)
    let tuples: Vec<Vec<F2Dot14>> = (0..n + 1).map(peak).filter(|p| p.iter().any(|x| x.to_bits() != 0)).take(n).collect();
    let mut vars = vec![];
    for gi in 0..n {
        let list = [gi, (gi + 1) % n]
            .iter()
            .map(|t| {
                let tents = tuples[*t].iter().map(|p| Tent::new(*p, None)).collect();
                let ds = (0..3).map(|pi| GlyphDelta::required((gi % 200) as i16 + pi + sa, -(pi + 1))).collect();
                GlyphDeltas::new(tents, ds)
            })
            .collect();
        vars.push(GlyphVariations::new(GlyphId::new(gi as u32), list));
    }
    // input order scrambled: counting happens in input order
    vf_core::Rng::derive(seed, "c07-ties-gvar", n as u64).shuffle(&mut vars);
    let gvar = Gvar::new(vars, AXES).map_err(|e| format!("gvar input: {e:?}"))?;
    dump_table(&gvar).map_err(|e| format!("gvar: {e}"))
}

// ------------------------------------------------------------ klippa: tied name records

/// A name table (version 0) whose records tie on (platform, encoding,
/// language, name id, length) — klippa's sort key — but point to different
/// strings.
fn tied_name_table() -> Vec<u8> {
    let strings: [&str; 6] = ["Tie A", "Tie B", "Tie C", "Regul", "Other", "Tie D"];
    // (platform, encoding, language, name id, string index)
    let recs: [(u16, u16, u16, u16, usize); 8] = [
        (3, 1, 0x409, 1, 2),
        (3, 1, 0x409, 1, 0),
        (3, 1, 0x409, 1, 1),
        (3, 1, 0x409, 2, 3),
        (3, 1, 0x409, 2, 4),
        (3, 1, 0x409, 4, 5),
        (3, 1, 0x409, 4, 0),
        (3, 1, 0x409, 6, 1),
    ];
    let mut storage: Vec<u8> = vec![];
    let mut offs = vec![];
    for s in strings {
        offs.push(storage.len() as u16);
        for u in s.encode_utf16() {
            storage.extend_from_slice(&u.to_be_bytes());
        }
    }
    let mut t: Vec<u8> = vec![];
    t.extend_from_slice(&0u16.to_be_bytes());
    t.extend_from_slice(&(recs.len() as u16).to_be_bytes());
    t.extend_from_slice(&((6 + recs.len() * 12) as u16).to_be_bytes());
    for (p, e, l, n, si) in recs {
        for v in [p, e, l, n, 10u16, offs[si]] {
            t.extend_from_slice(&v.to_be_bytes());
        }
    }
    t.extend_from_slice(&storage);
    t
}

fn klippa_tied_names(data: &[u8], plan: usize) -> Result<Vec<u8>, String> {
    let font = FontRef::new(data).map_err(|e| format!("{e}"))?;
    let mut b = FontBuilder::new();
    b.add_raw(Tag::new(b"name"), tied_name_table());
    b.copy_missing_tables(font);
    let rebuilt = b.build();
    // the rebuilt font must be readable, else this is not an input
    let f2 = FontRef::new(&rebuilt).map_err(|e| format!("{e}"))?;
    f2.name().map_err(|e| format!("name: {e}"))?;
    crate::inputs::subset(&rebuilt, plan)
}

// ------------------------------------------------------------ the list

pub fn tie_inputs(seed: u64) -> Vec<Input> {
    let mut v: Vec<Input> = vec![];
    let mut gs = |name: &str, kind: SubKind, k: usize, n_sub: usize, sets: usize, per_set: usize, ballast: usize| {
        let mut i = mk(format!("ties:gsub-{name}"), "ties-promotion", k, move || gsub_family(seed, kind, k, n_sub, sets, per_set, ballast));
        i.describe = Some(|b| describe_layout(b, true));
        v.push(i);
    };
    // Ligature: set = 2 + per_set*(2+8) bytes (+2 offset, +2 coverage glyph or a range)
    gs("single-k2", SubKind::Single, 2, 2, 10000, 0, 3);
    // deep graph (lookup > subtable > set > ligature), equal-size siblings at every level: packs
    // without promotion, through the distance sort
    gs("ligature-k2-equal-siblings", SubKind::Ligature, 2, 2, 200, 10, 3);
    gs("ligature-k3", SubKind::Ligature, 3, 2, 165, 10, 0);
    gs("ligature-k8", SubKind::Ligature, 8, 1, 130, 10, 0);
    gs("alternate-k3", SubKind::Alternate, 3, 2, 620, 12, 0);
    gs("alternate-k8", SubKind::Alternate, 8, 1, 400, 12, 2);
    gs("multiple-k8", SubKind::Multiple, 8, 2, 250, 9, 0);
    let mut gp = |name: &str, cls: &'static str, kind: PosKind, k: usize, n_sub: usize, n: usize, m: usize, ballast: usize| {
        let mut i = mk(format!("ties:gpos-{name}"), cls, k, move || gpos_family(seed, kind, k, n_sub, n, m, ballast));
        i.describe = Some(|b| describe_layout(b, false));
        v.push(i);
    };
    gp("single-k2", "ties-promotion", PosKind::Single, 2, 2, 2600, 0, 3);
    gp("single-k3", "ties-promotion", PosKind::Single, 3, 2, 2100, 0, 0);
    gp("single-k8", "ties-promotion", PosKind::Single, 8, 1, 2000, 0, 0);
    gp("cursive-k3", "ties-promotion", PosKind::Cursive, 3, 2, 1080, 0, 0);
    gp("cursive-k8", "ties-promotion", PosKind::Cursive, 8, 1, 800, 0, 2);
    gp("pairglyph-k3", "ties-promotion", PosKind::PairGlyph, 3, 1, 52, 165, 0);
    gp("pairglyph-k8", "ties-promotion", PosKind::PairGlyph, 8, 1, 22, 165, 0);
    gp("pairclass-k3", "ties-promotion", PosKind::PairClass, 3, 1, 110, 110, 0);
    gp("markbase-k3", "ties-promotion", PosKind::MarkBase, 3, 1, 430, 10, 0);
    // splitting: every subtable > 64 KiB, made of equal-size pieces
    gp("split-pairglyph-k2", "ties-splitting", PosKind::PairGlyph, 2, 1, 110, 165, 0);
    gp("split-pairglyph-k3", "ties-splitting", PosKind::PairGlyph, 3, 1, 105, 165, 1);
    gp("split-pairclass-k2", "ties-splitting", PosKind::PairClass, 2, 1, 190, 190, 0);
    gp("split-markbase-k2", "ties-splitting", PosKind::MarkBase, 2, 1, 900, 10, 0);
    gp("split-markbase-k3", "ties-splitting", PosKind::MarkBase, 3, 1, 850, 10, 1);
    {
        let mut i = mk("ties:gpos-two-size-classes-4+4", "ties-promotion", 8, move || gpos_two_classes(seed));
        i.describe = Some(|b| describe_layout(b, false));
        v.push(i);
    }
    v.push(mk("ties:ivs-12regions-equal-cost", "ties-ivs", 36, move || ivs_ties(seed, 12, 6, false)));
    v.push(mk("ties:ivs-30regions-equal-cost", "ties-ivs", 90, move || ivs_ties(seed, 30, 3, false)));
    v.push(mk("ties:ivs-direct-12regions-equal-cost", "ties-ivs", 36, move || ivs_ties(seed, 12, 6, true)));
    v.push(mk("ties:gvar-4500tuples-count2-over-4095-slots", "ties-gvar", 4500, move || gvar_tied_slots(seed, 4500)));
    v.push(mk("ties:gvar-600tuples-count2", "ties-gvar", 600, move || gvar_tied_slots(seed, 600)));
    // klippa on a font with tied name records
    let fonts = vf_core::klippa_fonts();
    let mut n = 0;
    for f in fonts.iter().filter(|f| f.name.ends_with(".ttf")) {
        if n >= 2 {
            break;
        }
        let Ok(font) = FontRef::new(&f.data) else { continue };
        if font.name().is_err() || font.cmap().is_err() || f.data.len() > 400_000 {
            continue;
        }
        n += 1;
        for plan in [0usize, 2] {
            let data = f.data.clone();
            v.push(mk(format!("ties:klippa-tied-name-records:{}:plan{}", f.name, plan), "ties-klippa", 8, move || klippa_tied_names(&data, plan)));
        }
    }
    let _ = GlyphId16::new(0);
    v
}
