//! One GPOS case: rule sets -> builders -> owned lookups -> Gpos ->
//! dump_table -> read-fonts, with the two-stage oracle.

use std::collections::{BTreeMap, HashMap};
use std::time::Instant;

use read_fonts::tables::gpos as rg;
use read_fonts::{FontData, FontRead};
use serde_json::{json, Value};
use vf_core::{guard, Ctx, Digest, Rng};
use write_fonts::tables::gpos as wg;
use write_fonts::tables::layout as wl;
use write_fonts::tables::layout::builders::{Builder, LookupBuilder};
use write_fonts::tables::variations::ivs_builder::RemapVariationIndices;

use crate::gen::*;
use crate::model::*;
use crate::order::RuleIndex;
use crate::plan::*;
use crate::walk::*;

pub struct CaseSpec {
    pub kind: String,
    pub index: usize,
    pub lookups: Vec<LookupSpec>,
    pub flip: bool,
    /// per-lookup query budget (pairs)
    pub budget: usize,
}

enum Plans {
    Pair(Vec<PairPlan>),
    Mark(Vec<MarkPlan>),
}

#[derive(Default)]
struct Stats {
    pair_queries: u64,
    pair_with_rule: u64,
    pair_no_rule: u64,
    pair_matched: u64,
    mark_queries: u64,
    mark_with_rule: u64,
    format_only_diffs: u64,
    sub_before: usize,
    sub_after: usize,
    f1_before: usize,
    f1_after: usize,
    f2_before: usize,
    f2_after: usize,
    mb_before: usize,
    mb_after: usize,
    ext_lookups: usize,
    lookups_split: usize,
    stage1_skipped: usize,
    order_lookups: u64,
    order_queries: u64,
    order_glyph_rule: u64,
    order_first_rule_value: u64,
    order_first_rule_value_contested: u64,
    order_zero_shadowed: u64,
    order_no_rule: u64,
    order_exact_dup_override: u64,
    order_other_builder: u64,
}

fn extras(v: &mut Vec<u16>, rng: &mut Rng, sample_from: &[u16]) {
    v.extend_from_slice(&[0, 1, 0xFFFE, 0xFFFF]);
    for _ in 0..12 {
        v.push(rng.below(65536) as u16);
    }
    if !sample_from.is_empty() {
        for _ in 0..24 {
            let g = *rng.pick(sample_from);
            v.push(g.wrapping_add(1));
            v.push(g.wrapping_sub(1));
        }
        v.push(sample_from[0].wrapping_sub(1));
        v.push(sample_from[sample_from.len() - 1].wrapping_add(1));
    }
}

pub fn run_case(ctx: &mut Ctx, spec: &CaseSpec) {
    let label = format!("{}#{}", spec.kind, spec.index);
    let mut rng = Rng::derive(ctx.seed, "c16-gpos", spec.index as u64);
    let mut env = Env::new(spec.flip);
    if std::env::var("VF_C16_VERBOSE").map(|v| v == "2").unwrap_or(false) {
        eprintln!("{label}: {:?}", spec.lookups);
    }
    ctx.eval();
    ctx.count("gpos_cases", 1);
    ctx.count(&format!("gpos_cases:{}", spec.kind), 1);

    // ---------------------------------------------------------- rule sets
    let mut plans: Vec<Plans> = vec![];
    for ls in &spec.lookups {
        match ls {
            LookupSpec::Pair(bs) => plans.push(Plans::Pair(
                bs.iter().enumerate().map(|(j, s)| gen_pair_plan(&mut rng, &env, s, j)).collect(),
            )),
            LookupSpec::Mark(bs) => plans.push(Plans::Mark(
                bs.iter().enumerate().map(|(j, s)| gen_mark_plan(&mut rng, &env, s, j)).collect(),
            )),
            LookupSpec::PairOrder(bs) => plans.push(Plans::Pair(
                bs.iter().enumerate().map(|(j, s)| gen_order_plan(&mut rng, &env, s, j)).collect(),
            )),
        }
    }
    // lookup flags / mark filtering sets must survive splitting and promotion
    let lflags: Vec<(u16, Option<u16>)> = (0..plans.len())
        .map(|_| match rng.usize(4) {
            0 => (0x0010 | 0x0004, Some(rng.below(40) as u16)),
            1 => (0x0008, None),
            2 => (0x0300 | 0x0001, None),
            _ => (0, None),
        })
        .collect();
    let mut n_rules = 0usize;
    let (mut n_glyph_rules, mut n_class_rules, mut n_mark_rules, mut n_dups) = (0, 0, 0, 0);
    for p in &plans {
        match p {
            Plans::Pair(v) => {
                for p in v {
                    n_rules += p.n_rules();
                    n_glyph_rules += p.gmap.len();
                    n_class_rules += p.cmap.len() + p.orules.len();
                    n_dups += p.n_dups;
                }
            }
            Plans::Mark(v) => {
                for p in v {
                    n_rules += p.n_rules();
                    n_mark_rules += p.n_rules();
                }
            }
        }
    }
    let (seed, tier) = (ctx.seed, ctx.tier.as_str());
    let case_json = |extra: Value| -> Value {
        json!({"case": label, "seed": seed, "tier": tier, "rules": n_rules,
               "glyph_pair_rules": n_glyph_rules, "class_pair_rules": n_class_rules,
               "mark_base_rules": n_mark_rules, "lookups": spec.lookups.len(), "flip": spec.flip, "x": extra})
    };

    // ---------------------------------------------------------- builders -> owned lookups
    let t0 = Instant::now();
    let built = guard(|| -> Result<Vec<wg::PositionLookup>, String> {
        let mut out = vec![];
        for (li, p) in plans.iter().enumerate() {
            let flags = wl::LookupFlag::from_bits_truncate(lflags[li].0);
            let mset = lflags[li].1;
            match p {
                Plans::Pair(v) => {
                    let subs: Vec<_> = v.iter().map(|p| p.build(&mut env)).collect();
                    let lb = LookupBuilder::new_with_lookups(flags, mset, subs);
                    let vs = env.vs.as_mut().unwrap();
                    out.push(wg::PositionLookup::Pair(lb.build(vs)));
                }
                Plans::Mark(v) => {
                    let mut subs = vec![];
                    for p in v {
                        subs.push(p.build(&mut env)?);
                    }
                    let lb = LookupBuilder::new_with_lookups(flags, mset, subs);
                    let vs = env.vs.as_mut().unwrap();
                    out.push(wg::PositionLookup::MarkToBase(lb.build(vs)));
                }
            }
        }
        Ok(out)
    });
    let lookups = match built {
        Ok(Ok(l)) => l,
        Ok(Err(e)) => {
            ctx.inconclusive(format!("{label}: generator produced a rejected rule set: {e}"));
            return;
        }
        Err(p) => {
            ctx.judge_panic(&p, "PairPosBuilder/MarkToBaseBuilder::build", case_json(json!(null)), None);
            return;
        }
    };
    let n_delta_sets = env.deltamap.len();
    let vs = env.vs.take().unwrap();
    let mut gpos = wg::Gpos::new(Default::default(), Default::default(), wl::LookupList::new(lookups));
    match guard(|| {
        let (ivs, remap) = vs.build();
        gpos.remap_variation_indices(&remap);
        (ivs, remap)
    }) {
        Ok((_ivs, remap)) => env.remap = Some(remap),
        Err(p) => {
            ctx.judge_panic(&p, "VariationStoreBuilder::build / remap_variation_indices", case_json(json!(null)), None);
            return;
        }
    }
    // distinct delta sets must get distinct variation indices
    {
        let mut by_idx: HashMap<(u16, u16), u32> = HashMap::new();
        let remap = env.remap.as_ref().unwrap();
        for (_, id) in env.deltamap.iter() {
            if let Some(v) = remap.get(*id) {
                let k = (v.delta_set_outer_index, v.delta_set_inner_index);
                if let Some(prev) = by_idx.insert(k, *id) {
                    if prev != *id {
                        ctx.violation(
                            &format!("varidx-collision:{}:{}-{}", label, prev.min(*id), prev.max(*id)),
                            case_json(json!({"what": "two different delta sets were mapped to the same VariationIndex", "index": [k.0, k.1]})),
                            None,
                        );
                        return;
                    }
                }
            }
        }
    }
    let build_ms = t0.elapsed().as_millis() as u64;

    // ---------------------------------------------------------- owned models
    enum OModel {
        Pair(OPairLookup),
        Mark(OMarkLookup),
    }
    let omodels: Vec<OModel> = gpos
        .lookup_list
        .lookups
        .iter()
        .map(|l| match &**l {
            wg::PositionLookup::Pair(l) => OModel::Pair(OPairLookup::new(l, &mut env.it)),
            wg::PositionLookup::MarkToBase(l) => OModel::Mark(OMarkLookup::new(l, &mut env.it)),
            _ => unreachable!("generator only makes pair and mark-to-base lookups"),
        })
        .collect();

    // ---------------------------------------------------------- compile
    let _ = write_fonts::verif_graph_hooks::take_trace();
    let t1 = Instant::now();
    let dumped = guard(|| write_fonts::dump_table(&gpos));
    let compile_ms = t1.elapsed().as_millis() as u64;
    let trace = write_fonts::verif_graph_hooks::take_trace();
    let mut trace_counts: BTreeMap<&'static str, u64> = BTreeMap::new();
    for s in &trace {
        *trace_counts.entry(s).or_default() += 1;
    }
    let bytes: Option<Vec<u8>> = match dumped {
        Ok(Ok(b)) => Some(b),
        Ok(Err(write_fonts::error::Error::PackingFailed(e))) => {
            if std::env::var("VF_C16_VERBOSE").is_ok() {
                let m = format!("{e}");
                eprintln!("{label}: packing failed: {}", &m[..m.len().min(3000)]);
            }
            ctx.count("compile_failed:packing", 1);
            ctx.label("packing_failed_cases", &label);
            ctx.sample_by_kind("packing-failed", case_json(json!({"trace": trace_counts})));
            None
        }
        Ok(Err(e)) => {
            ctx.inconclusive(format!("{label}: dump_table rejected the builder output: {e}"));
            None
        }
        Err(p) => {
            ctx.judge_panic(&p, "dump_table(Gpos)", case_json(json!({"trace": trace_counts})), None);
            return;
        }
    };
    for (s, n) in &trace_counts {
        ctx.count(&format!("trace:{}", s), *n);
    }
    {
        let mut d = Digest::new();
        let mut prev = "";
        for s in &trace {
            if *s != prev {
                d.str(s);
                prev = s;
            }
        }
        ctx.distinct("stage_trace_shapes", d.finish());
    }

    // ---------------------------------------------------------- read back
    let rgpos = match &bytes {
        None => None,
        Some(b) => match rg::Gpos::read(FontData::new(b)) {
            Ok(g) => Some(g),
            Err(e) => {
                ctx.violation(
                    &format!("compiled-unreadable:{}:gpos", label),
                    case_json(json!({"err": format!("{e}")})),
                    Some(b),
                );
                return;
            }
        },
    };
    let rlookups = match &rgpos {
        None => None,
        Some(g) => match g.lookup_list() {
            Ok(l) => Some(l),
            Err(e) => {
                ctx.violation(
                    &format!("compiled-unreadable:{}:lookup-list", label),
                    case_json(json!({"err": format!("{e}")})),
                    bytes.as_deref(),
                );
                return;
            }
        },
    };
    if let Some(rl) = &rlookups {
        if rl.lookup_count() as usize != omodels.len() {
            ctx.violation(
                &format!("lookup-count:{}", label),
                case_json(json!({"owned": omodels.len(), "compiled": rl.lookup_count()})),
                bytes.as_deref(),
            );
            return;
        }
    }

    let mut st = Stats::default();
    let mut violated = false;

    // ---------------------------------------------------------- per lookup: stage 1 and stage 2
    for (li, om) in omodels.iter().enumerate() {
        let rlookup = match &rlookups {
            None => None,
            Some(rl) => match rl.lookups().get(li) {
                Ok(l) => Some(l),
                Err(e) => {
                    ctx.violation(
                        &format!("compiled-unreadable:{}:L{}", label, li),
                        case_json(json!({"err": format!("{e}")})),
                        bytes.as_deref(),
                    );
                    return;
                }
            },
        };
        if let Some(l) = &rlookup {
            let got = (l.lookup_flag().to_bits(), l.mark_filtering_set());
            if got != lflags[li] {
                ctx.violation(
                    &format!("lookup-header:{}:L{}", label, li),
                    case_json(json!({"what": "lookup flag / mark filtering set changed by compilation", "lookup": li,
                                     "given": [lflags[li].0, lflags[li].1], "compiled": [got.0, got.1], "trace": trace_counts})),
                    bytes.as_deref(),
                );
                return;
            }
        }
        match (om, &plans[li]) {
            (OModel::Pair(om), Plans::Pair(pp)) => {
                let mut rm = match &rlookup {
                    None => None,
                    Some(l) => match RPairLookup::new(l) {
                        Ok(m) => Some(m),
                        Err(e) => {
                            ctx.violation(
                                &format!("compiled-unreadable:{}:L{}:pair", label, li),
                                case_json(json!({"err": e})),
                                bytes.as_deref(),
                            );
                            return;
                        }
                    },
                };
                st.sub_before += om.subs.len();
                st.f1_before += om.n_f1;
                st.f2_before += om.n_f2;
                if let Some(rm) = &rm {
                    st.sub_after += rm.subs.len();
                    st.f1_after += rm.n_f1;
                    st.f2_after += rm.n_f2;
                    st.ext_lookups += rm.is_extension as usize;
                    if rm.subs.len() != om.subs.len() {
                        st.lookups_split += 1;
                    }
                    if rm.n_f1 > om.n_f1 {
                        ctx.label("split_kinds", "PairPosFormat1");
                    }
                    if rm.n_f2 > om.n_f2 {
                        ctx.label("split_kinds", "PairPosFormat2");
                    }
                }
                // stage 1 is sound only if no first glyph is covered by two
                // class subtables (guaranteed by the generator; verified here)
                let by_design = match &spec.lookups[li] {
                    LookupSpec::Pair(bs) => bs.iter().any(|b| b.overlap_prev),
                    _ => false,
                };
                let has_orules = pp.iter().any(|p| !p.orules.is_empty());
                let stage1 = om.f2_coverage_overlaps() == 0 && !by_design && !has_orules;
                // the rule-ORDER oracle (order.rs) takes over where stage 1 cannot run
                let ridx: Vec<RuleIndex> = if stage1 { vec![] } else { pp.iter().map(RuleIndex::new).collect() };
                if !stage1 {
                    st.order_lookups += 1;
                    for r in &ridx {
                        ctx.count("order:class_rules", r.rules.len() as u64);
                        ctx.count("order:exact_duplicate_class_rules", r.n_exact_duplicates() as u64);
                    }
                    if om.n_f2 > 1 {
                        ctx.count("order:lookups_with_several_class_subtables", 1);
                    }
                    ctx.count("order:class_subtables_built", om.n_f2 as u64);
                }
                if by_design {
                    ctx.count("lookups_shadowed_by_design", 1);
                }
                if !stage1 {
                    st.stage1_skipped += 1;
                }
                // ---- query sets
                let mut firsts = om.firsts();
                for p in pp {
                    firsts.extend(p.gmap.keys().map(|k| k.0));
                    firsts.extend(p.class1_of.keys().copied());
                    for (s1, _, _) in &p.orules {
                        firsts.extend(s1.iter().copied());
                    }
                }
                firsts.sort_unstable();
                firsts.dedup();
                let covered = firsts.clone();
                extras(&mut firsts, &mut rng, &covered);
                firsts.sort_unstable();
                firsts.dedup();
                let mut seconds = om.seconds();
                for p in pp {
                    seconds.extend(p.gmap.keys().map(|k| k.1));
                    for m in &p.class2_of {
                        seconds.extend(m.keys().copied());
                    }
                    for (_, s2, _) in &p.orules {
                        seconds.extend(s2.iter().copied());
                    }
                }
                seconds.sort_unstable();
                seconds.dedup();
                let named = seconds.clone();
                extras(&mut seconds, &mut rng, &named);
                seconds.sort_unstable();
                seconds.dedup();
                let full = firsts.len() * seconds.len() <= spec.budget;
                let reps = om.class2_reps();
                // seconds of each first's glyph rules (whether or not the builder kept them)
                let mut adj: HashMap<u16, Vec<u16>> = HashMap::new();
                if !full {
                    for p in pp {
                        for (a, b) in p.gmap.keys() {
                            adj.entry(*a).or_default().push(*b);
                        }
                    }
                }
                let per_first_extra = (spec.budget / firsts.len().max(1)).max(24);
                let mut q: Vec<u16> = vec![];
                let mut o_out: Vec<Option<Pair>> = vec![];
                let mut r_out: Vec<Option<Pair>> = vec![];
                let mut open: Vec<usize> = vec![];
                // expected values of rules, cached
                let mut exp_cache: Vec<HashMap<Rule, Pair>> = pp.iter().map(|_| HashMap::new()).collect();
                for g1 in &firsts {
                    let qs: &[u16] = if full {
                        &seconds
                    } else {
                        q.clear();
                        om.own_seconds(*g1, &mut q);
                        if let Some(a) = adj.get(g1) {
                            q.extend_from_slice(a);
                        }
                        q.extend_from_slice(&reps);
                        q.extend_from_slice(&[0, 0xFFFF]);
                        for _ in 0..per_first_extra.min(seconds.len()) {
                            q.push(*rng.pick(&seconds));
                        }
                        q.sort_unstable();
                        q.dedup();
                        &q
                    };
                    om.query(*g1, qs, &mut o_out, &mut open);
                    // ---- stage 1: rules vs owned tables
                    if stage1 {
                        for (i, g2) in qs.iter().enumerate() {
                            let mut want: Option<Pair> = None;
                            for (pi, p) in pp.iter().enumerate() {
                                if let Some(r) = p.lookup(*g1, *g2) {
                                    let e = match exp_cache[pi].get(&r) {
                                        Some(e) => *e,
                                        None => {
                                            let e = p.expect(&r, &mut env);
                                            exp_cache[pi].insert(r, e);
                                            e
                                        }
                                    };
                                    want = Some(e);
                                    break;
                                }
                            }
                            if want.is_some() {
                                st.pair_with_rule += 1;
                            } else {
                                st.pair_no_rule += 1;
                            }
                            if pair_sem(&want) != pair_sem(&o_out[i]) {
                                ctx.violation(
                                    &format!("pair-rules-vs-owned:{}:L{}:g1={}:g2={}", label, li, g1, g2),
                                    case_json(json!({
                                        "what": "builder output (owned PairPos subtables) does not give the rule's adjustment for this glyph pair",
                                        "lookup": li, "g1": g1, "g2": g2,
                                        "rule_says": show_pair(&want, &env.it),
                                        "owned_tables_say": show_pair(&o_out[i], &env.it),
                                        "owned_subtables": om.subs.len(),
                                    })),
                                    None,
                                );
                                violated = true;
                                break;
                            }
                        }
                        if violated {
                            break;
                        }
                    }
                    // ---- stage 2: owned tables vs compiled bytes
                    if let Some(rm) = rm.as_mut() {
                        let r = guard(|| rm.query(*g1, qs, &mut r_out, &mut open, &mut env.it));
                        match r {
                            Ok(Ok(())) => {}
                            Ok(Err(e)) => {
                                ctx.violation(
                                    &format!("compiled-unreadable:{}:L{}:g1={}", label, li, g1),
                                    case_json(json!({"err": e, "g1": g1, "lookup": li})),
                                    bytes.as_deref(),
                                );
                                violated = true;
                                break;
                            }
                            Err(p) => {
                                ctx.judge_panic(&p, "read-fonts PairPos walk", case_json(json!({"g1": g1, "lookup": li})), bytes.as_deref());
                                violated = true;
                                break;
                            }
                        }
                        for (i, g2) in qs.iter().enumerate() {
                            let (a, b) = (&o_out[i], &r_out[i]);
                            if a.is_some() {
                                st.pair_matched += 1;
                            }
                            if a.is_some() != b.is_some() || pair_sem(a) != pair_sem(b) {
                                ctx.violation(
                                    &format!("pair-owned-vs-compiled:{}:L{}:g1={}:g2={}", label, li, g1, g2),
                                    case_json(json!({
                                        "what": "compiled GPOS gives a different first-match adjustment than the owned tables it was compiled from",
                                        "lookup": li, "g1": g1, "g2": g2,
                                        "owned_tables_say": show_pair(a, &env.it),
                                        "compiled_says": show_pair(b, &env.it),
                                        "subtables_before": om.subs.len(), "subtables_after": rm.subs.len(),
                                        "extension": rm.is_extension,
                                        "trace": trace_counts,
                                    })),
                                    bytes.as_deref(),
                                );
                                violated = true;
                                break;
                            }
                            if a != b {
                                st.format_only_diffs += 1;
                            }
                        }
                        if violated {
                            break;
                        }
                    }
                    // ---- rule-ORDER oracle (overlapping class sets): rules vs owned tables and vs compiled bytes
                    if !stage1 {
                        let views: Vec<Option<crate::order::G1View>> = ridx.iter().map(|r| r.view(*g1)).collect();
                        let zero = pair_sem(&None);
                        let mut allowed: Vec<Pair> = vec![];
                        for (i, g2) in qs.iter().enumerate() {
                            allowed.clear();
                            let mut zero_ok = true;
                            let mut why = "no rule of the lookup contains the pair";
                            let mut glyph_rule = false;
                            let mut first: Option<(usize, u32)> = None;
                            let mut n_sets = 0usize;
                            for (pi, p) in pp.iter().enumerate() {
                                let mut want = |r: &Rule, env: &mut Env| -> Pair {
                                    match exp_cache[pi].get(r) {
                                        Some(e) => *e,
                                        None => {
                                            let e = p.expect(r, env);
                                            exp_cache[pi].insert(*r, e);
                                            e
                                        }
                                    }
                                };
                                if let Some(r) = p.gmap.get(&(*g1, *g2)) {
                                    allowed.push(want(r, &mut env));
                                    zero_ok = false;
                                    glyph_rule = true;
                                    why = "first glyph-pair rule for the pair (format 1 subtables precede the builder's class subtables)";
                                    break;
                                }
                                if let Some(v) = &views[pi] {
                                    // some class subtable of this builder covers g1: the lookup ends here
                                    let (f, n) = ridx[pi].first(v, *g2);
                                    n_sets = n;
                                    if let Some(f) = f {
                                        first = Some((pi, f));
                                        allowed.push(want(&ridx[pi].rules[f as usize].2, &mut env));
                                        for d in ridx[pi].exact_duplicates_after(f) {
                                            allowed.push(want(&ridx[pi].rules[*d as usize].2, &mut env));
                                        }
                                        zero_ok = v.l0 < f;
                                        why = if zero_ok {
                                            "value of the first inserted class rule containing the pair, or no adjustment (an earlier-inserted rule has the first glyph in its class-1 set)"
                                        } else {
                                            "value of the first inserted class rule containing the pair (no earlier rule has the first glyph in class 1)"
                                        };
                                    } else {
                                        why = "the first glyph is in class-1 sets of this builder but no rule contains the pair: no adjustment";
                                    }
                                    if pi > 0 {
                                        st.order_other_builder += 1;
                                    }
                                    break;
                                }
                            }
                            let n_sides = if rm.is_some() { 2 } else { 1 };
                            for side in 0..n_sides {
                                let got = if side == 0 { &o_out[i] } else { &r_out[i] };
                                let gs = pair_sem(got);
                                let k = allowed.iter().position(|a| (a.0.sem(), a.1.sem()) == gs);
                                let ok = k.is_some() || (zero_ok && gs == zero);
                                if side == 0 && ok {
                                    if glyph_rule {
                                        st.order_glyph_rule += 1;
                                    } else if first.is_none() {
                                        st.order_no_rule += 1;
                                    } else if k == Some(0) {
                                        st.order_first_rule_value += 1;
                                        if n_sets > 1 {
                                            st.order_first_rule_value_contested += 1;
                                        }
                                    } else if k.is_some() {
                                        st.order_exact_dup_override += 1;
                                    } else {
                                        st.order_zero_shadowed += 1;
                                    }
                                }
                                if !ok {
                                    // which rule's value is it, if any?
                                    let mut culprit: Option<(usize, usize)> = None;
                                    'find: for (pi, p) in pp.iter().enumerate() {
                                        for (ri, (_, _, r)) in ridx[pi].rules.iter().enumerate() {
                                            let e = p.expect(r, &mut env);
                                            if (e.0.sem(), e.1.sem()) == gs {
                                                culprit = Some((pi, ri));
                                                break 'find;
                                            }
                                        }
                                    }
                                    let show_rule = |pi: usize, ri: usize| -> Value {
                                        let p = &pp[pi];
                                        let n_c = p.crules.len();
                                        if ri < n_c {
                                            let (g, a, b, _) = p.crules[ri];
                                            json!({"builder": pi, "rule": ri, "class1": p.groups[g as usize].c1[a as usize], "class2": p.groups[g as usize].c2[b as usize]})
                                        } else {
                                            let (s1, s2, _) = &p.orules[ri - n_c];
                                            json!({"builder": pi, "rule": ri, "class1": s1, "class2": s2})
                                        }
                                    };
                                    let rules_dump: Vec<Value> = if pp.iter().map(|p| p.crules.len() + p.orules.len()).sum::<usize>() <= 16 {
                                        pp.iter().enumerate().flat_map(|(pi, p)| (0..p.crules.len() + p.orules.len()).map(move |ri| (pi, ri))).map(|(pi, ri)| show_rule(pi, ri)).collect()
                                    } else {
                                        vec![]
                                    };
                                    ctx.violation(
                                        &format!("pair-rule-order:{}:L{}:g1={}:g2={}:{}", label, li, g1, g2, if side == 0 { "owned" } else { "compiled" }),
                                        case_json(json!({
                                            "what": "class pair rules: the lookup does not give this glyph pair the adjustment of the first inserted rule that contains it",
                                            "observed_in": if side == 0 { "builder output (owned PairPos subtables)" } else { "compiled bytes" },
                                            "lookup": li, "g1": g1, "g2": g2,
                                            "expected": why,
                                            "first_rule_containing_pair": first.map(|(pi, f)| show_rule(pi, f as usize)),
                                            "allowed_values": allowed.iter().map(|a| show_pair(&Some(*a), &env.it)).collect::<Vec<_>>(),
                                            "no_adjustment_allowed": zero_ok,
                                            "lookup_says": show_pair(got, &env.it),
                                            "that_is_the_value_of_rule": culprit.map(|(pi, ri)| show_rule(pi, ri)),
                                            "owned_subtables": om.subs.len(), "class_subtables": om.n_f2,
                                            "all_class_rules_in_insertion_order": rules_dump,
                                        })),
                                        if side == 0 { None } else { bytes.as_deref() },
                                    );
                                    violated = true;
                                    break;
                                }
                            }
                            if violated {
                                break;
                            }
                        }
                        if violated {
                            break;
                        }
                        st.order_queries += qs.len() as u64;
                    }
                    st.pair_queries += qs.len() as u64;
                }
            }
            (OModel::Mark(om), Plans::Mark(mp)) => {
                let rm = match &rlookup {
                    None => None,
                    Some(l) => match RMarkLookup::new(l) {
                        Ok(m) => Some(m),
                        Err(e) => {
                            ctx.violation(
                                &format!("compiled-unreadable:{}:L{}:mark", label, li),
                                case_json(json!({"err": e})),
                                bytes.as_deref(),
                            );
                            return;
                        }
                    },
                };
                st.sub_before += om.subs.len();
                st.mb_before += om.subs.len();
                if let Some(rm) = &rm {
                    st.sub_after += rm.subs.len();
                    st.mb_after += rm.subs.len();
                    st.ext_lookups += rm.is_extension as usize;
                    if rm.subs.len() != om.subs.len() {
                        st.lookups_split += 1;
                        ctx.label("split_kinds", "MarkBasePosFormat1");
                    }
                }
                let mut marks = om.marks();
                for p in mp {
                    marks.extend(p.mark_of.keys().copied());
                }
                marks.sort_unstable();
                marks.dedup();
                let covered = marks.clone();
                extras(&mut marks, &mut rng, &covered);
                marks.sort_unstable();
                marks.dedup();
                let mut bases = om.bases();
                for p in mp {
                    bases.extend(p.base_of.keys().map(|k| k.0));
                }
                bases.sort_unstable();
                bases.dedup();
                let covered = bases.clone();
                extras(&mut bases, &mut rng, &covered);
                bases.sort_unstable();
                bases.dedup();
                let mut o_out: Vec<Option<Attach>> = vec![];
                let mut r_out: Vec<Option<Attach>> = vec![];
                let mut acache: HashMap<(usize, bool, usize), NAnchor> = HashMap::new();
                for m in &marks {
                    om.query(*m, &bases, &mut o_out);
                    // ---- stage 1
                    for (i, b) in bases.iter().enumerate() {
                        let mut want: Option<Attach> = None;
                        for (pi, p) in mp.iter().enumerate() {
                            if let Some(mi) = p.mark_of.get(m) {
                                let class = p.marks[*mi].1;
                                if let Some(bi) = p.base_of.get(&(*b, class)) {
                                    let ma = match acache.get(&(pi, true, *mi)) {
                                        Some(a) => *a,
                                        None => {
                                            let a = expect_anchor(&p.marks[*mi].2, &mut env);
                                            acache.insert((pi, true, *mi), a);
                                            a
                                        }
                                    };
                                    let ba = match acache.get(&(pi, false, *bi)) {
                                        Some(a) => *a,
                                        None => {
                                            let a = expect_anchor(&p.bases[*bi].2, &mut env);
                                            acache.insert((pi, false, *bi), a);
                                            a
                                        }
                                    };
                                    want = Some((ma, ba));
                                    break;
                                }
                            }
                        }
                        if want.is_some() {
                            st.mark_with_rule += 1;
                        }
                        let got = &o_out[i];
                        let same = match (&want, got) {
                            (None, None) => true,
                            (Some(w), Some(g)) => w.0.sem() == g.0.sem() && w.1.sem() == g.1.sem(),
                            _ => false,
                        };
                        if !same {
                            ctx.violation(
                                &format!("mark-rules-vs-owned:{}:L{}:mark={}:base={}", label, li, m, b),
                                case_json(json!({
                                    "what": "builder output (owned MarkBasePos) does not attach this mark/base pair as the rules say",
                                    "lookup": li, "mark": m, "base": b,
                                    "rule_says": show_attach(&want, &env.it),
                                    "owned_tables_say": show_attach(got, &env.it),
                                })),
                                None,
                            );
                            violated = true;
                            break;
                        }
                    }
                    if violated {
                        break;
                    }
                    // ---- stage 2
                    if let Some(rm) = &rm {
                        match guard(|| rm.query(*m, &bases, &mut r_out, &mut env.it)) {
                            Ok(Ok(())) => {}
                            Ok(Err(e)) => {
                                ctx.violation(
                                    &format!("compiled-unreadable:{}:L{}:mark={}", label, li, m),
                                    case_json(json!({"err": e, "mark": m, "lookup": li})),
                                    bytes.as_deref(),
                                );
                                violated = true;
                                break;
                            }
                            Err(p) => {
                                ctx.judge_panic(&p, "read-fonts MarkBasePos walk", case_json(json!({"mark": m, "lookup": li})), bytes.as_deref());
                                violated = true;
                                break;
                            }
                        }
                        for (i, b) in bases.iter().enumerate() {
                            let (a, c) = (&o_out[i], &r_out[i]);
                            let same = match (a, c) {
                                (None, None) => true,
                                (Some(w), Some(g)) => w.0.sem() == g.0.sem() && w.1.sem() == g.1.sem(),
                                _ => false,
                            };
                            if !same {
                                ctx.violation(
                                    &format!("mark-owned-vs-compiled:{}:L{}:mark={}:base={}", label, li, m, b),
                                    case_json(json!({
                                        "what": "compiled GPOS attaches this mark/base pair differently from the owned tables it was compiled from",
                                        "lookup": li, "mark": m, "base": b,
                                        "owned_tables_say": show_attach(a, &env.it),
                                        "compiled_says": show_attach(c, &env.it),
                                        "subtables_before": om.subs.len(), "subtables_after": rm.subs.len(),
                                        "extension": rm.is_extension,
                                        "trace": trace_counts,
                                    })),
                                    bytes.as_deref(),
                                );
                                violated = true;
                                break;
                            }
                            if a != c {
                                st.format_only_diffs += 1;
                            }
                        }
                        if violated {
                            break;
                        }
                    }
                    st.mark_queries += bases.len() as u64;
                }
            }
            _ => unreachable!(),
        }
        if violated {
            break;
        }
    }

    // read-fonts' Device::iter against the reference decoding
    for (k, got, want) in std::mem::take(&mut env.it.decode_mismatch) {
        if let DevKey::Device { start, end, fmt, words } = &k {
            let _ = (&got, &want);
            ctx.violation(
                &format!("device-iter-decoding:format{}", fmt),
                json!({"what": "read-fonts Device::iter() decodes a compiled Device table's deltas differently from the OpenType packing",
                       "start_size": start, "end_size": end, "delta_format": fmt, "words": words,
                       "iter_gives": got, "spec_decoding": want, "case": label}),
                None,
            );
        }
    }
    ctx.count("device_tables_decoded", env.it.devices_decoded);
    ctx.count("read_side_panics_worked_around", env.it.lib_panic_count);
    for (what, p) in std::mem::take(&mut env.it.lib_panics) {
        ctx.judge_panic(&p, &what, json!({"case": label, "note": "panic while reading a valid compiled table; the harness continued with a reference computation"}), bytes.as_deref());
    }

    // ---------------------------------------------------------- evidence
    let queries = st.pair_queries + st.mark_queries;
    ctx.evals(queries);
    ctx.count("pair_queries", st.pair_queries);
    ctx.count("pair_queries_with_rule", st.pair_with_rule);
    ctx.count("pair_queries_without_rule", st.pair_no_rule);
    ctx.count("pair_queries_matched_by_a_subtable", st.pair_matched);
    ctx.count("mark_base_queries", st.mark_queries);
    ctx.count("mark_base_queries_with_rule", st.mark_with_rule);
    ctx.count("format_only_differences", st.format_only_diffs);
    ctx.count("rules:glyph_pair", n_glyph_rules as u64);
    ctx.count("rules:class_pair", n_class_rules as u64);
    ctx.count("rules:mark_base", n_mark_rules as u64);
    ctx.count("rules:duplicate_glyph_pairs_ignored", n_dups as u64);
    ctx.count("delta_sets", n_delta_sets as u64);
    ctx.count("device_or_varidx_records_distinct", env.it.len() as u64);
    ctx.count("subtables_before_compile", st.sub_before as u64);
    ctx.count("lookups_with_overlapping_class_coverage(stage 1 skipped)", st.stage1_skipped as u64);
    ctx.count("order:lookups_checked_by_rule_order_oracle", st.order_lookups);
    ctx.count("order:pair_queries", st.order_queries);
    ctx.count("order:pairs_decided_by_glyph_pair_rule", st.order_glyph_rule);
    ctx.count("order:pairs_with_value_of_first_inserted_rule", st.order_first_rule_value);
    ctx.count("order:pairs_with_value_of_first_inserted_rule(several class-2 sets of matching rules)", st.order_first_rule_value_contested);
    ctx.count("order:pairs_with_no_adjustment_shadowed_by_earlier_rule", st.order_zero_shadowed);
    ctx.count("order:pairs_in_no_rule", st.order_no_rule);
    ctx.count("order:pairs_with_value_of_later_exact_duplicate_rule(accepted)", st.order_exact_dup_override);
    ctx.count("order:pairs_decided_in_second_builder", st.order_other_builder);
    if bytes.is_some() {
        ctx.count("compiled_cases", 1);
        ctx.count("compiled_bytes", bytes.as_ref().unwrap().len() as u64);
        ctx.count("subtables_after_compile", st.sub_after as u64);
        ctx.count("subtables_before_compile(compiled cases)", st.sub_before as u64);
        ctx.count("pairpos1_subtables_before", st.f1_before as u64);
        ctx.count("pairpos1_subtables_after", st.f1_after as u64);
        ctx.count("pairpos2_subtables_before", st.f2_before as u64);
        ctx.count("pairpos2_subtables_after", st.f2_after as u64);
        ctx.count("markbase_subtables_before", st.mb_before as u64);
        ctx.count("markbase_subtables_after", st.mb_after as u64);
        ctx.count("extension_lookups", st.ext_lookups as u64);
        ctx.count("lookups_split", st.lookups_split as u64);
        if st.lookups_split > 0 {
            ctx.count("cases_with_split", 1);
        }
        if st.ext_lookups > 0 {
            ctx.count("cases_with_promotion", 1);
        }
        if st.f1_after > st.f1_before {
            ctx.count("cases_with_pairpos1_split", 1);
        }
        if st.f2_after > st.f2_before {
            ctx.count("cases_with_pairpos2_split", 1);
        }
        if st.mb_after > st.mb_before {
            ctx.count("cases_with_markbase_split", 1);
        }
    }
    ctx.count("build_ms", build_ms);
    ctx.count("compile_ms", compile_ms);
    let needed_work = st.lookups_split > 0 || st.ext_lookups > 0;
    if !violated && bytes.is_some() && (needed_work || n_rules >= 100) {
        let mut d = Digest::new();
        d.str(&label);
        d.u64(ctx.seed);
        d.u64(n_rules as u64);
        d.u64(bytes.as_ref().unwrap().len() as u64);
        ctx.nontrivial(d.finish());
    }
    let sample = case_json(json!({
        "bytes": bytes.as_ref().map(|b| b.len()),
        "subtables_before": st.sub_before, "subtables_after": st.sub_after,
        "pairpos1": [st.f1_before, st.f1_after], "pairpos2": [st.f2_before, st.f2_after],
        "markbase": [st.mb_before, st.mb_after],
        "extension_lookups": st.ext_lookups, "trace": trace_counts,
        "pair_queries": st.pair_queries, "mark_queries": st.mark_queries,
        "build_ms": build_ms, "compile_ms": compile_ms,
    }));
    let kind = if st.lookups_split > 0 && st.ext_lookups > 0 {
        format!("{}:split+promoted", spec.kind)
    } else if st.lookups_split > 0 {
        format!("{}:split", spec.kind)
    } else if st.ext_lookups > 0 {
        format!("{}:promoted", spec.kind)
    } else {
        format!("{}:plain", spec.kind)
    };
    ctx.label("case_outcomes", &kind);
    ctx.sample_by_kind(&kind, sample);
    if std::env::var("VF_C16_VERBOSE").is_ok() {
        eprintln!(
            "{label}: rules={n_rules} bytes={:?} subs {}->{} ext={} q={} build={}ms compile={}ms total={}ms",
            bytes.as_ref().map(|b| b.len()),
            st.sub_before,
            st.sub_after,
            st.ext_lookups,
            queries,
            build_ms,
            compile_ms,
            t0.elapsed().as_millis()
        );
    }
}
