//! Generators: specs -> rule sets (plans).

use vf_core::Rng;

use crate::plan::*;

#[derive(Clone, Debug)]
pub struct GroupSpec {
    pub n_c1: usize,
    pub n_c2: usize,
    pub g_per_c1: usize,
    pub g_per_c2: usize,
    pub density_pct: u64,
    pub style1: u8,
    pub style2: u8,
}

#[derive(Clone, Debug)]
pub struct PairSpec {
    pub n_first: usize,
    pub per_first: usize,
    /// 0 contiguous run (coverage format 2), 1 scattered, 2 runs and singles
    pub first_shape: u8,
    /// number of distinct (format1, format2) template pairs
    pub n_tp: usize,
    pub dev_mode: u8,
    pub dev_pct: u64,
    pub pool: usize,
    pub dup_pct: u64,
    pub groups: Vec<GroupSpec>,
    /// firsts of glyph rules also drawn from this builder's class-1 glyphs
    pub mix_pct: u64,
    /// place the class-1 glyphs where the previous builder of the lookup has
    /// its own: the coverages of the class subtables then overlap and earlier
    /// subtables shadow later ones (stage 2 only; stage 1 is skipped)
    pub overlap_prev: bool,
}

impl PairSpec {
    pub fn glyph_only(n_first: usize, per_first: usize) -> PairSpec {
        PairSpec {
            n_first,
            per_first,
            first_shape: 1,
            n_tp: 1,
            dev_mode: 0,
            dev_pct: 0,
            pool: per_first * 2 + 4,
            dup_pct: 1,
            groups: vec![],
            mix_pct: 0,
            overlap_prev: false,
        }
    }
    pub fn approx_rules(&self) -> usize {
        self.n_first * self.per_first
            + self
                .groups
                .iter()
                .map(|g| g.n_c1 * g.n_c2 * g.density_pct as usize / 100)
                .sum::<usize>()
    }
}

#[derive(Clone, Debug)]
pub struct MarkSpec {
    pub n_classes: usize,
    pub marks_per_class: usize,
    pub n_bases: usize,
    pub anchor_pct: u64,
    pub dev_mode: u8,
    pub special_pct: u64,
    pub mark_shape: u8,
}

/// Class rules over OVERLAPPING glyph sets drawn from two small universes,
/// plus glyph-pair rules over the same glyphs: rule order decides.
#[derive(Clone, Debug)]
pub struct OrderSpec {
    /// universe sizes (first / second glyphs)
    pub n1: usize,
    pub n2: usize,
    pub n_rules: usize,
    pub max_set1: usize,
    pub max_set2: usize,
    /// directed prefix: 0 none, 1..=4 see `gen_order_plan`
    pub template: u8,
    pub n_glyph_pairs: usize,
    pub n_tp: usize,
    pub dev_mode: u8,
    pub dev_pct: u64,
    /// glyph id stride inside the universes
    pub stride: usize,
    /// allow a later rule with exactly the same two sets as an earlier one
    pub exact_dups: bool,
    /// use the first builder's glyph universe (the builders of the lookup then
    /// compete for the same first glyphs)
    pub share_universe: bool,
}

#[derive(Clone, Debug)]
pub enum LookupSpec {
    Pair(Vec<PairSpec>),
    Mark(Vec<MarkSpec>),
    PairOrder(Vec<OrderSpec>),
}

/// glyph id layout (before the optional mirroring):
///   class-1 glyphs of pair builder j: 1000 + j*9000 ..
///   glyph-rule-only firsts:           28000 .. 40000
///   seconds (pool and class 2):       40000 .. 65000
///   marks: 30000 + j*8000 .. ; bases: 100 ..
const CLASS1_BASE: usize = 1000;
const CLASS1_SPAN: usize = 9000;
const FIRST_BASE: usize = 28000;
const FIRST_SPAN: usize = 12000;
const SECOND_BASE: usize = 40000;
const SECOND_SPAN: usize = 25000;

/// Partition `glyphs` into `k` classes. Styles: 0 contiguous chunks of varied
/// size, 1 strided, 2 random.
fn partition(rng: &mut Rng, glyphs: &[u16], k: usize, style: u8) -> Vec<Vec<u16>> {
    let k = k.max(1).min(glyphs.len().max(1));
    let mut classes: Vec<Vec<u16>> = vec![vec![]; k];
    match style % 3 {
        0 => {
            // chunk sizes vary: weights 1..=3
            let weights: Vec<usize> = (0..k).map(|_| 1 + rng.usize(3)).collect();
            let total: usize = weights.iter().sum();
            let mut pos = 0usize;
            let mut acc = 0usize;
            for (c, w) in weights.iter().enumerate() {
                acc += w;
                let end = if c + 1 == k { glyphs.len() } else { (glyphs.len() * acc / total).max(pos + 1).min(glyphs.len()) };
                classes[c].extend_from_slice(&glyphs[pos..end]);
                pos = end;
            }
        }
        1 => {
            for (i, g) in glyphs.iter().enumerate() {
                classes[i % k].push(*g);
            }
        }
        _ => {
            for (i, g) in glyphs.iter().enumerate() {
                // make sure no class is empty
                let c = if i < k { i } else { rng.usize(k) };
                classes[c].push(*g);
            }
        }
    }
    classes.retain(|c| !c.is_empty());
    classes
}

fn first_glyphs(rng: &mut Rng, n: usize, shape: u8) -> Vec<usize> {
    let n = n.min(FIRST_SPAN / 2);
    let mut v = vec![];
    match shape % 3 {
        0 => {
            let start = rng.usize(FIRST_SPAN - n);
            v.extend((0..n).map(|i| FIRST_BASE + start + i));
        }
        1 => {
            // every other glyph at least: no ranges
            let step = 2 + rng.usize((FIRST_SPAN / n.max(1)).saturating_sub(2).min(5) + 1);
            let step = step.min(FIRST_SPAN / n.max(1)).max(2);
            v.extend((0..n).map(|i| FIRST_BASE + i * step));
        }
        _ => {
            let mut g = 0usize;
            while v.len() < n && g < FIRST_SPAN {
                let run = if rng.bool() { 1 } else { 2 + rng.usize(12) };
                for _ in 0..run {
                    if v.len() < n && g < FIRST_SPAN {
                        v.push(FIRST_BASE + g);
                        g += 1;
                    }
                }
                g += 1 + rng.usize(3);
            }
        }
    }
    v
}

pub fn gen_pair_plan(rng: &mut Rng, env: &Env, spec: &PairSpec, builder_idx: usize) -> PairPlan {
    let mut plan = PairPlan::default();
    // ---- templates: pairs (2k, 2k+1); distinct presence masks give distinct
    // value formats and therefore distinct format-1 subtables
    let mut masks: Vec<(u8, u8)> = vec![];
    let candidates: [(u8, u8); 10] = [
        (0b0100, 0),
        (0b0100, 0b0100),
        (0b0101, 0),
        (0b1111, 0b0001),
        (0b0001, 0b0100),
        (0b0110, 0b1000),
        (0b0100, 0b0101),
        (0b1000, 0),
        (0b0011, 0b1100),
        (0, 0b0100),
    ];
    let off = rng.usize(candidates.len());
    for k in 0..spec.n_tp.max(1) {
        masks.push(candidates[(off + k) % candidates.len()]);
    }
    for (m1, m2) in &masks {
        plan.tmpls.push(gen_tmpl(rng, env, *m1, spec.dev_mode, spec.dev_pct));
        plan.tmpls.push(gen_tmpl(rng, env, *m2, spec.dev_mode, spec.dev_pct));
    }
    let n_tp = masks.len();

    // ---- class groups
    let c1_base = CLASS1_BASE + (builder_idx - usize::from(spec.overlap_prev && builder_idx > 0)) * CLASS1_SPAN;
    let mut c1_pos = 0usize;
    for (gi, gs) in spec.groups.iter().enumerate() {
        let n1 = (gs.n_c1 * gs.g_per_c1).min(CLASS1_SPAN - c1_pos);
        if n1 == 0 {
            break;
        }
        // leave gaps between class-1 glyphs now and then
        let stride = if gs.style1 == 0 && rng.bool() { 1 } else { 1 + rng.usize(2) };
        let n1 = n1.min((CLASS1_SPAN - c1_pos) / stride);
        let g1s: Vec<u16> = (0..n1).map(|i| env.g((c1_base + c1_pos + i * stride) as u16)).collect();
        c1_pos += n1 * stride + 3;
        let n2 = (gs.n_c2 * gs.g_per_c2).min(SECOND_SPAN);
        let g2s: Vec<u16> = (0..n2).map(|i| env.g((SECOND_BASE + i) as u16)).collect();
        let mut g1s_sorted = g1s.clone();
        g1s_sorted.sort_unstable();
        let mut g2s_sorted = g2s.clone();
        g2s_sorted.sort_unstable();
        let c1 = partition(rng, &g1s_sorted, gs.n_c1, gs.style1);
        let mut c2 = partition(rng, &g2s_sorted, gs.n_c2, gs.style2);
        // the class containing the pool's first glyph goes first and gets one
        // extra glyph that is specific to the group: the class-2 sets of two
        // groups then overlap partially (both hold the pool's first glyph) and
        // a new group can never join the previous group's subtable
        let anchor = env.g(SECOND_BASE as u16);
        if let Some(k) = c2.iter().position(|c| c.contains(&anchor)) {
            c2.swap(0, k);
            c2[0].push(env.g((SECOND_BASE + SECOND_SPAN + 1 + gi) as u16));
            c2[0].sort_unstable();
        }
        let gidx = plan.groups.len() as u16;
        let mut first = true;
        for a in 0..c1.len() {
            for b in 0..c2.len() {
                let forced = first && b == 0;
                if forced || rng.chance(gs.density_pct, 100) {
                    first = false;
                    let tp = rng.usize(n_tp);
                    plan.crules.push((
                        gidx,
                        a as u16,
                        b as u16,
                        Rule {
                            t1: (2 * tp) as u8,
                            t2: (2 * tp + 1) as u8,
                            val: rng.range(-3000, 3000) as i16,
                        },
                    ));
                }
            }
        }
        plan.groups.push(ClassGroup { c1, c2 });
    }

    // ---- glyph rules
    if spec.n_first > 0 && spec.per_first > 0 {
        let mut firsts: Vec<u16> = first_glyphs(rng, spec.n_first, spec.first_shape)
            .into_iter()
            .map(|g| env.g(g as u16))
            .collect();
        if spec.mix_pct > 0 {
            // some firsts are class-1 glyphs of this builder: glyph rules take
            // precedence over the class rules
            let class_glyphs: Vec<u16> = plan.groups.iter().flat_map(|g| g.c1.iter().flatten().copied()).collect();
            if !class_glyphs.is_empty() {
                for f in firsts.iter_mut() {
                    if rng.chance(spec.mix_pct, 100) {
                        *f = *rng.pick(&class_glyphs);
                    }
                }
                firsts.sort_unstable();
                firsts.dedup();
            }
        }
        let pool_n = spec.pool.max(spec.per_first).min(SECOND_SPAN);
        // the pool overlaps the class-2 glyphs (same base) and is strided now and then
        let pstride = if rng.bool() { 1 } else { 2 };
        let pool: Vec<u16> = (0..pool_n)
            .map(|i| env.g((SECOND_BASE + (i * pstride) % SECOND_SPAN) as u16))
            .collect();
        let p_num = spec.per_first as u64;
        let p_den = pool_n as u64;
        for g1 in &firsts {
            let tp_fixed = rng.usize(n_tp);
            let per_rule_tp = n_tp > 1 && rng.chance(1, 3);
            let mut any = false;
            for g2 in &pool {
                if rng.chance(p_num, p_den) {
                    any = true;
                    let tp = if per_rule_tp { rng.usize(n_tp) } else { tp_fixed };
                    plan.grules.push((
                        *g1,
                        *g2,
                        Rule {
                            t1: (2 * tp) as u8,
                            t2: (2 * tp + 1) as u8,
                            val: rng.range(-3000, 3000) as i16,
                        },
                    ));
                }
            }
            if !any {
                plan.grules.push((*g1, pool[0], Rule { t1: 0, t2: 1, val: 5 }));
            }
        }
        // a first glyph kerning with itself, with glyph 0 / 0xFFFF
        if let Some(g1) = firsts.first().copied() {
            for g2 in [g1, env.g(0), env.g(1)] {
                plan.grules.push((g1, g2, Rule { t1: 0, t2: 1, val: 77 }));
            }
        }
        // duplicates: a later, conflicting rule for an existing pair
        let n = plan.grules.len();
        let n_dup = (n as u64 * spec.dup_pct / 100) as usize;
        for _ in 0..n_dup {
            let (a, b, r) = plan.grules[rng.usize(n)];
            plan.grules.push((
                a,
                b,
                Rule {
                    t1: r.t1,
                    t2: r.t2,
                    val: r.val.wrapping_add(1000),
                },
            ));
        }
    }
    plan.derive();
    plan
}

fn pick_set(rng: &mut Rng, universe: &[u16], used: &[Vec<u16>], max: usize) -> Vec<u16> {
    let max = max.clamp(1, universe.len());
    let subset = |rng: &mut Rng, from: &[u16], max: usize| -> Vec<u16> {
        let k = 1 + rng.usize(max.min(from.len()));
        let mut v = from.to_vec();
        rng.shuffle(&mut v);
        v.truncate(k);
        v.sort_unstable();
        v
    };
    let roll = rng.usize(100);
    if !used.is_empty() && roll < 30 {
        // identical to an earlier set: compatible with the subtable that has it
        return rng.pick(used).clone();
    }
    if !used.is_empty() && roll < 45 {
        // a proper part of an earlier set ([C] after [B C])
        let from = rng.pick(used).clone();
        if from.len() > 1 {
            return subset(rng, &from, from.len() - 1);
        }
    }
    if roll < 65 {
        // glyphs no earlier set has: fits every subtable
        let fresh: Vec<u16> = universe.iter().copied().filter(|g| !used.iter().any(|u| u.contains(g))).collect();
        if !fresh.is_empty() {
            return subset(rng, &fresh, max);
        }
    }
    if !used.is_empty() && roll < 80 {
        // an earlier set plus / minus a glyph: partial overlap, forces a break
        let mut v = rng.pick(used).clone();
        let g = *rng.pick(universe);
        if let Some(k) = v.iter().position(|x| *x == g) {
            if v.len() > 1 {
                v.remove(k);
            }
        } else {
            v.push(g);
            v.sort_unstable();
        }
        return v;
    }
    subset(rng, universe, max)
}

pub fn gen_order_plan(rng: &mut Rng, env: &Env, spec: &OrderSpec, builder_idx: usize) -> PairPlan {
    let mut plan = PairPlan::default();
    let candidates: [(u8, u8); 8] = [
        (0b0100, 0),
        (0b0100, 0b0100),
        (0b0101, 0),
        (0b1111, 0b0001),
        (0b0001, 0b0100),
        (0b0110, 0b1000),
        (0b1000, 0),
        (0, 0b0100),
    ];
    let off = rng.usize(candidates.len());
    let n_tp = spec.n_tp.max(1);
    for k in 0..n_tp {
        let (m1, m2) = candidates[(off + k) % candidates.len()];
        plan.tmpls.push(gen_tmpl(rng, env, m1, spec.dev_mode, spec.dev_pct));
        plan.tmpls.push(gen_tmpl(rng, env, m2, spec.dev_mode, spec.dev_pct));
    }
    let stride = spec.stride.max(1);
    let c1_base = CLASS1_BASE + if spec.share_universe { 0 } else { builder_idx * CLASS1_SPAN };
    let mut u1: Vec<u16> = (0..spec.n1.max(1)).map(|i| env.g((c1_base + i * stride) as u16)).collect();
    let mut u2: Vec<u16> = (0..spec.n2.max(1)).map(|i| env.g((SECOND_BASE + i * stride) as u16)).collect();
    u1.sort_unstable();
    u2.sort_unstable();
    // every rule gets its own, non-zero number: values identify rules
    let mut serial = 0i16;
    let mut next_rule = |rng: &mut Rng| -> Rule {
        serial += 1;
        let tp = rng.usize(n_tp);
        let mag = 150 * serial.min(70) + rng.range(0, 40) as i16;
        Rule {
            t1: (2 * tp) as u8,
            t2: (2 * tp + 1) as u8,
            val: if rng.bool() { mag } else { -mag },
        }
    };
    // ---- directed prefixes (A, B, .. distinct first glyphs; X, Y, .. seconds)
    if spec.template != 0 && u1.len() >= 4 && u2.len() >= 3 {
        let mut a = u1.clone();
        rng.shuffle(&mut a);
        let mut x = u2.clone();
        rng.shuffle(&mut x);
        let s = |v: &[u16]| {
            let mut v = v.to_vec();
            v.sort_unstable();
            v
        };
        let rules: Vec<(Vec<u16>, Vec<u16>)> = match spec.template {
            // rule 2 breaks on class 1; rule 3 fits the first subtable and shares (C, Y) with rule 2
            1 => vec![(s(&[a[0], a[1]]), s(&[x[0]])), (s(&[a[1], a[2]]), s(&[x[1]])), (s(&[a[2]]), s(&[x[1]]))],
            // rule 2 breaks on class 2; rule 3 fits the first subtable and shares (B, Z) with rule 2
            2 => vec![(s(&[a[0]]), s(&[x[0], x[1]])), (s(&[a[1]]), s(&[x[1], x[2]])), (s(&[a[1]]), s(&[x[2]]))],
            // two breaks, the fourth rule fits subtables 1 and 2
            3 => vec![
                (s(&[a[0], a[1]]), s(&[x[0]])),
                (s(&[a[1], a[2]]), s(&[x[1]])),
                (s(&[a[2], a[3]]), s(&[x[2]])),
                (s(&[a[3]]), s(&[x[2]])),
            ],
            // the third rule shares both of its sets with rule 1 / is disjoint from it, rule 2 overlaps in between
            _ => vec![
                (s(&[a[0], a[1]]), s(&[x[0], x[1]])),
                (s(&[a[1], a[2], a[3]]), s(&[x[1], x[2]])),
                (s(&[a[2], a[3]]), s(&[x[0], x[1]])),
                (s(&[a[3]]), s(&[x[2]])),
            ],
        };
        for (s1, s2) in rules {
            let r = next_rule(rng);
            plan.orules.push((s1, s2, r));
        }
    }
    // ---- random rules
    while plan.orules.len() < spec.n_rules.max(1) {
        let used1: Vec<Vec<u16>> = plan.orules.iter().map(|r| r.0.clone()).collect();
        let used2: Vec<Vec<u16>> = plan.orules.iter().map(|r| r.1.clone()).collect();
        let s1 = pick_set(rng, &u1, &used1, spec.max_set1);
        let s2 = pick_set(rng, &u2, &used2, spec.max_set2);
        if !spec.exact_dups && plan.orules.iter().any(|r| r.0 == s1 && r.1 == s2) {
            // an exact duplicate: change the rule instead of looping for ever in a tiny universe
            if plan.orules.len() >= u1.len() * u2.len() {
                break;
            }
            continue;
        }
        let r = next_rule(rng);
        plan.orules.push((s1, s2, r));
    }
    // ---- glyph-pair rules over the same glyphs (and one outside first glyph)
    for k in 0..spec.n_glyph_pairs {
        let g1 = if k % 5 == 4 { env.g((FIRST_BASE + k) as u16) } else { *rng.pick(&u1) };
        let g2 = *rng.pick(&u2);
        let r = next_rule(rng);
        plan.grules.push((g1, g2, r));
    }
    plan.derive();
    plan
}

pub fn gen_mark_plan(rng: &mut Rng, env: &Env, spec: &MarkSpec, builder_idx: usize) -> MarkPlan {
    let mut plan = MarkPlan::default();
    let n_classes = spec.n_classes.max(1);
    // class names in a non-sorted, non-insertion-friendly order
    let mut names: Vec<String> = (0..n_classes).map(|i| format!("cls{:03}", (i * 7919) % 1000 + i * 1000)).collect();
    rng.shuffle(&mut names);
    plan.class_names = names;
    let mark_base = 30000 + builder_idx * 8000;
    let mut g = 0usize;
    // marks: every class has at least one mark; classes appear interleaved so
    // that class ids do not follow glyph order
    let mut per_class: Vec<usize> = (0..n_classes)
        .map(|_| 1 + rng.usize(spec.marks_per_class.max(1) * 2 - 1))
        .collect();
    let total: usize = per_class.iter().sum();
    let mut order: Vec<u16> = vec![];
    for (c, n) in per_class.iter_mut().enumerate() {
        for _ in 0..*n {
            order.push(c as u16);
        }
    }
    if spec.mark_shape != 0 {
        rng.shuffle(&mut order);
    }
    let _ = total;
    for c in order {
        if g >= 7900 {
            break;
        }
        let gid = env.g((mark_base + g) as u16);
        g += if spec.mark_shape == 2 { 1 + rng.usize(3) } else { 1 };
        let x = (gid as i32 * 13 + c as i32 * 7) as i16;
        let y = (gid as i32 * 3 - c as i32 * 101) as i16;
        let a = gen_anchor(rng, env, x, y, spec.dev_mode, spec.special_pct);
        plan.marks.push((gid, c, a));
    }
    // a class whose marks were all cut off would make insert_base panic
    // ("marks added before bases"): only use classes that have a mark
    let mut has_mark = vec![false; n_classes];
    for m in &plan.marks {
        has_mark[m.1 as usize] = true;
    }
    let bstride = 1 + rng.usize(2);
    for b in 0..spec.n_bases {
        let gid = env.g((100 + b * bstride) as u16);
        for c in 0..n_classes {
            if has_mark[c] && rng.chance(spec.anchor_pct, 100) {
                let x = (b as i32 * 17 + c as i32 * 259) as i16;
                let y = (b as i32 * 131 + c as i32) as i16;
                let a = gen_anchor(rng, env, x, y, spec.dev_mode, spec.special_pct);
                plan.bases.push((gid, c as u16, a));
            }
        }
    }
    // insertion order of bases is not glyph order
    if rng.bool() {
        rng.shuffle(&mut plan.bases);
    }
    // marks must be inserted so that class ids are assigned in order of first
    // appearance; shuffle that too
    if rng.bool() {
        rng.shuffle(&mut plan.marks);
    }
    plan.derive();
    plan
}
