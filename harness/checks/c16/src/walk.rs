//! Reference lookup walkers: OpenType first-match semantics over (a) owned
//! write-fonts tables and (b) compiled bytes seen through read-fonts.
//!
//! PairPos: subtables in order; format 1 applies when the coverage contains
//! glyph 1 AND the pair set has a record for glyph 2 (otherwise the next
//! subtable is tried); format 2 applies as soon as the coverage contains
//! glyph 1 (class pair record, possibly all zero).
//! MarkBasePos: first subtable whose mark coverage contains the mark, whose
//! base coverage contains the base and whose base record has a non-null anchor
//! for the mark's class.

use std::collections::{HashMap, HashSet};

use font_types::GlyphId16;
use read_fonts::tables::gpos as rg;
use read_fonts::tables::layout as rl;
use write_fonts::tables::gpos as wg;

use crate::model::*;

// ------------------------------------------------------------ owned: pair

pub enum OSub {
    F1 {
        cov: HashMap<u16, u32>,
        sets: Vec<HashMap<u16, Pair>>,
    },
    F2 {
        cov: HashSet<u16>,
        c1: HashMap<u16, u16>,
        c2: HashMap<u16, u16>,
        recs: Vec<Vec<Pair>>,
    },
}

pub struct OPairLookup {
    pub subs: Vec<OSub>,
    pub n_f1: usize,
    pub n_f2: usize,
    pub n_records: usize,
}

impl OPairLookup {
    pub fn new(lookup: &write_fonts::tables::layout::Lookup<wg::PairPos>, it: &mut Interner) -> Self {
        let mut subs = vec![];
        let (mut n_f1, mut n_f2, mut n_records) = (0, 0, 0);
        for st in &lookup.subtables {
            match &**st {
                wg::PairPos::Format1(t) => {
                    n_f1 += 1;
                    let mut cov = HashMap::new();
                    for (i, g) in t.coverage.iter().enumerate() {
                        cov.entry(g.to_u16()).or_insert(i as u32);
                    }
                    let mut sets = Vec::with_capacity(t.pair_sets.len());
                    for ps in &t.pair_sets {
                        let mut m = HashMap::with_capacity(ps.pair_value_records.len());
                        for r in &ps.pair_value_records {
                            n_records += 1;
                            let p = (nvr_owned(&r.value_record1, it), nvr_owned(&r.value_record2, it));
                            m.entry(r.second_glyph.to_u16()).or_insert(p);
                        }
                        sets.push(m);
                    }
                    subs.push(OSub::F1 { cov, sets });
                }
                wg::PairPos::Format2(t) => {
                    n_f2 += 1;
                    let cov: HashSet<u16> = t.coverage.iter().map(|g| g.to_u16()).collect();
                    let mut c1 = HashMap::new();
                    for (g, c) in t.class_def1.iter() {
                        c1.entry(g.to_u16()).or_insert(c);
                    }
                    let mut c2 = HashMap::new();
                    for (g, c) in t.class_def2.iter() {
                        c2.entry(g.to_u16()).or_insert(c);
                    }
                    let recs: Vec<Vec<Pair>> = t
                        .class1_records
                        .iter()
                        .map(|r1| {
                            r1.class2_records
                                .iter()
                                .map(|r2| {
                                    n_records += 1;
                                    (nvr_owned(&r2.value_record1, it), nvr_owned(&r2.value_record2, it))
                                })
                                .collect()
                        })
                        .collect();
                    subs.push(OSub::F2 { cov, c1, c2, recs });
                }
            }
        }
        OPairLookup {
            subs,
            n_f1,
            n_f2,
            n_records,
        }
    }

    /// every glyph in some coverage
    pub fn firsts(&self) -> Vec<u16> {
        let mut v: Vec<u16> = vec![];
        for s in &self.subs {
            match s {
                OSub::F1 { cov, .. } => v.extend(cov.keys().copied()),
                OSub::F2 { cov, .. } => v.extend(cov.iter().copied()),
            }
        }
        v.sort_unstable();
        v.dedup();
        v
    }

    /// every second glyph named by some subtable
    pub fn seconds(&self) -> Vec<u16> {
        let mut v: Vec<u16> = vec![];
        for s in &self.subs {
            match s {
                OSub::F1 { sets, .. } => {
                    for m in sets {
                        v.extend(m.keys().copied());
                    }
                    v.sort_unstable();
                    v.dedup();
                }
                OSub::F2 { c2, .. } => v.extend(c2.keys().copied()),
            }
        }
        v.sort_unstable();
        v.dedup();
        v
    }

    /// seconds that a format-1 pair set of this first glyph names
    pub fn own_seconds(&self, g1: u16, out: &mut Vec<u16>) {
        for s in &self.subs {
            if let OSub::F1 { cov, sets } = s {
                if let Some(ci) = cov.get(&g1) {
                    if let Some(m) = sets.get(*ci as usize) {
                        out.extend(m.keys().copied());
                    }
                }
            }
        }
    }

    /// one representative (smallest, largest glyph) of every class-2 class
    pub fn class2_reps(&self) -> Vec<u16> {
        let mut v = vec![];
        for s in &self.subs {
            if let OSub::F2 { c2, .. } = s {
                let mut lo: HashMap<u16, u16> = HashMap::new();
                let mut hi: HashMap<u16, u16> = HashMap::new();
                for (g, c) in c2 {
                    let e = lo.entry(*c).or_insert(*g);
                    *e = (*e).min(*g);
                    let e = hi.entry(*c).or_insert(*g);
                    *e = (*e).max(*g);
                }
                v.extend(lo.values().copied());
                v.extend(hi.values().copied());
            }
        }
        v.sort_unstable();
        v.dedup();
        v
    }

    /// glyphs that are in the coverage of more than one format-2 subtable
    pub fn f2_coverage_overlaps(&self) -> usize {
        let mut seen: HashSet<u16> = HashSet::new();
        let mut n = 0;
        for s in &self.subs {
            if let OSub::F2 { cov, .. } = s {
                for g in cov {
                    if !seen.insert(*g) {
                        n += 1;
                    }
                }
            }
        }
        n
    }

    pub fn query(&self, g1: u16, seconds: &[u16], out: &mut Vec<Option<Pair>>, open: &mut Vec<usize>) {
        out.clear();
        out.resize(seconds.len(), None);
        open.clear();
        open.extend(0..seconds.len());
        for s in &self.subs {
            if open.is_empty() {
                break;
            }
            match s {
                OSub::F1 { cov, sets } => {
                    let Some(ci) = cov.get(&g1) else { continue };
                    let Some(set) = sets.get(*ci as usize) else { continue };
                    open.retain(|&i| match set.get(&seconds[i]) {
                        Some(p) => {
                            out[i] = Some(*p);
                            false
                        }
                        None => true,
                    });
                }
                OSub::F2 { cov, c1, c2, recs } => {
                    if !cov.contains(&g1) {
                        continue;
                    }
                    let k1 = c1.get(&g1).copied().unwrap_or(0) as usize;
                    let Some(row) = recs.get(k1) else { continue };
                    open.retain(|&i| {
                        let k2 = c2.get(&seconds[i]).copied().unwrap_or(0) as usize;
                        match row.get(k2) {
                            Some(p) => {
                                out[i] = Some(*p);
                                false
                            }
                            None => true,
                        }
                    });
                }
            }
        }
    }
}

// ------------------------------------------------------------ read: pair

pub enum RSub<'a> {
    F1 {
        t: rg::PairPosFormat1<'a>,
        cov: rl::CoverageTable<'a>,
    },
    F2 {
        t: rg::PairPosFormat2<'a>,
        cov: rl::CoverageTable<'a>,
        cd1: rl::ClassDef<'a>,
        cd2: rl::ClassDef<'a>,
        rows: HashMap<u16, Vec<Pair>>,
    },
}

pub struct RPairLookup<'a> {
    pub subs: Vec<RSub<'a>>,
    pub n_f1: usize,
    pub n_f2: usize,
    pub is_extension: bool,
}

impl<'a> RPairLookup<'a> {
    pub fn new(lookup: &rg::PositionLookup<'a>) -> Result<Self, String> {
        let is_extension = lookup.lookup_type() == 9;
        check_extension_types(lookup, 2)?;
        let subs_raw = match lookup.subtables().map_err(|e| format!("subtables(): {e}"))? {
            rg::PositionSubtables::Pair(s) => s,
            _ => return Err(format!("lookup type {} is not PairPos", lookup.lookup_type())),
        };
        let mut subs = vec![];
        let (mut n_f1, mut n_f2) = (0, 0);
        for (i, st) in subs_raw.iter().enumerate() {
            match st.map_err(|e| format!("subtable {i}: {e}"))? {
                rg::PairPos::Format1(t) => {
                    n_f1 += 1;
                    let cov = t.coverage().map_err(|e| format!("subtable {i} coverage: {e}"))?;
                    subs.push(RSub::F1 { t, cov });
                }
                rg::PairPos::Format2(t) => {
                    n_f2 += 1;
                    let cov = t.coverage().map_err(|e| format!("subtable {i} coverage: {e}"))?;
                    let cd1 = t.class_def1().map_err(|e| format!("subtable {i} classdef1: {e}"))?;
                    let cd2 = t.class_def2().map_err(|e| format!("subtable {i} classdef2: {e}"))?;
                    subs.push(RSub::F2 {
                        t,
                        cov,
                        cd1,
                        cd2,
                        rows: HashMap::new(),
                    });
                }
            }
        }
        Ok(RPairLookup {
            subs,
            n_f1,
            n_f2,
            is_extension,
        })
    }

    pub fn query(
        &mut self,
        g1: u16,
        seconds: &[u16],
        out: &mut Vec<Option<Pair>>,
        open: &mut Vec<usize>,
        it: &mut Interner,
    ) -> Result<(), String> {
        out.clear();
        out.resize(seconds.len(), None);
        open.clear();
        open.extend(0..seconds.len());
        let gid1 = GlyphId16::new(g1);
        for (si, s) in self.subs.iter_mut().enumerate() {
            if open.is_empty() {
                break;
            }
            match s {
                RSub::F1 { t, cov } => {
                    let Some(ci) = cov_get(cov, g1, it) else { continue };
                    let ps = t
                        .pair_sets()
                        .get(ci as usize)
                        .map_err(|e| format!("subtable {si}: pair set {ci} for covered glyph {g1}: {e}"))?;
                    let data = ps.offset_data();
                    let mut recs: Vec<(u16, Pair)> = Vec::with_capacity(ps.pair_value_count() as usize);
                    for r in ps.pair_value_records().iter() {
                        let r = r.map_err(|e| format!("subtable {si}: pair value record: {e}"))?;
                        recs.push((
                            r.second_glyph().to_u16(),
                            (nvr_read(r.value_record1(), data, it), nvr_read(r.value_record2(), data, it)),
                        ));
                    }
                    // shapers binary-search the records as stored
                    open.retain(|&i| match recs.binary_search_by_key(&seconds[i], |r| r.0) {
                        Ok(k) => {
                            out[i] = Some(recs[k].1);
                            false
                        }
                        Err(_) => true,
                    });
                }
                RSub::F2 { t, cov, cd1, cd2, rows } => {
                    if cov_get(cov, g1, it).is_none() {
                        continue;
                    }
                    let k1 = cd1.get(gid1);
                    if k1 >= t.class1_count() {
                        continue;
                    }
                    if !rows.contains_key(&k1) {
                        let data = t.offset_data();
                        let r1 = t
                            .class1_records()
                            .get(k1 as usize)
                            .map_err(|e| format!("subtable {si}: class1 record {k1}: {e}"))?;
                        let mut row = Vec::with_capacity(t.class2_count() as usize);
                        for r2 in r1.class2_records().iter() {
                            let r2 = r2.map_err(|e| format!("subtable {si}: class2 record: {e}"))?;
                            row.push((nvr_read(r2.value_record1(), data, it), nvr_read(r2.value_record2(), data, it)));
                        }
                        rows.insert(k1, row);
                    }
                    let row = &rows[&k1];
                    let n2 = t.class2_count();
                    open.retain(|&i| {
                        let k2 = cd2.get(GlyphId16::new(seconds[i]));
                        if k2 >= n2 {
                            return true;
                        }
                        match row.get(k2 as usize) {
                            Some(p) => {
                                out[i] = Some(*p);
                                false
                            }
                            None => true,
                        }
                    });
                }
            }
        }
        Ok(())
    }
}

// ------------------------------------------------------------ owned: mark/base

pub struct OMarkSub {
    pub mcov: HashMap<u16, usize>,
    pub bcov: HashMap<u16, usize>,
    pub marks: Vec<(u16, NAnchor)>,
    pub bases: Vec<Vec<Option<NAnchor>>>,
}

pub struct OMarkLookup {
    pub subs: Vec<OMarkSub>,
    pub n_anchors: usize,
    pub max_classes: usize,
}

impl OMarkLookup {
    pub fn new(lookup: &write_fonts::tables::layout::Lookup<wg::MarkBasePosFormat1>, it: &mut Interner) -> Self {
        let mut subs = vec![];
        let mut n_anchors = 0;
        let mut max_classes = 0;
        for st in &lookup.subtables {
            let t: &wg::MarkBasePosFormat1 = st;
            let mut mcov = HashMap::new();
            for (i, g) in t.mark_coverage.iter().enumerate() {
                mcov.entry(g.to_u16()).or_insert(i);
            }
            let mut bcov = HashMap::new();
            for (i, g) in t.base_coverage.iter().enumerate() {
                bcov.entry(g.to_u16()).or_insert(i);
            }
            let marks: Vec<(u16, NAnchor)> = t
                .mark_array
                .mark_records
                .iter()
                .map(|r| {
                    n_anchors += 1;
                    (r.mark_class, anchor_owned(&r.mark_anchor, it))
                })
                .collect();
            let bases: Vec<Vec<Option<NAnchor>>> = t
                .base_array
                .base_records
                .iter()
                .map(|r| {
                    max_classes = max_classes.max(r.base_anchors.len());
                    r.base_anchors
                        .iter()
                        .map(|a| {
                            a.as_ref().map(|a| {
                                n_anchors += 1;
                                anchor_owned(a, it)
                            })
                        })
                        .collect()
                })
                .collect();
            subs.push(OMarkSub {
                mcov,
                bcov,
                marks,
                bases,
            });
        }
        OMarkLookup {
            subs,
            n_anchors,
            max_classes,
        }
    }

    pub fn marks(&self) -> Vec<u16> {
        let mut v: Vec<u16> = self.subs.iter().flat_map(|s| s.mcov.keys().copied()).collect();
        v.sort_unstable();
        v.dedup();
        v
    }
    pub fn bases(&self) -> Vec<u16> {
        let mut v: Vec<u16> = self.subs.iter().flat_map(|s| s.bcov.keys().copied()).collect();
        v.sort_unstable();
        v.dedup();
        v
    }

    pub fn query(&self, mark: u16, bases: &[u16], out: &mut Vec<Option<Attach>>) {
        out.clear();
        out.resize(bases.len(), None);
        for s in &self.subs {
            let Some(mi) = s.mcov.get(&mark) else { continue };
            let Some((class, manchor)) = s.marks.get(*mi) else { continue };
            for (i, b) in bases.iter().enumerate() {
                if out[i].is_some() {
                    continue;
                }
                let Some(bi) = s.bcov.get(b) else { continue };
                let Some(rec) = s.bases.get(*bi) else { continue };
                if let Some(Some(ba)) = rec.get(*class as usize) {
                    out[i] = Some((*manchor, *ba));
                }
            }
        }
    }
}

// ------------------------------------------------------------ read: mark/base

pub struct RMarkSub<'a> {
    pub mcov: rl::CoverageTable<'a>,
    pub bcov: rl::CoverageTable<'a>,
    pub mark_array: rg::MarkArray<'a>,
    pub base_array: rg::BaseArray<'a>,
    pub class_count: u16,
}

pub struct RMarkLookup<'a> {
    pub subs: Vec<RMarkSub<'a>>,
    pub is_extension: bool,
}

impl<'a> RMarkLookup<'a> {
    pub fn new(lookup: &rg::PositionLookup<'a>) -> Result<Self, String> {
        let is_extension = lookup.lookup_type() == 9;
        check_extension_types(lookup, 4)?;
        let subs_raw = match lookup.subtables().map_err(|e| format!("subtables(): {e}"))? {
            rg::PositionSubtables::MarkToBase(s) => s,
            _ => return Err(format!("lookup type {} is not MarkBasePos", lookup.lookup_type())),
        };
        let mut subs = vec![];
        for (i, st) in subs_raw.iter().enumerate() {
            let t = st.map_err(|e| format!("subtable {i}: {e}"))?;
            subs.push(RMarkSub {
                mcov: t.mark_coverage().map_err(|e| format!("subtable {i} mark coverage: {e}"))?,
                bcov: t.base_coverage().map_err(|e| format!("subtable {i} base coverage: {e}"))?,
                mark_array: t.mark_array().map_err(|e| format!("subtable {i} mark array: {e}"))?,
                base_array: t.base_array().map_err(|e| format!("subtable {i} base array: {e}"))?,
                class_count: t.mark_class_count(),
            });
        }
        Ok(RMarkLookup { subs, is_extension })
    }

    pub fn query(
        &self,
        mark: u16,
        bases: &[u16],
        out: &mut Vec<Option<Attach>>,
        it: &mut Interner,
    ) -> Result<(), String> {
        out.clear();
        out.resize(bases.len(), None);
        for (si, s) in self.subs.iter().enumerate() {
            let Some(mi) = cov_get(&s.mcov, mark, it) else { continue };
            let Some(mrec) = s.mark_array.mark_records().get(mi as usize) else {
                return Err(format!("subtable {si}: no mark record {mi} for covered mark {mark}"));
            };
            let class = mrec.mark_class();
            if class >= s.class_count {
                continue;
            }
            let manchor = mrec
                .mark_anchor(s.mark_array.offset_data())
                .map_err(|e| format!("subtable {si}: mark anchor of {mark}: {e}"))?;
            let manchor = anchor_read(&manchor, it);
            let records = s.base_array.base_records();
            let bdata = s.base_array.offset_data();
            for (i, b) in bases.iter().enumerate() {
                if out[i].is_some() {
                    continue;
                }
                let Some(bi) = cov_get(&s.bcov, *b, it) else { continue };
                let rec = records
                    .get(bi as usize)
                    .map_err(|e| format!("subtable {si}: base record {bi} for covered base {b}: {e}"))?;
                match rec.base_anchors(bdata).get(class as usize) {
                    None => {}
                    Some(Err(e)) => return Err(format!("subtable {si}: base anchor ({b}, class {class}): {e}")),
                    Some(Ok(a)) => out[i] = Some((manchor, anchor_read(&a, it))),
                }
            }
        }
        Ok(())
    }
}

/// In an extension lookup every subtable must be an extension of the SAME
/// lookup type (`want`: 2 pair, 4 mark-to-base); read-fonts' `subtables()`
/// only looks at the first one.
pub fn check_extension_types(lookup: &rg::PositionLookup<'_>, want: u16) -> Result<usize, String> {
    let rg::PositionLookup::Extension(l) = lookup else { return Ok(0) };
    let mut n = 0;
    for (i, st) in l.subtables().iter().enumerate() {
        let st = st.map_err(|e| format!("extension subtable {i}: {e}"))?;
        let ty = match st {
            rg::ExtensionSubtable::Single(_) => 1,
            rg::ExtensionSubtable::Pair(_) => 2,
            rg::ExtensionSubtable::Cursive(_) => 3,
            rg::ExtensionSubtable::MarkToBase(_) => 4,
            rg::ExtensionSubtable::MarkToLig(_) => 5,
            rg::ExtensionSubtable::MarkToMark(_) => 6,
            rg::ExtensionSubtable::Contextual(_) => 7,
            rg::ExtensionSubtable::ChainContextual(_) => 8,
        };
        if ty != want {
            return Err(format!("extension subtable {i} has extension type {ty}, the lookup was of type {want}"));
        }
        n += 1;
    }
    Ok(n)
}
