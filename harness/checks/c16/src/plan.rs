//! Rule sets (the *input* of the builders) and their rule-level reference
//! semantics.

use std::collections::HashMap;

use font_types::{F2Dot14, GlyphId16};
use read_fonts::collections::IntSet;
use vf_core::Rng;
use write_fonts::tables::gpos::builders::{
    AnchorBuilder, MarkToBaseBuilder, PairPosBuilder, ValueRecordBuilder,
};
use write_fonts::tables::layout as wl;
use write_fonts::tables::layout::builders::{DeviceOrDeltas, Metric};
use write_fonts::tables::variations::ivs_builder::{VariationIndexRemapping, VariationStoreBuilder};
use write_fonts::tables::variations::{RegionAxisCoordinates, VariationRegion};

use crate::model::{devkey_owned_device, DevKey, Interner, NAnchor, NVr};

pub type Deltas = Vec<(VariationRegion, i16)>;

/// Per-case environment: variation store, delta-set bookkeeping, interner.
pub struct Env {
    pub regions: Vec<VariationRegion>,
    pub vs: Option<VariationStoreBuilder>,
    /// delta set -> temporary id handed out by the VariationStoreBuilder
    pub deltamap: HashMap<Deltas, u32>,
    pub remap: Option<VariationIndexRemapping>,
    pub it: Interner,
    /// mirror all glyph ids (g -> 0xFFFF - g) so that the top of the glyph
    /// space is exercised too
    pub flip: bool,
}

impl Env {
    pub fn new(flip: bool) -> Env {
        let c = |v: f32| F2Dot14::from_f32(v);
        let ax = |a: f32, b: f32, d: f32| RegionAxisCoordinates::new(c(a), c(b), c(d));
        let regions = vec![
            VariationRegion::new(vec![ax(0.0, 1.0, 1.0), ax(0.0, 0.0, 0.0)]),
            VariationRegion::new(vec![ax(-1.0, -1.0, 0.0), ax(0.0, 0.0, 0.0)]),
            VariationRegion::new(vec![ax(0.0, 0.0, 0.0), ax(0.0, 1.0, 1.0)]),
            VariationRegion::new(vec![ax(0.0, 1.0, 1.0), ax(0.0, 1.0, 1.0)]),
            VariationRegion::new(vec![ax(0.0, 0.5, 1.0), ax(0.0, 0.0, 0.0)]),
        ];
        Env {
            regions,
            vs: Some(VariationStoreBuilder::new(2)),
            deltamap: HashMap::new(),
            remap: None,
            it: Interner::default(),
            flip,
        }
    }
    #[inline]
    pub fn g(&self, g: u16) -> u16 {
        if self.flip {
            0xFFFF - g
        } else {
            g
        }
    }
    /// make the delta set known to the store (the builders will get the same
    /// temporary id for it later) and remember its id
    fn register(&mut self, d: &Deltas) {
        if !self.deltamap.contains_key(d) {
            let id = self.vs.as_mut().expect("store not yet built").add_deltas(d.clone());
            self.deltamap.insert(d.clone(), id);
        }
    }
    fn expect_deltas(&mut self, d: &Deltas) -> u32 {
        let key = match self.deltamap.get(d) {
            None => DevKey::Bad("delta set never registered".into()),
            Some(id) => match self.remap.as_ref().and_then(|r| r.get(*id)) {
                Some(v) => DevKey::VarIdx(v.delta_set_outer_index, v.delta_set_inner_index),
                None => DevKey::Bad(format!("temporary delta set id {id} missing from remapping")),
            },
        };
        self.it.id(key)
    }
}

// ------------------------------------------------------------ value templates

#[derive(Clone, Debug)]
pub enum DevT {
    None,
    Fixed(wl::Device),
    PerVal,
    DeltasFixed(Deltas),
    DeltasPerVal(u8),
}

#[derive(Clone, Debug)]
pub struct FieldT {
    pub off: i16,
    pub dev: DevT,
}

/// Which fields a value record has (NVr order: x_placement, y_placement,
/// x_advance, y_advance), and how value / device derive from the rule's number.
#[derive(Clone, Debug, Default)]
pub struct Tmpl {
    pub f: [Option<FieldT>; 4],
}

pub fn device_for(seed: i16) -> wl::Device {
    let u = seed as u16;
    let start = 8 + (u & 3);
    let n = 1 + ((u >> 2) % 9) as usize;
    let class = (u >> 6) % 3;
    let values: Vec<i8> = (0..n)
        .map(|i| {
            let h = (u as u32 ^ 0x5bd1)
                .wrapping_mul(2654435761)
                .rotate_left((i as u32 * 5 + 3) % 32);
            match class {
                0 => (h % 4) as i32 - 2,
                1 => (h % 16) as i32 - 8,
                _ => (h % 256) as i32 - 128,
            }
        })
        .map(|v| v as i8)
        .collect();
    wl::Device::new(start, start + n as u16 - 1, &values)
}

fn deltas_for(env: &Env, r: u8, seed: i16) -> Deltas {
    let n = env.regions.len();
    vec![
        (env.regions[r as usize % n].clone(), seed % 97),
        (env.regions[(r as usize + 1) % n].clone(), (seed / 7) % 31),
    ]
}

pub fn gen_dev(rng: &mut Rng, env: &Env, dev_mode: u8) -> DevT {
    // dev_mode: 0 none, 1 fixed devices, 2 per-value devices, 3 fixed deltas,
    // 4 per-value deltas, 5 mixed
    let m = if dev_mode == 5 { rng.usize(5) as u8 } else { dev_mode };
    match m {
        1 => DevT::Fixed(device_for(rng.range(-30000, 30000) as i16)),
        2 => DevT::PerVal,
        3 => DevT::DeltasFixed(deltas_for(env, rng.usize(5) as u8, rng.range(1, 30000) as i16)),
        4 => DevT::DeltasPerVal(rng.usize(5) as u8),
        _ => DevT::None,
    }
}

pub fn gen_tmpl(rng: &mut Rng, env: &Env, mask: u8, dev_mode: u8, dev_pct: u64) -> Tmpl {
    let mut t = Tmpl::default();
    for i in 0..4 {
        if mask & (1 << i) != 0 {
            let dev = if dev_mode != 0 && rng.chance(dev_pct, 100) {
                gen_dev(rng, env, dev_mode)
            } else {
                DevT::None
            };
            t.f[i] = Some(FieldT {
                off: rng.range(-50, 50) as i16,
                dev,
            });
        }
    }
    t
}

fn field_metric(f: &FieldT, val: i16, env: &mut Env) -> Metric {
    let default = val.wrapping_add(f.off);
    let device_or_deltas = match &f.dev {
        DevT::None => DeviceOrDeltas::None,
        DevT::Fixed(d) => DeviceOrDeltas::Device(d.clone()),
        DevT::PerVal => DeviceOrDeltas::Device(device_for(default)),
        DevT::DeltasFixed(d) => {
            env.register(d);
            DeviceOrDeltas::Deltas(d.clone())
        }
        DevT::DeltasPerVal(r) => {
            let d = deltas_for(env, *r, default);
            env.register(&d);
            DeviceOrDeltas::Deltas(d)
        }
    };
    Metric {
        default,
        device_or_deltas,
    }
}

/// The builder input for (template, number).
pub fn make_vrb(t: &Tmpl, val: i16, env: &mut Env) -> ValueRecordBuilder {
    let mut m = |i: usize| t.f[i].as_ref().map(|f| field_metric(f, val, env));
    let x_placement = m(0);
    let y_placement = m(1);
    let x_advance = m(2);
    let y_advance = m(3);
    ValueRecordBuilder {
        x_advance,
        y_advance,
        x_placement,
        y_placement,
    }
}

/// What (template, number) denotes: the reference value record.
pub fn expect_nvr(t: &Tmpl, val: i16, env: &mut Env) -> NVr {
    let mut n = NVr::default();
    for i in 0..4 {
        let Some(f) = &t.f[i] else { continue };
        let default = val.wrapping_add(f.off);
        n.present |= 1 << i;
        n.v[i] = default;
        let d = match &f.dev {
            DevT::None => 0,
            DevT::Fixed(d) => env.it.id(devkey_owned_device(d)),
            DevT::PerVal => env.it.id(devkey_owned_device(&device_for(default))),
            DevT::DeltasFixed(d) => env.expect_deltas(d),
            DevT::DeltasPerVal(r) => {
                let d = deltas_for(env, *r, default);
                env.expect_deltas(&d)
            }
        };
        if d != 0 {
            n.present |= 0x10 << i;
            n.d[i] = d;
        }
    }
    n
}

// ------------------------------------------------------------ pair rules

#[derive(Clone, Copy, Debug, PartialEq, Eq, Hash)]
pub struct Rule {
    pub t1: u8,
    pub t2: u8,
    pub val: i16,
}

impl Rule {
    pub fn val2(&self) -> i16 {
        self.val.wrapping_mul(3).wrapping_add(1)
    }
}

#[derive(Clone, Debug, Default)]
pub struct ClassGroup {
    pub c1: Vec<Vec<u16>>,
    pub c2: Vec<Vec<u16>>,
}

/// The rules given to ONE PairPosBuilder.
#[derive(Default)]
pub struct PairPlan {
    pub tmpls: Vec<Tmpl>,
    /// insertion order; a later rule for an existing pair is a duplicate that
    /// the builder must ignore ("first rule specified is used")
    pub grules: Vec<(u16, u16, Rule)>,
    pub groups: Vec<ClassGroup>,
    /// (group, class1 index, class2 index, rule), grouped by group
    pub crules: Vec<(u16, u16, u16, Rule)>,
    /// class rules over ARBITRARY (overlapping) glyph sets, insertion order;
    /// inserted after `crules`, interleaved with the glyph rules. Their
    /// reference semantics is the rule-ORDER oracle of `order.rs`
    /// (`lookup` below does not know them).
    pub orules: Vec<(Vec<u16>, Vec<u16>, Rule)>,
    // derived
    pub gmap: HashMap<(u16, u16), Rule>,
    pub class1_of: HashMap<u16, (u16, u16)>,
    pub class2_of: Vec<HashMap<u16, u16>>,
    pub cmap: HashMap<(u16, u16, u16), Rule>,
    pub n_dups: usize,
}

impl PairPlan {
    pub fn derive(&mut self) {
        self.gmap.clear();
        self.n_dups = 0;
        for (a, b, r) in &self.grules {
            if self.gmap.contains_key(&(*a, *b)) {
                self.n_dups += 1;
            } else {
                self.gmap.insert((*a, *b), *r);
            }
        }
        self.class1_of.clear();
        self.class2_of.clear();
        for (gi, g) in self.groups.iter().enumerate() {
            for (ci, c) in g.c1.iter().enumerate() {
                for gl in c {
                    self.class1_of.insert(*gl, (gi as u16, ci as u16));
                }
            }
            let mut m = HashMap::new();
            for (ci, c) in g.c2.iter().enumerate() {
                for gl in c {
                    m.insert(*gl, ci as u16);
                }
            }
            self.class2_of.push(m);
        }
        self.cmap.clear();
        for (g, a, b, r) in &self.crules {
            self.cmap.insert((*g, *a, *b), *r);
        }
    }

    pub fn n_rules(&self) -> usize {
        self.gmap.len() + self.cmap.len() + self.orules.len()
    }

    /// Rule-level semantics of one builder: a glyph-pair rule wins over a
    /// class rule; classes are disjoint by construction.
    pub fn lookup(&self, g1: u16, g2: u16) -> Option<Rule> {
        if let Some(r) = self.gmap.get(&(g1, g2)) {
            return Some(*r);
        }
        let (grp, c1) = *self.class1_of.get(&g1)?;
        let c2 = *self.class2_of[grp as usize].get(&g2)?;
        self.cmap.get(&(grp, c1, c2)).copied()
    }

    pub fn build(&self, env: &mut Env) -> PairPosBuilder {
        let mut b = PairPosBuilder::default();
        let to_set = |v: &Vec<u16>| -> IntSet<GlyphId16> { v.iter().map(|g| GlyphId16::new(*g)).collect() };
        if !self.orules.is_empty() {
            // glyph-pair and class insertions interleaved: each kind keeps its own order
            debug_assert!(self.crules.is_empty());
            for i in 0..self.grules.len().max(self.orules.len()) {
                if let Some((g1, g2, r)) = self.grules.get(i) {
                    let v1 = make_vrb(&self.tmpls[r.t1 as usize], r.val, env);
                    let v2 = make_vrb(&self.tmpls[r.t2 as usize], r.val2(), env);
                    b.insert_pair(GlyphId16::new(*g1), v1, GlyphId16::new(*g2), v2);
                }
                if let Some((s1, s2, r)) = self.orules.get(i) {
                    let v1 = make_vrb(&self.tmpls[r.t1 as usize], r.val, env);
                    let v2 = make_vrb(&self.tmpls[r.t2 as usize], r.val2(), env);
                    b.insert_classes(to_set(s1), v1, to_set(s2), v2);
                }
            }
            return b;
        }
        for (g1, g2, r) in &self.grules {
            let v1 = make_vrb(&self.tmpls[r.t1 as usize], r.val, env);
            let v2 = make_vrb(&self.tmpls[r.t2 as usize], r.val2(), env);
            b.insert_pair(GlyphId16::new(*g1), v1, GlyphId16::new(*g2), v2);
        }
        for (grp, c1, c2, r) in &self.crules {
            let g = &self.groups[*grp as usize];
            let v1 = make_vrb(&self.tmpls[r.t1 as usize], r.val, env);
            let v2 = make_vrb(&self.tmpls[r.t2 as usize], r.val2(), env);
            b.insert_classes(to_set(&g.c1[*c1 as usize]), v1, to_set(&g.c2[*c2 as usize]), v2);
        }
        b
    }

    pub fn expect(&self, r: &Rule, env: &mut Env) -> (NVr, NVr) {
        (
            expect_nvr(&self.tmpls[r.t1 as usize], r.val, env),
            expect_nvr(&self.tmpls[r.t2 as usize], r.val2(), env),
        )
    }
}

// ------------------------------------------------------------ mark/base rules

#[derive(Default)]
pub struct MarkPlan {
    pub class_names: Vec<String>,
    /// (mark glyph, class index, anchor), insertion order
    pub marks: Vec<(u16, u16, AnchorBuilder)>,
    /// (base glyph, class index, anchor)
    pub bases: Vec<(u16, u16, AnchorBuilder)>,
    pub mark_of: HashMap<u16, usize>,
    pub base_of: HashMap<(u16, u16), usize>,
}

impl MarkPlan {
    pub fn derive(&mut self) {
        self.mark_of = self.marks.iter().enumerate().map(|(i, m)| (m.0, i)).collect();
        self.base_of = self.bases.iter().enumerate().map(|(i, b)| ((b.0, b.1), i)).collect();
    }
    pub fn n_rules(&self) -> usize {
        self.marks.len() + self.bases.len()
    }
    pub fn build(&self, env: &mut Env) -> Result<MarkToBaseBuilder, String> {
        let mut b = MarkToBaseBuilder::default();
        for (g, c, a) in &self.marks {
            register_anchor(a, env);
            b.insert_mark(GlyphId16::new(*g), &self.class_names[*c as usize], a.clone())
                .map_err(|e| format!("insert_mark: {e}"))?;
        }
        for (g, c, a) in &self.bases {
            register_anchor(a, env);
            b.insert_base(GlyphId16::new(*g), &self.class_names[*c as usize], a.clone());
        }
        Ok(b)
    }
    /// (mark anchor, base anchor) for the pair, if this builder attaches them
    pub fn lookup(&self, mark: u16, base: u16) -> Option<(&AnchorBuilder, &AnchorBuilder)> {
        let mi = *self.mark_of.get(&mark)?;
        let (_, class, ma) = &self.marks[mi];
        let bi = *self.base_of.get(&(base, *class))?;
        Some((ma, &self.bases[bi].2))
    }
}

fn register_anchor(a: &AnchorBuilder, env: &mut Env) {
    for m in [&a.x, &a.y] {
        if let DeviceOrDeltas::Deltas(d) = &m.device_or_deltas {
            env.register(d);
        }
    }
}

pub fn expect_anchor(a: &AnchorBuilder, env: &mut Env) -> NAnchor {
    let mut dv = |m: &Metric| match &m.device_or_deltas {
        DeviceOrDeltas::None => 0,
        DeviceOrDeltas::Device(d) => env.it.id(devkey_owned_device(d)),
        DeviceOrDeltas::Deltas(d) => env.expect_deltas(d),
    };
    let xdev = dv(&a.x);
    let ydev = dv(&a.y);
    let has_dev = xdev != 0 || ydev != 0;
    NAnchor {
        x: a.x.default,
        y: a.y.default,
        // "it will be ignored if any device or deltas have been set"
        point: if has_dev { None } else { a.contourpoint },
        xdev,
        ydev,
        fmt: if has_dev {
            3
        } else if a.contourpoint.is_some() {
            2
        } else {
            1
        },
    }
}

pub fn gen_anchor(rng: &mut Rng, env: &Env, x: i16, y: i16, dev_mode: u8, special_pct: u64) -> AnchorBuilder {
    let mut a = AnchorBuilder::new(x, y);
    if !rng.chance(special_pct, 100) {
        return a;
    }
    let seed = x.wrapping_mul(31).wrapping_add(y);
    match if dev_mode == 5 { rng.usize(5) as u8 } else { dev_mode } {
        0 => {
            a = a.with_contourpoint(seed as u16 % 500);
        }
        1 => {
            a = a.with_x_device(device_for(seed % 64));
            if rng.bool() {
                a = a.with_contourpoint(7);
            }
        }
        2 => {
            if rng.bool() {
                a = a.with_x_device(device_for(seed));
            }
            a = a.with_y_device(device_for(seed.wrapping_add(1)));
        }
        3 => {
            a = a.with_y_device(deltas_for(env, (seed as u16 % 5) as u8, 1 + (seed.unsigned_abs() % 40) as i16));
        }
        _ => {
            a = a.with_x_device(deltas_for(env, (seed as u16 % 5) as u8, seed));
            if rng.bool() {
                a = a.with_y_device(deltas_for(env, 1, seed.wrapping_add(3)));
            }
        }
    }
    a
}
