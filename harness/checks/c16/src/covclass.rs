//! Coverage / ClassDef builders: glyph sets of every density -> builder ->
//! owned table -> bytes -> read-fonts; every glyph id in a sweep must answer
//! exactly like the input set / assignment.

use std::collections::{BTreeMap, HashMap};

use font_types::{GlyphId, GlyphId16};
use read_fonts::collections::IntSet;
use read_fonts::tables::layout as rl;
use read_fonts::{FontData, FontRead};
use serde_json::json;
use vf_core::{guard, Ctx, Digest, Rng};
use write_fonts::tables::layout as wl;
use write_fonts::tables::layout::builders::{ClassDefBuilder, CoverageTableBuilder};

pub const N_SHAPES: usize = 20;

fn shape_name(s: usize) -> &'static str {
    [
        "empty",
        "single",
        "only-0",
        "only-ffff",
        "0-and-ffff",
        "one-run",
        "run-to-ffff",
        "run-from-0",
        "alternating",
        "runs-of-3",
        "runs-of-2",
        "sparse",
        "bernoulli",
        "mixed-runs",
        "full",
        "full-with-holes",
        "runs-of-4",
        "near-ffff",
        "two-runs-gap1",
        "dense-window",
    ][s % N_SHAPES]
}

/// sorted, unique
pub fn gen_glyph_set(rng: &mut Rng, shape: usize) -> Vec<u16> {
    let mut v: Vec<u32> = vec![];
    match shape % N_SHAPES {
        0 => {}
        1 => v.push(rng.below(65536) as u32),
        2 => v.push(0),
        3 => v.push(0xFFFF),
        4 => {
            v.push(0);
            v.push(0xFFFF)
        }
        5 => {
            let len = 1 + { let m__ = *rng.pick(&[4u64, 40, 400, 4000]); rng.below(m__) } as u32;
            let start = rng.below((65536 - len) as u64 + 1) as u32;
            v.extend(start..start + len);
        }
        6 => {
            let len = 1 + rng.below(300) as u32;
            v.extend(65536 - len..65536);
        }
        7 => {
            let len = 1 + rng.below(300) as u32;
            v.extend(0..len);
        }
        8 => {
            let n = 1 + rng.below(600) as u32;
            let step = 2 + rng.below(2) as u32;
            let start = rng.below((65536 - n * step) as u64) as u32;
            v.extend((0..n).map(|i| start + i * step));
        }
        9 | 10 | 16 => {
            let run = match shape % N_SHAPES {
                9 => 3,
                10 => 2,
                _ => 4,
            };
            let n = 1 + rng.below(200) as u32;
            let gap = 1 + rng.below(3) as u32;
            let start = rng.below((65536 - n * (run + gap)) as u64) as u32;
            for i in 0..n {
                let s = start + i * (run + gap);
                v.extend(s..s + run);
            }
        }
        11 => {
            let n = 2 + { let m__ = *rng.pick(&[8u64, 100, 1500]); rng.below(m__) } as usize;
            for _ in 0..n {
                v.push(rng.below(65536) as u32);
            }
        }
        12 | 19 => {
            let w = 10 + { let m__ = *rng.pick(&[50u64, 1000, 20000]); rng.below(m__) } as u32;
            let start = rng.below((65536 - w) as u64) as u32;
            let p = if shape % N_SHAPES == 19 {
                90 + rng.below(10)
            } else {
                *rng.pick(&[5u64, 20, 50, 80])
            };
            for g in start..start + w {
                if rng.chance(p, 100) {
                    v.push(g);
                }
            }
        }
        13 => {
            let mut g = rng.below(2000) as u32;
            let n = 1 + rng.below(150);
            for _ in 0..n {
                let run = if rng.chance(1, 2) { 1 } else { 1 + rng.below(30) as u32 };
                if g + run > 65536 {
                    break;
                }
                v.extend(g..g + run);
                g += run + 1 + { let m__ = *rng.pick(&[2u64, 10, 600]); rng.below(m__) } as u32;
            }
        }
        14 => v.extend(0..65536u32),
        15 => {
            let holes: Vec<u32> = (0..1 + rng.below(40)).map(|_| rng.below(65536) as u32).collect();
            v.extend((0..65536u32).filter(|g| !holes.contains(g)));
        }
        17 => {
            for g in 0xFFF0u32..=0xFFFF {
                if rng.chance(2, 3) {
                    v.push(g);
                }
            }
            v.push(*rng.pick(&[0xFFFEu32, 0xFFFF]));
        }
        18 => {
            let a = 1 + rng.below(50) as u32;
            let b = 1 + rng.below(50) as u32;
            let start = rng.below(60000) as u32;
            v.extend(start..start + a);
            v.extend(start + a + 1..start + a + 1 + b);
        }
        _ => {}
    }
    let mut v: Vec<u16> = v.into_iter().filter(|g| *g < 65536).map(|g| g as u16).collect();
    v.sort_unstable();
    v.dedup();
    v
}

/// glyph ids at which the tables are queried
fn sweep_ids(rng: &mut Rng, set: &[u16], full: bool) -> Vec<u16> {
    if full {
        return (0..=0xFFFFu16).collect();
    }
    let mut ids: Vec<u16> = vec![0, 1, 0xFFFE, 0xFFFF];
    if set.len() <= 3000 {
        for g in set {
            for d in -2i32..=2 {
                let x = *g as i32 + d;
                if (0..=0xFFFF).contains(&x) {
                    ids.push(x as u16);
                }
            }
        }
    } else {
        ids.extend_from_slice(set);
        for g in set.iter().step_by(7) {
            ids.push(g.wrapping_add(1));
            ids.push(g.wrapping_sub(1));
        }
    }
    for _ in 0..300 {
        ids.push(rng.below(65536) as u16);
    }
    ids.sort_unstable();
    ids.dedup();
    ids
}

fn set_digest(kind: &str, set: &[u16], extra: u64) -> u64 {
    let mut d = Digest::new();
    d.str(kind);
    d.u64(extra);
    for g in set {
        d.bytes(&g.to_le_bytes());
    }
    d.finish()
}

fn sample_set(set: &[u16]) -> serde_json::Value {
    if set.len() <= 24 {
        json!(set)
    } else {
        json!({"len": set.len(), "head": &set[..12], "tail": &set[set.len()-6..]})
    }
}

pub fn coverage_case(ctx: &mut Ctx, idx: usize, rng: &mut Rng) {
    let shape = if idx < 3 * N_SHAPES { idx } else { rng.usize(N_SHAPES) };
    let set = gen_glyph_set(rng, shape);
    let method = rng.usize(3);
    let label = format!("cov#{}:{}:m{}", idx, shape_name(shape), method);
    let glyphs: Vec<GlyphId16> = set.iter().map(|g| GlyphId16::new(*g)).collect();
    ctx.eval();
    ctx.count("coverage_cases", 1);

    // ---- build
    let mut add_results: Vec<(u16, u16)> = vec![]; // (gid, returned index)
    let mut shuffled = glyphs.clone();
    rng.shuffle(&mut shuffled);
    let ndup = rng.usize(4);
    for _ in 0..ndup {
        if !shuffled.is_empty() {
            let g = *rng.pick(&shuffled);
            shuffled.push(g);
        }
    }
    let use_add = method == 2 && set.len() <= 3000;
    let built = guard(|| {
        if use_add {
            let mut b = CoverageTableBuilder::default();
            let mut res = vec![];
            for g in &shuffled {
                let ix = b.add(*g);
                res.push((g.to_u16(), ix));
            }
            (b.build(), res)
        } else if method == 1 {
            (shuffled.iter().copied().collect::<wl::CoverageTable>(), vec![])
        } else {
            (CoverageTableBuilder::from_glyphs(shuffled.clone()).build(), vec![])
        }
    });
    let cov = match built {
        Ok((c, r)) => {
            add_results = r;
            c
        }
        Err(p) => {
            ctx.judge_panic(&p, "CoverageTableBuilder", json!({"case": label, "set": sample_set(&set)}), None);
            return;
        }
    };
    let fail = |ctx: &mut Ctx, what: &str, detail: serde_json::Value| {
        ctx.violation(
            &format!("coverage:{}:{}", what, label),
            json!({"case": label, "what": what, "set": sample_set(&set), "detail": detail}),
            None,
        );
    };
    // `add` returns the coverage index at the time of insertion
    if use_add {
        let mut so_far: Vec<u16> = vec![];
        for (g, ix) in &add_results {
            let pos = match so_far.binary_search(g) {
                Ok(p) => p,
                Err(p) => {
                    so_far.insert(p, *g);
                    p
                }
            };
            if pos as u16 != *ix {
                fail(ctx, "add-index", json!({"glyph": g, "returned": ix, "expected": pos}));
                return;
            }
        }
        ctx.count("coverage_add_calls", add_results.len() as u64);
    }
    // ---- owned table
    let owned_iter: Vec<u16> = cov.iter().map(|g| g.to_u16()).collect();
    if owned_iter != set {
        fail(ctx, "owned-iter", json!({"got_len": owned_iter.len()}));
        return;
    }
    if cov.len() != set.len() {
        fail(ctx, "owned-len", json!({"got": cov.len()}));
        return;
    }
    let fmt = match &cov {
        wl::CoverageTable::Format1(_) => 1,
        wl::CoverageTable::Format2(_) => 2,
    };
    ctx.count(&format!("coverage_format{}", fmt), 1);
    ctx.label("coverage_shapes_x_format", &format!("{}:f{}", shape_name(shape), fmt));
    // ---- compile + read
    let bytes = match guard(|| write_fonts::dump_table(&cov)) {
        Ok(Ok(b)) => b,
        Ok(Err(e)) => {
            ctx.inconclusive(format!("{label}: dump_table(coverage) failed: {e}"));
            return;
        }
        Err(p) => {
            ctx.judge_panic(&p, "dump_table(CoverageTable)", json!({"case": label}), None);
            return;
        }
    };
    let rcov = match rl::CoverageTable::read(FontData::new(&bytes)) {
        Ok(c) => c,
        Err(e) => {
            fail(ctx, "unreadable", json!({"err": format!("{e}")}));
            return;
        }
    };
    let rfmt = match &rcov {
        rl::CoverageTable::Format1(_) => 1,
        rl::CoverageTable::Format2(_) => 2,
    };
    if rfmt != fmt {
        fail(ctx, "format-changed", json!({"owned": fmt, "read": rfmt}));
        return;
    }
    let full = idx % 3 == 0 || set.len() > 20000;
    let ids = sweep_ids(rng, &set, full);
    // a library panic on one glyph id is reported (once per site) and the sweep goes on
    let mut mismatch = None;
    let mut panics: Vec<vf_core::PanicInfo> = vec![];
    let mut n_panics = 0u64;
    for g in &ids {
        let want = set.binary_search(g).ok().map(|i| i as u16);
        match guard(|| rcov.get(GlyphId16::new(*g))) {
            Ok(got) => {
                if got != want {
                    mismatch = Some((*g, got, want));
                    break;
                }
            }
            Err(p) => {
                n_panics += 1;
                if !panics.iter().any(|q| q.signature() == p.signature()) {
                    panics.push(p);
                }
            }
        }
    }
    ctx.evals(ids.len() as u64);
    ctx.count("coverage_glyph_queries", ids.len() as u64);
    ctx.count("coverage_get_panics", n_panics);
    for p in &panics {
        ctx.judge_panic(p, "CoverageTable::get", json!({"case": label, "format": fmt, "set": sample_set(&set)}), Some(&bytes));
    }
    if let Some((g, got, want)) = mismatch {
        fail(ctx, "get", json!({"glyph": g, "got": got, "want": want, "format": fmt}));
        return;
    }
    // out-of-u16 glyph ids are never covered
    for g in [0x10000u32, 0x10000 + set.first().copied().unwrap_or(0) as u32, 0xFFFFFF] {
        if rcov.get(GlyphId::new(g)).is_some() {
            fail(ctx, "get-big-gid", json!({"glyph": g}));
            return;
        }
    }
    let riter: Vec<u16> = rcov.iter().map(|g| g.to_u16()).collect();
    if riter != set {
        fail(ctx, "read-iter", json!({"got_len": riter.len()}));
        return;
    }
    if set.len() >= 3 {
        ctx.nontrivial(set_digest("cov", &set, 0));
    }
    ctx.distinct("glyph_sets", set_digest("set", &set, 0));
    ctx.sample_by_kind(
        &format!("coverage-f{}", fmt),
        json!({"case": label, "set": sample_set(&set), "bytes": bytes.len(), "queries": ids.len()}),
    );
}

fn check_classdef_reads(
    ctx: &mut Ctx,
    label: &str,
    cd: &wl::ClassDef,
    want: &BTreeMap<u16, u16>,
    ids: &[u16],
) -> bool {
    let fail = |ctx: &mut Ctx, what: &str, detail: serde_json::Value| {
        ctx.violation(
            &format!("classdef:{}:{}", what, label),
            json!({"case": label, "what": what, "detail": detail, "n_glyphs": want.len()}),
            None,
        );
    };
    let fmt = match cd {
        wl::ClassDef::Format1(_) => 1,
        wl::ClassDef::Format2(_) => 2,
    };
    ctx.count(&format!("classdef_format{}", fmt), 1);
    // owned getters
    for g in ids {
        let w = want.get(g).copied().unwrap_or(0);
        let got = cd.get(GlyphId16::new(*g));
        if got != w {
            fail(ctx, "owned-get", json!({"glyph": g, "got": got, "want": w, "format": fmt}));
            return false;
        }
    }
    let nonzero: BTreeMap<u16, u16> = want.iter().filter(|(_, c)| **c != 0).map(|(g, c)| (*g, *c)).collect();
    let owned_iter: BTreeMap<u16, u16> = cd.iter().filter(|(_, c)| *c != 0).map(|(g, c)| (g.to_u16(), c)).collect();
    if owned_iter != nonzero {
        fail(ctx, "owned-iter", json!({"got_len": owned_iter.len(), "want_len": nonzero.len()}));
        return false;
    }
    let mut classes: Vec<u16> = nonzero.values().copied().collect();
    classes.push(0);
    classes.sort_unstable();
    classes.dedup();
    if cd.class_count() as usize != classes.len() {
        fail(ctx, "class-count", json!({"got": cd.class_count(), "want": classes.len()}));
        return false;
    }
    let bytes = match guard(|| write_fonts::dump_table(cd)) {
        Ok(Ok(b)) => b,
        Ok(Err(e)) => {
            // an assignment spanning all 65536 glyph ids cannot be written as
            // format 1 (glyph count is a u16); the builder still prefers it
            // when it is the smaller encoding. Recorded, not judged.
            let span_all = nonzero.keys().next() == Some(&0) && nonzero.keys().next_back() == Some(&0xFFFF);
            if span_all && fmt == 1 {
                ctx.count("classdef_format1_span_65536_rejected_by_validation", 1);
            } else {
                ctx.inconclusive(format!("{label}: dump_table(classdef) failed: {e}"));
            }
            return false;
        }
        Err(p) => {
            ctx.judge_panic(&p, "dump_table(ClassDef)", json!({"case": label}), None);
            return false;
        }
    };
    let rcd = match rl::ClassDef::read(FontData::new(&bytes)) {
        Ok(c) => c,
        Err(e) => {
            fail(ctx, "unreadable", json!({"err": format!("{e}")}));
            return false;
        }
    };
    let r = guard(|| {
        for g in ids {
            let w = want.get(g).copied().unwrap_or(0);
            let got = rcd.get(GlyphId16::new(*g));
            if got != w {
                return Some((*g, got, w));
            }
        }
        None
    });
    ctx.evals(ids.len() as u64);
    ctx.count("classdef_glyph_queries", ids.len() as u64);
    match r {
        Ok(None) => {}
        Ok(Some((g, got, w))) => {
            fail(ctx, "get", json!({"glyph": g, "got": got, "want": w, "format": fmt}));
            return false;
        }
        Err(p) => {
            ctx.judge_panic(&p, "ClassDef::get", json!({"case": label}), Some(&bytes));
            return false;
        }
    }
    let riter: BTreeMap<u16, u16> = rcd.iter().filter(|(_, c)| *c != 0).map(|(g, c)| (g.to_u16(), c)).collect();
    if riter != nonzero {
        fail(ctx, "read-iter", json!({"got_len": riter.len(), "want_len": nonzero.len()}));
        return false;
    }
    ctx.sample_by_kind(
        &format!("classdef-f{}", fmt),
        json!({"case": label, "glyphs": want.len(), "classes": classes.len(), "bytes": bytes.len(), "queries": ids.len()}),
    );
    true
}

/// split a glyph set into classes
fn partition(rng: &mut Rng, set: &[u16], style: usize) -> Vec<Vec<u16>> {
    if set.is_empty() {
        return vec![];
    }
    let k = 1 + { let m__ = *rng.pick(&[3usize, 12, 60, 300]); rng.usize(set.len().min(m__)) };
    let mut classes: Vec<Vec<u16>> = vec![vec![]; k];
    match style % 3 {
        0 => {
            // contiguous chunks of random sizes
            let mut cuts: Vec<usize> = (0..k - 1).map(|_| rng.usize(set.len() + 1)).collect();
            cuts.push(0);
            cuts.push(set.len());
            cuts.sort_unstable();
            for (c, w) in cuts.windows(2).enumerate() {
                classes[c % k].extend_from_slice(&set[w[0]..w[1]]);
            }
        }
        1 => {
            for (i, g) in set.iter().enumerate() {
                classes[i % k].push(*g);
            }
        }
        _ => {
            for g in set {
                classes[rng.usize(k)].push(*g);
            }
        }
    }
    classes.retain(|c| !c.is_empty());
    classes
}

pub fn classdef_case(ctx: &mut Ctx, idx: usize, rng: &mut Rng) {
    let shape = if idx < 3 * N_SHAPES { idx + 7 } else { rng.usize(N_SHAPES) };
    let mut set = gen_glyph_set(rng, shape);
    if set.len() > 30000 && idx % 5 != 0 {
        set.truncate(2000 + rng.usize(3000));
    }
    let style = rng.usize(3);
    let classes = partition(rng, &set, style);
    ctx.eval();
    ctx.count("classdef_cases", 1);
    let full = idx % 4 == 1;
    let ids = sweep_ids(rng, &set, full);

    // ---- (a) raw assignment: ClassDef::from_iter keeps the given class numbers
    {
        let label = format!("cdraw#{}:{}:p{}", idx, shape_name(shape), style);
        let zero_class = rng.chance(1, 3); // one of the classes is given as explicit class 0
        let mut want: BTreeMap<u16, u16> = BTreeMap::new();
        let ids_of: Vec<u16> = {
            // class numbers: not necessarily dense
            let mut v: Vec<u16> = (0..classes.len()).map(|i| if rng.chance(1, 6) { 1 + rng.below(65000) as u16 } else { i as u16 + 1 }).collect();
            if zero_class && !v.is_empty() {
                let k = rng.usize(v.len());
                v[k] = 0;
            }
            v
        };
        let mut items: Vec<(GlyphId16, u16)> = vec![];
        for (c, gl) in classes.iter().enumerate() {
            for g in gl {
                want.insert(*g, ids_of[c]);
                items.push((GlyphId16::new(*g), ids_of[c]));
            }
        }
        rng.shuffle(&mut items);
        match guard(|| items.iter().copied().collect::<wl::ClassDef>()) {
            Ok(cd) => {
                if check_classdef_reads(ctx, &label, &cd, &want, &ids) && set.len() >= 3 {
                    ctx.nontrivial(set_digest("cdraw", &set, classes.len() as u64));
                }
            }
            Err(p) => ctx.judge_panic(&p, "ClassDef::from_iter", json!({"case": label}), None),
        }
    }

    // ---- (b) ClassDefBuilder: class numbers are assigned by the builder; the
    // returned mapping is the contract
    {
        let use0 = rng.bool();
        let label = format!("cdbld#{}:{}:p{}:z{}", idx, shape_name(shape), style, use0 as u8);
        let sets: Vec<IntSet<GlyphId16>> = classes
            .iter()
            .map(|c| c.iter().map(|g| GlyphId16::new(*g)).collect())
            .collect();
        let mut order: Vec<usize> = (0..sets.len()).collect();
        rng.shuffle(&mut order);
        let add_empty = rng.chance(1, 10);
        let r = guard(|| {
            let mut b = if use0 { ClassDefBuilder::new_using_class_0() } else { ClassDefBuilder::new() };
            let mut problems: Vec<String> = vec![];
            for (n, i) in order.iter().enumerate() {
                if !b.checked_add(sets[*i].clone()) {
                    problems.push(format!("disjoint class {} rejected", i));
                }
                // an identical class may be added again; an overlapping different one may not
                if n % 5 == 0 && !b.checked_add(sets[*i].clone()) {
                    problems.push(format!("duplicate class {} rejected", i));
                }
                if n % 7 == 0 && classes[*i].len() >= 1 {
                    let mut other: IntSet<GlyphId16> = IntSet::empty();
                    other.insert(GlyphId16::new(classes[*i][0]));
                    other.insert(GlyphId16::new(classes[*i][0].wrapping_add(1)));
                    if other != sets[*i] && b.checked_add(other) {
                        problems.push(format!("class overlapping {} accepted", i));
                    }
                }
            }
            if add_empty {
                b.checked_add(IntSet::empty());
            }
            let (cd, map) = b.build_with_mapping();
            (cd, map, problems)
        });
        let (cd, map, problems) = match r {
            Ok(x) => x,
            Err(p) => {
                ctx.judge_panic(&p, "ClassDefBuilder", json!({"case": label}), None);
                return;
            }
        };
        let fail = |ctx: &mut Ctx, what: &str, detail: serde_json::Value| {
            ctx.violation(
                &format!("classdef-builder:{}:{}", what, label),
                json!({"case": label, "what": what, "detail": detail}),
                None,
            );
        };
        if let Some(p) = problems.first() {
            fail(ctx, "checked-add", json!({"problem": p}));
            return;
        }
        // the mapping: every class present, ids a contiguous block starting at
        // 0 (class-0 builder) or 1, larger classes first
        let base = if use0 { 0u16 } else { 1 };
        let n_classes = sets.len() + usize::from(add_empty && !sets.iter().any(|s| s.is_empty()));
        let map: HashMap<IntSet<GlyphId16>, u16> = map;
        if map.len() != n_classes {
            fail(ctx, "mapping-size", json!({"got": map.len(), "want": n_classes}));
            return;
        }
        let mut by_id: Vec<(u16, u64)> = map.iter().map(|(s, id)| (*id, s.len())).collect();
        by_id.sort_unstable();
        for (i, (id, _)) in by_id.iter().enumerate() {
            if *id != base + i as u16 {
                fail(ctx, "mapping-ids-not-contiguous", json!({"ids": by_id.iter().map(|x| x.0).take(20).collect::<Vec<_>>()}));
                return;
            }
        }
        if by_id.windows(2).any(|w| w[0].1 < w[1].1) {
            fail(ctx, "mapping-not-size-ordered", json!({"sizes": by_id.iter().map(|x| x.1).take(30).collect::<Vec<_>>()}));
            return;
        }
        let mut want: BTreeMap<u16, u16> = BTreeMap::new();
        for (i, s) in sets.iter().enumerate() {
            let Some(id) = map.get(s) else {
                fail(ctx, "mapping-missing-class", json!({"class": i}));
                return;
            };
            for g in &classes[i] {
                want.insert(*g, *id);
            }
        }
        ctx.count("classdef_builder_classes", sets.len() as u64);
        ctx.label("classdef_builder_class_counts", &format!("{}", (sets.len() as f64).log2().ceil() as u32));
        if check_classdef_reads(ctx, &label, &cd, &want, &ids) && set.len() >= 3 {
            ctx.nontrivial(set_digest("cdbld", &set, classes.len() as u64 * 2 + use0 as u64));
        }
    }
}

pub fn run(ctx: &mut Ctx) {
    let n = ctx.tier.pick(4000usize, 100000);
    for i in 0..n {
        if !ctx.mine(i) {
            continue;
        }
        let mut rng = Rng::derive(ctx.seed, "c16-cov", i as u64);
        coverage_case(ctx, i, &mut rng);
        let mut rng = Rng::derive(ctx.seed, "c16-cd", i as u64);
        classdef_case(ctx, i, &mut rng);
    }
}
