//! Policy-independent rule-ORDER oracle for the class rules of one
//! `PairPosBuilder` (`insert_classes`), valid for arbitrary, overlapping
//! class-1 / class-2 glyph sets.
//!
//! What the builder promises (write-fonts/src/tables/gpos/builders.rs,
//! `ClassPairPosBuilder::insert`, a port of feaLib's
//! `ClassPairPosSubtableBuilder.addPair`): a class rule joins the LAST
//! format-2 subtable if both of its glyph sets are compatible with that
//! subtable's class defs (identical to an existing class or disjoint from all
//! of them), otherwise a new subtable is opened. Subtables are therefore
//! contiguous runs of the rules in insertion order and insertion order is
//! precedence. Without re-implementing that grouping, for a glyph pair
//! (g1, g2) whose first glyph is in some class-1 set of the builder:
//!
//! * let F be the FIRST inserted rule with g1 in its class-1 set and g2 in its
//!   class-2 set. The lookup must give F's value, or "no adjustment" (an
//!   all-zero record: the pair falls into an empty cell of an EARLIER
//!   subtable) -- the latter only if an earlier-inserted rule j < F has g1 in
//!   its class-1 set (legitimate format-2 shadowing);
//! * it must never give the value of a later rule;
//! * if no rule contains the pair it must give no adjustment.
//!
//! One documented-by-code exception: a later rule with EXACTLY the same two
//! glyph sets as an earlier rule of the same subtable replaces it
//! (`BTreeMap::insert`, as feaLib's `values_[(gc1, gc2)] = ...`); whether the
//! two share a subtable is grouping policy, so for such exact duplicates
//! either value is accepted (and counted).

use std::collections::HashMap;

use crate::plan::{PairPlan, Rule};

pub struct RuleIndex {
    /// (class-1 set id, class-2 set id, rule) in insertion order; set ids are
    /// equal iff the sets have the same glyphs
    pub rules: Vec<(u32, u32, Rule)>,
    /// first glyph -> rules (ascending) whose class-1 set has it
    by_g1: HashMap<u16, Vec<u32>>,
    /// second glyph -> class-2 set ids that have it
    s2_of: HashMap<u16, Vec<u32>>,
    /// (set1, set2) -> all rules with exactly these sets, if more than one
    same: HashMap<(u32, u32), Vec<u32>>,
    pub n_sets: usize,
}

/// The class rules of the builder as seen from one first glyph.
pub struct G1View {
    /// earliest rule whose class-1 set contains g1
    pub l0: u32,
    /// class-2 set id -> earliest rule (with g1 in class 1) using that set
    first_by_s2: HashMap<u32, u32>,
    /// number of rules with g1 in class 1
    pub n_rules: usize,
}

impl RuleIndex {
    pub fn new(p: &PairPlan) -> RuleIndex {
        let mut ids: HashMap<Vec<u16>, u32> = HashMap::new();
        let mut sets: Vec<Vec<u16>> = vec![];
        let mut intern = |v: &[u16]| -> u32 {
            let mut k = v.to_vec();
            k.sort_unstable();
            k.dedup();
            if let Some(i) = ids.get(&k) {
                return *i;
            }
            let i = sets.len() as u32;
            sets.push(k.clone());
            ids.insert(k, i);
            i
        };
        let mut rules = vec![];
        // same order as PairPlan::build inserts them
        for (g, a, b, r) in &p.crules {
            let grp = &p.groups[*g as usize];
            rules.push((intern(&grp.c1[*a as usize]), intern(&grp.c2[*b as usize]), *r, true));
        }
        for (s1, s2, r) in &p.orules {
            rules.push((intern(s1), intern(s2), *r, false));
        }
        // membership maps; a set is used on both sides with the same id, so
        // remember on which side(s) it was used
        let mut used1: HashMap<u32, Vec<u32>> = HashMap::new();
        let mut used2: Vec<bool> = vec![false; sets.len()];
        for (i, (a, b, _, _)) in rules.iter().enumerate() {
            used1.entry(*a).or_default().push(i as u32);
            used2[*b as usize] = true;
        }
        let mut by_g1: HashMap<u16, Vec<u32>> = HashMap::new();
        for (sid, rs) in &used1 {
            for g in &sets[*sid as usize] {
                by_g1.entry(*g).or_default().extend_from_slice(rs);
            }
        }
        for v in by_g1.values_mut() {
            v.sort_unstable();
        }
        let mut s2_of: HashMap<u16, Vec<u32>> = HashMap::new();
        for (sid, used) in used2.iter().enumerate() {
            if *used {
                for g in &sets[sid] {
                    s2_of.entry(*g).or_default().push(sid as u32);
                }
            }
        }
        let mut same: HashMap<(u32, u32), Vec<u32>> = HashMap::new();
        for (i, (a, b, _, _)) in rules.iter().enumerate() {
            same.entry((*a, *b)).or_default().push(i as u32);
        }
        same.retain(|_, v| v.len() > 1);
        RuleIndex {
            rules: rules.into_iter().map(|(a, b, r, _)| (a, b, r)).collect(),
            by_g1,
            s2_of,
            same,
            n_sets: sets.len(),
        }
    }

    pub fn is_empty(&self) -> bool {
        self.rules.is_empty()
    }

    pub fn firsts(&self) -> impl Iterator<Item = u16> + '_ {
        self.by_g1.keys().copied()
    }

    pub fn seconds(&self) -> impl Iterator<Item = u16> + '_ {
        self.s2_of.keys().copied()
    }

    pub fn n_exact_duplicates(&self) -> usize {
        self.same.values().map(|v| v.len() - 1).sum()
    }

    /// None: no class rule of the builder has g1 in its class-1 set
    pub fn view(&self, g1: u16) -> Option<G1View> {
        let l = self.by_g1.get(&g1)?;
        let mut first_by_s2: HashMap<u32, u32> = HashMap::with_capacity(l.len());
        for r in l {
            first_by_s2.entry(self.rules[*r as usize].1).or_insert(*r);
        }
        Some(G1View {
            l0: l[0],
            first_by_s2,
            n_rules: l.len(),
        })
    }

    /// (first rule containing (g1, g2), number of distinct (set1,set2)-rules
    /// of the view's g1 that contain the pair)
    pub fn first(&self, v: &G1View, g2: u16) -> (Option<u32>, usize) {
        let mut best: Option<u32> = None;
        let mut n = 0;
        if let Some(ss) = self.s2_of.get(&g2) {
            for s in ss {
                if let Some(r) = v.first_by_s2.get(s) {
                    n += 1;
                    best = Some(best.map_or(*r, |b: u32| b.min(*r)));
                }
            }
        }
        (best, n)
    }

    /// later rules with exactly the same two glyph sets as rule `f`
    pub fn exact_duplicates_after(&self, f: u32) -> &[u32] {
        let (a, b, _) = self.rules[f as usize];
        match self.same.get(&(a, b)) {
            None => &[],
            Some(v) => {
                let k = v.iter().position(|x| *x > f).unwrap_or(v.len());
                &v[k..]
            }
        }
    }
}
