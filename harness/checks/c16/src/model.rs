//! Normalised observation types shared by the rule-level reference, the walker
//! over owned (write-fonts) tables and the walker over compiled bytes
//! (read-fonts tables).

use std::collections::HashMap;

use read_fonts::tables::gpos as rg;
use read_fonts::tables::layout as rl;
use read_fonts::FontData;
use write_fonts::tables::gpos as wg;
use write_fonts::tables::layout as wl;

/// A device / variation-index record, field-wise.
#[derive(Clone, PartialEq, Eq, Hash, Debug)]
pub enum DevKey {
    Device {
        start: u16,
        end: u16,
        fmt: u16,
        words: Vec<u16>,
    },
    VarIdx(u16, u16),
    Pending(u32),
    /// something that could not be read / resolved
    Bad(String),
}

/// Interns device records so that value records are small `Copy` values and
/// equality of device records is equality of ids (0 = no device).
#[derive(Default)]
pub struct Interner {
    map: HashMap<DevKey, u32>,
    list: Vec<DevKey>,
    /// (device, what read-fonts' `Device::iter` decoded, reference decoding)
    pub decode_mismatch: Vec<(DevKey, Vec<i8>, Vec<i8>)>,
    pub devices_decoded: u64,
    pub read_checked: std::collections::HashSet<u32>,
    /// library panics met (and worked around) while reading compiled bytes
    pub lib_panics: Vec<(String, vf_core::PanicInfo)>,
    pub lib_panic_count: u64,
}

impl Interner {
    pub fn id(&mut self, k: DevKey) -> u32 {
        if let Some(i) = self.map.get(&k) {
            return *i;
        }
        self.list.push(k.clone());
        let id = self.list.len() as u32;
        self.map.insert(k, id);
        id
    }
    pub fn contains(&self, k: &DevKey) -> bool {
        self.map.contains_key(k)
    }
    pub fn get(&self, id: u32) -> Option<&DevKey> {
        if id == 0 {
            None
        } else {
            self.list.get(id as usize - 1)
        }
    }
    pub fn len(&self) -> usize {
        self.list.len()
    }
    pub fn note_panic(&mut self, what: &str, p: vf_core::PanicInfo) {
        self.lib_panic_count += 1;
        if !self.lib_panics.iter().any(|(_, q)| q.signature() == p.signature()) {
            self.lib_panics.push((what.to_string(), p));
        }
    }
    pub fn show(&self, id: u32) -> String {
        match self.get(id) {
            None => "-".into(),
            Some(k) => format!("{:?}", k),
        }
    }
}

/// Normalised value record. Field order: x_placement, y_placement,
/// x_advance, y_advance (the bit order of ValueFormat).
#[derive(Clone, Copy, PartialEq, Eq, Debug, Default, Hash)]
pub struct NVr {
    /// value, 0 if the field is absent
    pub v: [i16; 4],
    /// device id (0 = none)
    pub d: [u32; 4],
    /// ValueFormat bits (low byte)
    pub present: u8,
}

impl NVr {
    /// The adjustment the record denotes: absent fields are 0 / no device.
    #[inline]
    pub fn sem(&self) -> ([i16; 4], [u32; 4]) {
        (self.v, self.d)
    }
    pub fn show(&self, it: &Interner) -> String {
        format!(
            "fmt={:#04x} v={:?} d=[{},{},{},{}]",
            self.present,
            self.v,
            it.show(self.d[0]),
            it.show(self.d[1]),
            it.show(self.d[2]),
            it.show(self.d[3])
        )
    }
}

pub type Pair = (NVr, NVr);

pub fn pair_sem(p: &Option<Pair>) -> (([i16; 4], [u32; 4]), ([i16; 4], [u32; 4])) {
    match p {
        Some((a, b)) => (a.sem(), b.sem()),
        None => (NVr::default().sem(), NVr::default().sem()),
    }
}

pub fn show_pair(p: &Option<Pair>, it: &Interner) -> String {
    match p {
        None => "no-match".into(),
        Some((a, b)) => format!("[{}] [{}]", a.show(it), b.show(it)),
    }
}

/// Normalised anchor.
#[derive(Clone, Copy, PartialEq, Eq, Debug, Default, Hash)]
pub struct NAnchor {
    pub x: i16,
    pub y: i16,
    pub point: Option<u16>,
    pub xdev: u32,
    pub ydev: u32,
    pub fmt: u8,
}

impl NAnchor {
    #[inline]
    pub fn sem(&self) -> (i16, i16, Option<u16>, u32, u32) {
        (self.x, self.y, self.point, self.xdev, self.ydev)
    }
    pub fn show(&self, it: &Interner) -> String {
        format!(
            "fmt{} ({},{}) pt={:?} xdev={} ydev={}",
            self.fmt,
            self.x,
            self.y,
            self.point,
            it.show(self.xdev),
            it.show(self.ydev)
        )
    }
}

pub type Attach = (NAnchor, NAnchor);

pub fn show_attach(p: &Option<Attach>, it: &Interner) -> String {
    match p {
        None => "no-match".into(),
        Some((a, b)) => format!("mark[{}] base[{}]", a.show(it), b.show(it)),
    }
}

// ------------------------------------------------------------ owned side

pub fn devkey_owned_device(d: &wl::Device) -> DevKey {
    DevKey::Device {
        start: d.start_size,
        end: d.end_size,
        fmt: d.delta_format as u16,
        words: d.delta_value.clone(),
    }
}

pub fn dev_owned(d: Option<&wl::DeviceOrVariationIndex>, it: &mut Interner) -> u32 {
    match d {
        None => 0,
        Some(wl::DeviceOrVariationIndex::Device(d)) => it.id(devkey_owned_device(d)),
        Some(wl::DeviceOrVariationIndex::VariationIndex(v)) => {
            it.id(DevKey::VarIdx(v.delta_set_outer_index, v.delta_set_inner_index))
        }
        Some(wl::DeviceOrVariationIndex::PendingVariationIndex(p)) => {
            it.id(DevKey::Pending(p.delta_set_id))
        }
    }
}

/// What an owned value record denotes once written: only the fields selected
/// by its (possibly explicit) format are emitted.
pub fn nvr_owned(vr: &wg::ValueRecord, it: &mut Interner) -> NVr {
    let bits = vr.format().bits();
    let present = (bits & 0xff) as u8;
    let val = |i: usize, v: Option<i16>| if present & (1 << i) != 0 { v.unwrap_or(0) } else { 0 };
    let mut dv = |i: usize, d: Option<&wl::DeviceOrVariationIndex>| {
        if present & (0x10 << i) != 0 {
            dev_owned(d, it)
        } else {
            0
        }
    };
    NVr {
        v: [
            val(0, vr.x_placement),
            val(1, vr.y_placement),
            val(2, vr.x_advance),
            val(3, vr.y_advance),
        ],
        d: [
            dv(0, vr.x_placement_device.as_ref()),
            dv(1, vr.y_placement_device.as_ref()),
            dv(2, vr.x_advance_device.as_ref()),
            dv(3, vr.y_advance_device.as_ref()),
        ],
        present,
    }
}

pub fn anchor_owned(a: &wg::AnchorTable, it: &mut Interner) -> NAnchor {
    match a {
        wg::AnchorTable::Format1(t) => NAnchor {
            x: t.x_coordinate,
            y: t.y_coordinate,
            fmt: 1,
            ..Default::default()
        },
        wg::AnchorTable::Format2(t) => NAnchor {
            x: t.x_coordinate,
            y: t.y_coordinate,
            point: Some(t.anchor_point),
            fmt: 2,
            ..Default::default()
        },
        wg::AnchorTable::Format3(t) => NAnchor {
            x: t.x_coordinate,
            y: t.y_coordinate,
            point: None,
            xdev: dev_owned(t.x_device.as_ref(), it),
            ydev: dev_owned(t.y_device.as_ref(), it),
            fmt: 3,
        },
    }
}

// ------------------------------------------------------------ read side

/// Reference decoding of a Device table's packed deltas (OpenType spec).
pub fn ref_decode_device(start: u16, end: u16, fmt: u16, words: &[u16]) -> Option<Vec<i8>> {
    let bits = match fmt {
        1 => 2usize,
        2 => 4,
        3 => 8,
        _ => return None,
    };
    if end < start {
        return None;
    }
    let n = (end - start) as usize + 1;
    let per = 16 / bits;
    let mut out = Vec::with_capacity(n);
    for k in 0..n {
        let w = *words.get(k / per)? as u32;
        let shift = 16 - bits * (k % per + 1);
        let raw = (w >> shift) & ((1u32 << bits) - 1);
        let v = if raw & (1 << (bits - 1)) != 0 {
            raw as i32 - (1i32 << bits)
        } else {
            raw as i32
        };
        out.push(v as i8);
    }
    Some(out)
}

pub fn dev_read(
    d: Option<Result<rl::DeviceOrVariationIndex<'_>, read_fonts::ReadError>>,
    it: &mut Interner,
) -> u32 {
    match d {
        None => 0,
        Some(Err(e)) => it.id(DevKey::Bad(format!("{e}"))),
        Some(Ok(rl::DeviceOrVariationIndex::Device(d))) => {
            let key = DevKey::Device {
                start: d.start_size(),
                end: d.end_size(),
                fmt: d.delta_format() as u16,
                words: d.delta_value().iter().map(|w| w.get()).collect(),
            };
            // first time this device is seen through read-fonts: also check the
            // library's delta decoding against the reference decoding
            let id = it.id(key);
            if it.read_checked.insert(id) {
                if let Some(DevKey::Device { start, end, fmt, words }) = it.get(id).cloned() {
                    if let Some(want) = ref_decode_device(start, end, fmt, &words) {
                        it.devices_decoded += 1;
                        match vf_core::guard(|| d.iter().collect::<Vec<i8>>()) {
                            Ok(got) => {
                                if got != want && it.decode_mismatch.len() < 8 {
                                    it.decode_mismatch
                                        .push((DevKey::Device { start, end, fmt, words }, got, want));
                                }
                            }
                            Err(p) => it.note_panic("Device::iter", p),
                        }
                    }
                }
            }
            id
        }
        Some(Ok(rl::DeviceOrVariationIndex::VariationIndex(v))) => {
            it.id(DevKey::VarIdx(v.delta_set_outer_index(), v.delta_set_inner_index()))
        }
    }
}

pub fn nvr_read(vr: &rg::ValueRecord, data: FontData<'_>, it: &mut Interner) -> NVr {
    NVr {
        v: [
            vr.x_placement().unwrap_or(0),
            vr.y_placement().unwrap_or(0),
            vr.x_advance().unwrap_or(0),
            vr.y_advance().unwrap_or(0),
        ],
        d: [
            dev_read(vr.x_placement_device(data), it),
            dev_read(vr.y_placement_device(data), it),
            dev_read(vr.x_advance_device(data), it),
            dev_read(vr.y_advance_device(data), it),
        ],
        present: (vr.format.bits() & 0xff) as u8,
    }
}

pub fn anchor_read(a: &rg::AnchorTable<'_>, it: &mut Interner) -> NAnchor {
    match a {
        rg::AnchorTable::Format1(t) => NAnchor {
            x: t.x_coordinate(),
            y: t.y_coordinate(),
            fmt: 1,
            ..Default::default()
        },
        rg::AnchorTable::Format2(t) => NAnchor {
            x: t.x_coordinate(),
            y: t.y_coordinate(),
            point: Some(t.anchor_point()),
            fmt: 2,
            ..Default::default()
        },
        rg::AnchorTable::Format3(t) => NAnchor {
            x: t.x_coordinate(),
            y: t.y_coordinate(),
            point: None,
            xdev: dev_read(t.x_device(), it),
            ydev: dev_read(t.y_device(), it),
            fmt: 3,
        },
    }
}

/// `CoverageTable::get`, surviving a library panic: the panic is recorded (it
/// is reported once per site) and the index is then computed by a reference
/// implementation so that the rest of the case can still be checked.
pub fn cov_get(cov: &rl::CoverageTable<'_>, g: u16, it: &mut Interner) -> Option<u16> {
    match vf_core::guard(|| cov.get(font_types::GlyphId16::new(g))) {
        Ok(r) => r,
        Err(p) => {
            it.note_panic("CoverageTable::get", p);
            ref_cov_get(cov, g)
        }
    }
}

pub fn ref_cov_get(cov: &rl::CoverageTable<'_>, g: u16) -> Option<u16> {
    match cov {
        rl::CoverageTable::Format1(t) => t.glyph_array().iter().position(|x| x.get().to_u16() == g).map(|i| i as u16),
        rl::CoverageTable::Format2(t) => t.range_records().iter().find_map(|r| {
            let (s, e) = (r.start_glyph_id().to_u16(), r.end_glyph_id().to_u16());
            (s..=e)
                .contains(&g)
                .then(|| (r.start_coverage_index() as u32 + (g - s) as u32) as u16)
        }),
    }
}
