fn main() {
    vf_core::main_with("C16", vf_c16::run, vf_c16::REPLAY);
}
