//! C16 — layout builders and overflow splitting preserve glyph-level lookup
//! semantics. See /verif/DESIGN.md §3 "C16".
//!
//! * coverage / class-def builders: glyph sets of every density -> builder ->
//!   bytes -> read-fonts, every glyph id in a sweep answers like the set;
//! * PairPos / MarkBasePos: rule sets -> write-fonts builders -> owned lookups
//!   -> Gpos -> dump_table (format choice, subtable splitting, extension
//!   promotion, repacking) -> read-fonts, with a two-stage oracle:
//!   rules vs owned tables, owned tables vs compiled bytes.

mod covclass;
mod gen;
mod gpos_case;
mod model;
mod order;
mod plan;
mod walk;

use gen::*;
use gpos_case::CaseSpec;
use serde_json::json;
use std::collections::BTreeMap;
use vf_core::{Args, Ctx, PanicPolicy, Rng, Tier};

pub const REPLAY: Option<fn(&mut Ctx, &Args, &serde_json::Value, Option<&[u8]>)> = None;

fn group(n_c1: usize, n_c2: usize, g1: usize, g2: usize, density: u64, rng: &mut Rng) -> GroupSpec {
    GroupSpec {
        n_c1,
        n_c2,
        g_per_c1: g1,
        g_per_c2: g2,
        density_pct: density,
        style1: rng.usize(3) as u8,
        style2: rng.usize(3) as u8,
    }
}

fn small_pair(rng: &mut Rng) -> PairSpec {
    let n_groups = *rng.pick(&[0usize, 0, 1, 1, 2, 3]);
    let groups = (0..n_groups)
        .map(|_| {
            let (a, b) = (1 + rng.usize(8), 1 + rng.usize(8));
            let (g1, g2) = (1 + rng.usize(5), 1 + rng.usize(5));
            let d = *rng.pick(&[30u64, 60, 100]);
            group(a, b, g1, g2, d, rng)
        })
        .collect::<Vec<_>>();
    let n_first = if n_groups > 0 && rng.chance(1, 4) { 0 } else { 1 + rng.usize(30) };
    PairSpec {
        n_first,
        per_first: 1 + rng.usize(12),
        first_shape: rng.usize(3) as u8,
        n_tp: 1 + rng.usize(4),
        dev_mode: *rng.pick(&[0u8, 0, 0, 1, 2, 3, 4, 5]),
        dev_pct: *rng.pick(&[30u64, 100]),
        pool: 4 + rng.usize(40),
        dup_pct: *rng.pick(&[0u64, 5, 20]),
        groups,
        mix_pct: *rng.pick(&[0u64, 0, 30]),
        overlap_prev: false,
    }
}

fn small_mark(rng: &mut Rng) -> MarkSpec {
    MarkSpec {
        n_classes: 1 + { let m__ = *rng.pick(&[2usize, 6, 20]); rng.usize(m__) },
        marks_per_class: 1 + rng.usize(4),
        n_bases: 1 + rng.usize(25),
        anchor_pct: *rng.pick(&[40u64, 80, 100]),
        dev_mode: rng.usize(6) as u8,
        special_pct: *rng.pick(&[0u64, 30, 100]),
        mark_shape: rng.usize(3) as u8,
    }
}

fn order_spec(rng: &mut Rng, size: u8) -> OrderSpec {
    // size 0: a handful of glyphs and rules (collisions are the rule, and the
    // full glyph cross product is queried); 1: medium; 2: large class sets
    let (n1, n2, n_rules, m1, m2) = match size {
        0 => (3 + rng.usize(6), 2 + rng.usize(5), 2 + rng.usize(9), 1 + rng.usize(3), 1 + rng.usize(3)),
        1 => (10 + rng.usize(40), 8 + rng.usize(30), 10 + rng.usize(50), 2 + rng.usize(6), 2 + rng.usize(6)),
        _ => (200 + rng.usize(600), 100 + rng.usize(300), 20 + rng.usize(40), 20 + rng.usize(60), 10 + rng.usize(40)),
    };
    OrderSpec {
        n1,
        n2,
        n_rules,
        max_set1: m1,
        max_set2: m2,
        template: if rng.chance(1, 3) { 1 + rng.usize(4) as u8 } else { 0 },
        n_glyph_pairs: *rng.pick(&[0usize, 0, 1, 3, 8]),
        n_tp: 1 + rng.usize(3),
        dev_mode: *rng.pick(&[0u8, 0, 0, 0, 2, 4, 5]),
        dev_pct: *rng.pick(&[30u64, 100]),
        stride: *rng.pick(&[1usize, 1, 2, 7]),
        exact_dups: rng.chance(1, 4),
        share_universe: rng.chance(1, 2),
    }
}

/// The workload: the same list for every shard; shard i takes items i mod n.
/// Heavy items come first so that they spread evenly over the shards.
fn scenarios(tier: Tier, seed: u64) -> Vec<CaseSpec> {
    let mut v: Vec<CaseSpec> = vec![];
    let thorough = tier.is_thorough();
    let budget = tier.pick(3_000_000usize, 12_000_000);
    let mut rng = Rng::derive(seed, "c16-scenarios", 0);
    let mut push = |v: &mut Vec<CaseSpec>, kind: &str, lookups: Vec<LookupSpec>, rng: &mut Rng| {
        let index = v.len();
        v.push(CaseSpec {
            kind: kind.to_string(),
            index,
            lookups,
            flip: rng.chance(1, 3),
            budget,
        });
    };
    // scale of the heavy cases: multiples of the 64 KiB limit
    let ks: Vec<usize> = if thorough {
        (0..96).map(|r| 1 + r % 8).collect()
    } else {
        vec![1, 1, 2, 2, 3, 4]
    };
    for &k in &ks {
        // ---- PairPos format 1 needs splitting
        for (shape, n_tp, dev_mode, dev_pct) in [(1u8, 1usize, 0u8, 0u64), (0, 1, 0, 0), (2, 3, 0, 0), (1, 2, 2, 25), (0, 1, 4, 15), (2, 1, 1, 50)] {
            let n_first = (150 + rng.usize(250)) * k;
            let per_first = 40 + rng.usize(80);
            let mut s = PairSpec::glyph_only(n_first, per_first);
            s.first_shape = shape;
            s.n_tp = n_tp;
            s.dev_mode = dev_mode;
            s.dev_pct = dev_pct;
            s.dup_pct = 1;
            push(&mut v, "pairpos1-big", vec![LookupSpec::Pair(vec![s])], &mut rng);
        }
        // ---- PairPos format 2 needs splitting
        for (dev_mode, dev_pct, n_groups) in [(0u8, 0u64, 1usize), (0, 0, 2), (1, 40, 1), (4, 20, 1), (5, 30, 2), (0, 0, 1)] {
            let groups = (0..n_groups)
                .map(|_| {
                    let n1 = (60 + rng.usize(100)) * k.min(3);
                    let n2 = 60 + rng.usize(100) * k.min(2);
                    let (g1, g2) = (1 + rng.usize(4), 1 + rng.usize(4));
                    let d = *rng.pick(&[35u64, 70, 100]);
                    group(n1, n2, g1, g2, d, &mut rng)
                })
                .collect();
            let s = PairSpec {
                n_first: *rng.pick(&[0usize, 20, 200]),
                per_first: 10,
                first_shape: rng.usize(3) as u8,
                n_tp: *rng.pick(&[1usize, 2, 3]),
                dev_mode,
                dev_pct,
                pool: 60,
                dup_pct: 2,
                groups,
                mix_pct: 40,
                overlap_prev: false,
            };
            push(&mut v, "pairpos2-big", vec![LookupSpec::Pair(vec![s])], &mut rng);
        }
        // ---- MarkBasePos needs splitting
        for (n_classes, dev_mode, special) in [(40usize, 0u8, 0u64), (120, 0, 10), (200, 5, 20), (16, 2, 60), (80, 3, 30), (200, 0, 0)] {
            let n_bases = (20000 * k / n_classes).clamp(40, 700) + rng.usize(40);
            let s = MarkSpec {
                n_classes,
                marks_per_class: 1 + rng.usize(6),
                n_bases,
                anchor_pct: *rng.pick(&[60u64, 90, 100]),
                dev_mode,
                special_pct: special,
                mark_shape: rng.usize(3) as u8,
            };
            push(&mut v, "markbase-big", vec![LookupSpec::Mark(vec![s])], &mut rng);
        }
        // ---- shadowing: class subtables with overlapping coverage, the first
        // of which must be split; subtable order decides the result
        for variant in 0..3 {
            let (a, b) = (90 + rng.usize(60) * k.min(3), 70 + rng.usize(80));
            let g0 = group(a, b, 2 + rng.usize(2), 2, 80, &mut rng);
            let (a, b) = (20 + rng.usize(60), 20 + rng.usize(60));
            let g1 = group(a, b, 3 + rng.usize(6), 3, 70, &mut rng);
            let mk = |groups: Vec<GroupSpec>, overlap: bool, n_first: usize| PairSpec {
                n_first,
                per_first: 20,
                first_shape: 1,
                n_tp: 2,
                dev_mode: if variant == 2 { 5 } else { 0 },
                dev_pct: 20,
                pool: 80,
                dup_pct: 0,
                groups,
                mix_pct: 60,
                overlap_prev: overlap,
            };
            let b0 = mk(vec![g0], false, 40);
            let b1 = mk(vec![g1], true, 200 * k.min(3));
            push(&mut v, "shadowed", vec![LookupSpec::Pair(vec![b0, b1])], &mut rng);
        }
        // ---- several lookups, none too big alone: promotion to extension
        for variant in 0..4 {
            let mut lookups = vec![];
            let n = 3 + rng.usize(4);
            for j in 0..n {
                if (j + variant) % 3 == 2 {
                    let mut m = small_mark(&mut rng);
                    m.n_classes = 10 + rng.usize(20);
                    m.n_bases = 100 + rng.usize(100);
                    lookups.push(LookupSpec::Mark(vec![m]));
                } else {
                    let mut s = PairSpec::glyph_only(80 + rng.usize(80), 30 + rng.usize(30));
                    s.first_shape = rng.usize(3) as u8;
                    s.dev_mode = if variant == 3 { 5 } else { 0 };
                    s.dev_pct = 20;
                    s.n_tp = 1 + rng.usize(2);
                    if variant >= 2 {
                        let (a, b) = (20 + rng.usize(30), 20 + rng.usize(30));
                        s.groups.push(group(a, b, 2, 2, 80, &mut rng));
                        s.mix_pct = 20;
                    }
                    lookups.push(LookupSpec::Pair(vec![s]));
                }
            }
            push(&mut v, "multi-lookup", lookups, &mut rng);
        }
        // ---- everything at once: split subtables in several lookups + promotion
        for variant in 0..4 {
            let mut lookups = vec![];
            let mut s = PairSpec::glyph_only((200 + rng.usize(150)) * k, 50 + rng.usize(50));
            s.first_shape = variant as u8 % 3;
            s.n_tp = 2;
            let (a, b) = (70 + rng.usize(60), 70 + rng.usize(60));
            let b2 = PairSpec {
                n_first: 30,
                per_first: 8,
                first_shape: 1,
                n_tp: 2,
                dev_mode: if variant % 2 == 1 { 5 } else { 0 },
                dev_pct: 25,
                pool: 40,
                dup_pct: 0,
                groups: vec![group(a, b, 3, 2, 75, &mut rng)],
                mix_pct: 30,
                overlap_prev: false,
            };
            lookups.push(LookupSpec::Pair(vec![s, b2]));
            let m = MarkSpec {
                n_classes: 60 + rng.usize(100),
                marks_per_class: 3,
                n_bases: 250 + rng.usize(100),
                anchor_pct: 85,
                dev_mode: if variant >= 2 { 5 } else { 0 },
                special_pct: 15,
                mark_shape: 1,
            };
            let m2 = small_mark(&mut rng);
            lookups.push(LookupSpec::Mark(vec![m, m2]));
            lookups.push(LookupSpec::Pair(vec![small_pair(&mut rng)]));
            push(&mut v, "kitchen-sink", lookups, &mut rng);
        }
    }
    if thorough {
        // ---- the far end of the quantifier: several hundred thousand glyph-pair rules
        for (n_first, per_first) in [(1500usize, 70usize), (2500, 60), (4000, 50), (3000, 130)] {
            let mut s = PairSpec::glyph_only(n_first, per_first);
            s.first_shape = rng.usize(3) as u8;
            s.n_tp = 1 + rng.usize(2);
            s.pool = per_first * 3;
            push(&mut v, "pairpos1-huge", vec![LookupSpec::Pair(vec![s])], &mut rng);
        }
    }
    // ---- medium cases that fit without any graph surgery
    for _ in 0..tier.pick(320, 10000) {
        let mut lookups = vec![];
        for _ in 0..1 + rng.usize(2) {
            if rng.chance(1, 3) {
                let mut m = small_mark(&mut rng);
                m.n_bases = 20 + rng.usize(60);
                lookups.push(LookupSpec::Mark(vec![m]));
            } else {
                let mut s = small_pair(&mut rng);
                s.n_first = 20 + rng.usize(60);
                s.per_first = 5 + rng.usize(25);
                s.pool = 60;
                lookups.push(LookupSpec::Pair(vec![s]));
            }
        }
        push(&mut v, "medium", lookups, &mut rng);
    }
    // ---- many small cases: builder grouping policy, precedence, duplicates
    for _ in 0..tier.pick(6000, 200000) {
        let mut lookups = vec![];
        for _ in 0..1 + rng.usize(3) {
            if rng.chance(1, 3) {
                let n = 1 + rng.usize(2);
                lookups.push(LookupSpec::Mark((0..n).map(|_| small_mark(&mut rng)).collect()));
            } else {
                let n = 1 + rng.usize(2);
                lookups.push(LookupSpec::Pair((0..n).map(|_| small_pair(&mut rng)).collect()));
            }
        }
        push(&mut v, "small", lookups, &mut rng);
    }
    // ---- class rules over OVERLAPPING glyph sets: insertion order is precedence
    for _ in 0..tier.pick(48, 240) {
        let n = 1 + rng.usize(2);
        let lookups = vec![LookupSpec::PairOrder((0..n).map(|_| order_spec(&mut rng, 2)).collect())];
        push(&mut v, "class-order-large", lookups, &mut rng);
    }
    for _ in 0..tier.pick(2000, 30000) {
        let n = 1 + rng.usize(2);
        let lookups = vec![LookupSpec::PairOrder((0..n).map(|_| order_spec(&mut rng, 1)).collect())];
        push(&mut v, "class-order-medium", lookups, &mut rng);
    }
    for _ in 0..tier.pick(40000, 600000) {
        let mut lookups = vec![];
        for _ in 0..1 + rng.usize(2) {
            let n = if rng.chance(1, 4) { 2 } else { 1 };
            lookups.push(LookupSpec::PairOrder((0..n).map(|_| order_spec(&mut rng, 0)).collect()));
        }
        push(&mut v, "class-order", lookups, &mut rng);
    }
    // ---- the smallest: ten rules
    for _ in 0..tier.pick(16, 64) {
        let s = PairSpec::glyph_only(2 + rng.usize(3), 2 + rng.usize(3));
        push(&mut v, "tiny", vec![LookupSpec::Pair(vec![s])], &mut rng);
    }
    v
}

pub fn run(ctx: &mut Ctx, _args: &Args) {
    ctx.policy = PanicPolicy::Any;
    ctx.level = "exploration".into();
    ctx.rule = "a GPOS rule set is non-trivial if it compiled and either its compiled form needed subtable \
                splitting or extension promotion, or it has >= 100 rules (digest: case label, seed, rule count, \
                compiled size); a coverage/class-def glyph set is non-trivial if it has >= 3 glyphs and was \
                compiled and swept (digest: builder path + the glyph set)"
        .into();
    ctx.assumptions = vec![
        "first-match semantics as implemented by the reference walker: PairPos format 1 applies only if the pair set has the second glyph, format 2 applies as soon as coverage matches; MarkBasePos falls through on a null base anchor".into(),
        "stage 1 (rules vs builder output, exact) runs on rule sets whose class-1 classes are disjoint across class subtables (verified per case); stage 2 (owned vs compiled) has no such restriction".into(),
        "rule sets with overlapping class sets (class-order cases, shadowed-by-design cases, any lookup whose class coverages overlap) get the rule-ORDER oracle instead of stage 1, on the owned tables and on the compiled bytes: the value of the first inserted rule containing the pair, or no adjustment if an earlier-inserted rule of the same builder has the first glyph in its class-1 set; never a later rule's value; nothing for a pair in no rule. A later class rule with exactly the same two glyph sets as an earlier one may replace it (BTreeMap::insert in ClassPairPosSubtable::add, as in feaLib): either value is accepted and counted".into(),
        "value records / anchors are compared by what they denote (absent field = 0 / no device); differences in explicit-zero vs absent fields are only counted".into(),
        "variation-index records: the VariationStoreBuilder's remapping is taken as given (only injectivity is checked)".into(),
    ];
    let t0 = std::time::Instant::now();
    if std::env::var("VF_C16_ONLY").is_err() {
        covclass::run(ctx);
    }
    let cov_s = t0.elapsed().as_secs_f64();
    let scen = scenarios(ctx.tier, ctx.seed);
    let only: Option<String> = std::env::var("VF_C16_ONLY").ok();
    if ctx.mine(0) {
        device_new_probe(ctx);
    }
    for s in &scen {
        if !ctx.mine(s.index) {
            continue;
        }
        if let Some(o) = &only {
            if !s.kind.contains(o.as_str()) {
                continue;
            }
        }
        gpos_case::run_case(ctx, s);
    }
    if std::env::var("VF_C16_VERBOSE").is_ok() {
        eprintln!("covclass {:.1}s, total {:.1}s", cov_s, t0.elapsed().as_secs_f64());
    }
}


/// `Device::new(start, end, values)` is the only place where per-size pixel deltas are packed:
/// every other device oracle of this check starts from the already packed words. Here the deltas
/// handed to the constructor are compared with what the packed words denote under the OpenType
/// packing (reference decoder) and with what read-fonts' `Device::iter` gives after compiling,
/// for every sequence of length 1..=3 over a boundary alphabet (the limits of the 2-, 4- and
/// 8-bit formats on both sides) and for longer sequences that straddle word boundaries.
fn device_new_probe(ctx: &mut Ctx) {
    use read_fonts::FontRead;
    use write_fonts::tables::layout as wl;
    const ALPHA: [i8; 16] = [-128, -127, -9, -8, -7, -3, -2, -1, 0, 1, 2, 3, 7, 8, 9, 127];
    let mut seqs: Vec<Vec<i8>> = vec![];
    for a in ALPHA {
        seqs.push(vec![a]);
        for b in ALPHA {
            seqs.push(vec![a, b]);
            for c in ALPHA {
                seqs.push(vec![a, b, c]);
            }
        }
    }
    // longer runs: one extreme value at every position of a 1..=17 long run of small values
    for n in 4..=17usize {
        for pos in 0..n {
            for x in [-8i8, -2, 1, 2, 7, 8, -128, 127] {
                for fill in [0i8, 1, -1, -2] {
                    let mut v = vec![fill; n];
                    v[pos] = x;
                    seqs.push(v);
                }
            }
        }
    }
    let mut formats: BTreeMap<u16, u64> = BTreeMap::new();
    for (k, values) in seqs.iter().enumerate() {
        let start = 6 + (k % 5) as u16;
        let end = start + values.len() as u16 - 1;
        let what = format!("device-new:{}..={}:{:?}", start, end, values);
        let r = vf_core::guard(|| {
            let d = wl::Device::new(start, end, values);
            let fmt = d.delta_format as u16;
            let by_ref = model::ref_decode_device(d.start_size, d.end_size, fmt, &d.delta_value);
            let bytes = write_fonts::dump_table(&d).map_err(|e| format!("{e}"));
            let by_lib = match &bytes {
                Ok(b) => match read_fonts::tables::layout::Device::read(read_fonts::FontData::new(b)) {
                    Ok(t) => Ok(t.iter().collect::<Vec<i8>>()),
                    Err(e) => Err(format!("{e}")),
                },
                Err(e) => Err(e.clone()),
            };
            (fmt, d.start_size, d.end_size, by_ref, by_lib)
        });
        ctx.eval();
        match r {
            Ok((fmt, s0, e0, by_ref, by_lib)) => {
                *formats.entry(fmt).or_default() += 1;
                if (s0, e0) != (start, end) || by_ref.as_deref() != Some(&values[..]) {
                    ctx.violation(
                        &format!("device-new:packed-words-denote-other-deltas:format{}", fmt),
                        json!({"what": "the delta words Device::new packed do not decode (OpenType packing) to the deltas passed in", "start": start, "end": end, "values": values, "got_sizes": [s0, e0], "decoded": by_ref}),
                        None,
                    );
                }
                match by_lib {
                    Ok(v) if v == *values => {}
                    other => {
                        ctx.violation(
                            &format!("device-new:compiled-device-reads-back-differently:format{}", fmt),
                            json!({"what": "Device::new -> dump_table -> read-fonts Device::iter does not give the deltas passed in", "start": start, "end": end, "values": values, "read_back": format!("{:?}", other)}),
                            None,
                        );
                    }
                }
            }
            Err(p) => ctx.judge_panic(&p, "Device::new / dump_table / Device::iter", json!({"case": what}), None),
        }
    }
    ctx.count("device_new_sequences", seqs.len() as u64);
    for (f, n) in formats {
        ctx.count(&format!("device_new_format{}", f), n);
    }
}
