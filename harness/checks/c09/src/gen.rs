//! Glyph generators for C09 (domain: successive deltas representable in i16,
//! every contour has at least one point).
use crate::model::*;
use vf_core::Rng;

pub const DELTA_EDGES: [i32; 16] = [0, 1, -1, 2, 254, 255, -255, 256, -256, 257, -257, 32767, -32767, -32768, 32766, 100];
pub const RUN_LENGTHS: [usize; 16] = [1, 2, 3, 4, 254, 255, 256, 257, 258, 300, 510, 511, 512, 513, 514, 600];

pub fn rand_instr(rng: &mut Rng) -> Vec<u8> {
    match rng.below(10) {
        0..=4 => vec![],
        5 => rng.bytes(1),
        6 => {
            let n = rng.range(1, 8) as usize;
            rng.bytes(n)
        }
        7 => {
            let n = rng.range(1, 300) as usize;
            rng.bytes(n)
        }
        8 => {
            let n = *rng.pick(&[255usize, 256, 257, 1000]);
            rng.bytes(n)
        }
        _ => {
            let n = rng.range(1, 40) as usize;
            rng.bytes(n)
        }
    }
}

fn rand_bbox(rng: &mut Rng, contours: &[Vec<Pt>]) -> [i16; 4] {
    if rng.bool() {
        true_bbox(contours).unwrap_or([0; 4])
    } else {
        let e = [i16::MIN, -1, 0, 1, i16::MAX, 1234, -4321];
        [*rng.pick(&e), *rng.pick(&e), *rng.pick(&e), *rng.pick(&e)]
    }
}

/// min/max over all points (on- and off-curve)
pub fn true_bbox(contours: &[Vec<Pt>]) -> Option<[i16; 4]> {
    let mut it = contours.iter().flatten();
    let f = it.next()?;
    let mut b = [f.x, f.y, f.x, f.y];
    for p in it {
        b[0] = b[0].min(p.x);
        b[1] = b[1].min(p.y);
        b[2] = b[2].max(p.x);
        b[3] = b[3].max(p.y);
    }
    Some(b)
}

/// next coordinate with a representable delta
fn step_full(rng: &mut Rng, cur: i32) -> i32 {
    let lo = (cur - 32768).max(-32768);
    let hi = (cur + 32767).min(32767);
    match rng.below(4) {
        0 => lo,
        1 => hi,
        _ => rng.range(lo as i64, hi as i64) as i32,
    }
}

fn step_edge(rng: &mut Rng, cur: i32) -> i32 {
    for _ in 0..8 {
        let d = *rng.pick(&DELTA_EDGES);
        let n = cur + d;
        if (-32768..=32767).contains(&n) {
            return n;
        }
        let n = cur - d;
        if (-32768..=32767).contains(&n) && (-32768..=32767).contains(&(-d)) {
            return n;
        }
    }
    cur
}

/// split a flat point list into contours of at least one point each
fn split_contours(rng: &mut Rng, pts: Vec<Pt>, max_contours: usize) -> Vec<Vec<Pt>> {
    if pts.is_empty() {
        return vec![];
    }
    let n = pts.len();
    let k = rng.range(1, max_contours.min(n) as i64) as usize;
    // choose k-1 distinct cut positions
    let mut cuts: Vec<usize> = (1..n).collect();
    rng.shuffle(&mut cuts);
    cuts.truncate(k - 1);
    cuts.sort_unstable();
    let mut out = vec![];
    let mut s = 0;
    for c in cuts {
        out.push(pts[s..c].to_vec());
        s = c;
    }
    out.push(pts[s..].to_vec());
    out
}

pub fn gen_points(rng: &mut Rng, style: u64) -> Vec<Pt> {
    let mut pts = vec![];
    let (mut x, mut y) = (0i32, 0i32);
    match style {
        0 => {
            // full i16 range, representable deltas
            let n = if rng.chance(1, 8) { rng.range(1, 400) } else { rng.range(1, 40) };
            for _ in 0..n {
                x = step_full(rng, x);
                y = step_full(rng, y);
                pts.push(Pt { x: x as i16, y: y as i16, on: rng.chance(2, 3) });
            }
        }
        1 => {
            // boundary deltas
            let n = rng.range(1, 60);
            for _ in 0..n {
                x = step_edge(rng, x);
                y = step_edge(rng, y);
                pts.push(Pt { x: x as i16, y: y as i16, on: rng.bool() });
            }
        }
        2 => {
            // flag runs of chosen lengths
            let runs = rng.range(1, 5);
            for _ in 0..runs {
                let l = if rng.chance(3, 4) { *rng.pick(&RUN_LENGTHS) } else { rng.range(1, 600) as usize };
                let on = rng.bool();
                let mut dx = *rng.pick(&[0i32, 0, 1, -1, 5, -7, 255, -255, 256, -256, 300]);
                let mut dy = *rng.pick(&[0i32, 0, 1, -1, 3, -2, 255, -255, 256, -256, -300]);
                for _ in 0..l {
                    // a run needs identical (class of) deltas: keep the exact delta, reflect only when leaving range
                    if !(-32768..=32767).contains(&(x + dx)) {
                        dx = -dx;
                    }
                    if !(-32768..=32767).contains(&(y + dy)) {
                        dy = -dy;
                    }
                    x += dx;
                    y += dy;
                    pts.push(Pt { x: x as i16, y: y as i16, on });
                }
            }
        }
        3 => {
            // all off-curve
            let n = rng.range(1, 30);
            for _ in 0..n {
                x = if rng.bool() { step_edge(rng, x) } else { step_full(rng, x) };
                y = if rng.bool() { step_edge(rng, y) } else { step_full(rng, y) };
                pts.push(Pt { x: x as i16, y: y as i16, on: false });
            }
        }
        _ => {
            // small-coordinate glyph-like data
            let n = rng.range(1, 80);
            for _ in 0..n {
                x = (x + rng.range(-300, 300) as i32).clamp(-32768, 32767);
                y = (y + rng.range(-300, 300) as i32).clamp(-32768, 32767);
                if rng.chance(1, 4) {
                    // repeat the previous point / axis
                    if rng.bool() {
                        x = pts.last().map(|p: &Pt| p.x as i32).unwrap_or(x);
                    } else {
                        y = pts.last().map(|p: &Pt| p.y as i32).unwrap_or(y);
                    }
                }
                pts.push(Pt { x: x as i16, y: y as i16, on: rng.chance(3, 4) });
            }
        }
    }
    pts
}

pub fn gen_simple(rng: &mut Rng) -> MGlyph {
    let style = rng.below(6);
    let contours = if style == 5 {
        // many contours (0..300), 1..3 points each
        let k = match rng.below(4) {
            0 => rng.range(0, 3),
            1 => rng.range(250, 300),
            _ => rng.range(0, 300),
        } as usize;
        let (mut x, mut y) = (0i32, 0i32);
        (0..k)
            .map(|_| {
                (0..rng.range(1, 3))
                    .map(|_| {
                        x = step_edge(rng, x);
                        y = (y + rng.range(-40, 40) as i32).clamp(-32768, 32767);
                        Pt { x: x as i16, y: y as i16, on: rng.bool() }
                    })
                    .collect()
            })
            .collect()
    } else {
        let pts = gen_points(rng, style);
        let maxc = if rng.bool() { 1 } else { 12 };
        split_contours(rng, pts, maxc)
    };
    let bbox = rand_bbox(rng, &contours);
    MGlyph::Simple { bbox, contours, instr: rand_instr(rng) }
}

const F2D14_EDGES: [i16; 12] = [0x4000, 0, 1, -1, 0x2000, -0x4000, i16::MIN, i16::MAX, 0x3FFF, 0x4001, 0x1234, -0x1234];
const OFFSET_EDGES: [i16; 14] = [0, 1, -1, 126, 127, 128, -127, -128, -129, 255, 256, i16::MAX, i16::MIN, 1000];
const POINT_EDGES: [u16; 8] = [0, 1, 254, 255, 256, 257, 0xFFFE, 0xFFFF];

pub fn gen_component(rng: &mut Rng) -> MComp {
    let anchor = if rng.bool() {
        MAnchor::Offset(
            if rng.chance(3, 4) { *rng.pick(&OFFSET_EDGES) } else { rng.range(-32768, 32767) as i16 },
            if rng.chance(3, 4) { *rng.pick(&OFFSET_EDGES) } else { rng.range(-32768, 32767) as i16 },
        )
    } else {
        MAnchor::Point(
            if rng.chance(3, 4) { *rng.pick(&POINT_EDGES) } else { rng.range(0, 65535) as u16 },
            if rng.chance(3, 4) { *rng.pick(&POINT_EDGES) } else { rng.range(0, 65535) as u16 },
        )
    };
    let mut fx = |rng: &mut Rng| if rng.chance(3, 4) { *rng.pick(&F2D14_EDGES) } else { rng.range(-32768, 32767) as i16 };
    let xform = match rng.below(5) {
        0 => IDENT,
        1 => {
            let s = fx(rng);
            [s, 0, 0, s]
        }
        2 => [fx(rng), 0, 0, fx(rng)],
        3 => [fx(rng), fx(rng), fx(rng), fx(rng)],
        _ => {
            // 2x2 needed only because of one skew term; scales may be identity
            if rng.bool() {
                [0x4000, fx(rng), 0, 0x4000]
            } else {
                [0x4000, 0, fx(rng), 0x4000]
            }
        }
    };
    let bits = rng.below(32);
    MComp {
        gid: *rng.pick(&[0u16, 1, 2, 255, 256, 0x7FFF, 0x8000, 0xFFFE, 0xFFFF, 37]),
        anchor,
        flags: MFlags {
            round_xy_to_grid: bits & 1 != 0,
            use_my_metrics: bits & 2 != 0,
            scaled_component_offset: bits & 4 != 0,
            unscaled_component_offset: bits & 8 != 0,
            overlap_compound: bits & 16 != 0,
        },
        xform,
    }
}

pub fn gen_composite(rng: &mut Rng) -> MGlyph {
    let n = match rng.below(4) {
        0 => 1,
        1 => 2,
        2 => rng.range(1, 8),
        _ => rng.range(1, 40),
    };
    let comps = (0..n).map(|_| gen_component(rng)).collect();
    let e = [i16::MIN, -1, 0, 1, i16::MAX, 77, -300];
    let bbox = [*rng.pick(&e), *rng.pick(&e), *rng.pick(&e), *rng.pick(&e)];
    let instr = if rng.chance(1, 3) {
        let mut v = rand_instr(rng);
        if v.is_empty() {
            v.push(0xB0);
        }
        v
    } else {
        vec![]
    };
    MGlyph::Composite { bbox, comps, instr }
}

/// Every (anchor kind × width) × transform class × user flag, systematically.
pub fn composite_matrix() -> Vec<MGlyph> {
    let anchors = [
        MAnchor::Offset(0, 0),
        MAnchor::Offset(127, -128),
        MAnchor::Offset(128, 0),
        MAnchor::Offset(0, -129),
        MAnchor::Offset(i16::MAX, i16::MIN),
        MAnchor::Point(0, 0),
        MAnchor::Point(255, 255),
        MAnchor::Point(256, 0),
        MAnchor::Point(0, 256),
        MAnchor::Point(0xFFFF, 0xFFFF),
    ];
    let xforms = [
        IDENT,
        [0x2000, 0, 0, 0x2000],
        [0x2000, 0, 0, 0x4000],
        [0x4000, 0, 0, -0x4000],
        [0x4000, 1, 0, 0x4000],
        [0x4000, 0, -1, 0x4000],
        [i16::MIN, i16::MAX, 1, -1],
        [0, 0, 0, 0],
    ];
    let mut out = vec![];
    for a in anchors {
        for x in xforms {
            for fb in 0..32u32 {
                let c = MComp {
                    gid: (fb * 7 + 1) as u16,
                    anchor: a,
                    flags: MFlags {
                        round_xy_to_grid: fb & 1 != 0,
                        use_my_metrics: fb & 2 != 0,
                        scaled_component_offset: fb & 4 != 0,
                        unscaled_component_offset: fb & 8 != 0,
                        overlap_compound: fb & 16 != 0,
                    },
                    xform: x,
                };
                // alone, and as first of two (MORE_COMPONENTS), with and without instructions
                out.push(MGlyph::Composite { bbox: [-1, -2, 3, 4], comps: vec![c.clone()], instr: vec![] });
                if fb % 8 == 0 {
                    let mut c2 = c.clone();
                    c2.gid = 9;
                    out.push(MGlyph::Composite { bbox: [0, 0, 10, 10], comps: vec![c.clone(), c2], instr: vec![1, 2, 3] });
                }
            }
        }
    }
    out
}

pub fn gen_glyph(rng: &mut Rng) -> MGlyph {
    match rng.below(10) {
        0 => MGlyph::Empty,
        1..=3 => gen_composite(rng),
        _ => gen_simple(rng),
    }
}

/// padded canonical size of a model glyph
pub fn predicted_size(g: &MGlyph) -> usize {
    let l = match g {
        MGlyph::Empty => 0,
        MGlyph::Simple { contours, instr, .. } => {
            if contours.is_empty() {
                0
            } else {
                canonical_simple(contours, instr).len
            }
        }
        MGlyph::Composite { comps, instr, .. } => canonical_composite(comps, instr),
    };
    l + (l & 1)
}

/// A glyph set whose glyf table is predicted to be exactly `target` bytes
/// (target even): big filler glyphs, a random tail, then one exact-size glyph.
pub fn sized_set(rng: &mut Rng, target: usize) -> Vec<MGlyph> {
    let mut set = vec![];
    let mut total = 0usize;
    while target - total > 20_000 {
        // big glyph: many points with long deltas
        let n = rng.range(800, 2400) as usize;
        let mut pts = Vec::with_capacity(n);
        let (mut x, mut y) = (0i32, 0i32);
        for k in 0..n {
            x = if x > 0 { x - 300 - (k as i32 % 900) } else { x + 300 + (k as i32 % 1100) };
            y = if y > 0 { y - 256 - (k as i32 % 7) } else { y + 256 + (k as i32 % 5) };
            pts.push(Pt { x: x as i16, y: y as i16, on: k % 3 != 0 });
        }
        let g = MGlyph::Simple { bbox: [0, 0, 0, 0], contours: vec![pts], instr: rand_instr(rng) };
        total += predicted_size(&g);
        set.push(g);
    }
    for _ in 0..rng.range(0, 12) {
        let g = gen_glyph(rng);
        let s = predicted_size(&g);
        if total + s + 64 < target && s < 6000 {
            total += s;
            set.push(g);
        }
    }
    // exact filler: one on-curve point at the origin = 15 bytes + instructions
    let r = target - total;
    if r >= 16 {
        let il = if rng.bool() { r - 15 } else { r - 16 };
        let g = MGlyph::Simple { bbox: [0; 4], contours: vec![vec![Pt { x: 0, y: 0, on: true }]], instr: vec![0x4F; il] };
        total += predicted_size(&g);
        set.push(g);
    }
    debug_assert_eq!(total, target);
    if rng.bool() {
        set.push(MGlyph::Empty);
    }
    set
}
