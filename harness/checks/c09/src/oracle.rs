//! Build a glyph set with GlyfLocaBuilder and check it against the model with
//! (i) read-fonts, (ii) the independent decoder, (iii) the canonical length.
use crate::model::*;
use font_types::GlyphId;
use read_fonts::{
    tables::glyf::{self as rglyf, PointFlags},
    tables::loca as rloca,
    types::Point,
    FontData, FontRead,
};
use serde_json::{json, Value};
use std::cell::{Cell, RefCell};
use vf_core::{Ctx, Digest, PanicInfo};
use write_fonts::{
    from_obj::FromTableRef,
    tables::glyf as w,
    tables::loca::LocaFormat,
};

pub fn lib_sig(p: &PanicInfo) -> Option<String> {
    let repo = vf_core::repo_dir();
    let repo = repo.trim_end_matches('/');
    let f: &str = p.file.strip_prefix(&format!("{}/", repo)).unwrap_or(&p.file);
    if !p.in_repo()
        || f.starts_with("checks/")
        || f.starts_with("core/")
        || f.contains("/harness/")
        || f.contains("/.vf/")
        || f.starts_with("/rustc/")
        || f.starts_with("library/")
    {
        return None;
    }
    Some(format!("panic:{}:{}:{}", f, p.line, p.class.as_str()))
}

pub fn glyph_digest(g: &MGlyph) -> u64 {
    let mut d = Digest::new();
    match g {
        MGlyph::Empty => d.u32(0),
        MGlyph::Simple { bbox, contours, instr } => {
            d.u32(1);
            for b in bbox {
                d.u32(*b as u16 as u32);
            }
            for c in contours {
                d.u32(c.len() as u32);
                for p in c {
                    d.u32(((p.x as u16 as u32) << 16) | p.y as u16 as u32);
                    d.bytes(&[p.on as u8]);
                }
            }
            d.u32(instr.len() as u32);
            d.bytes(instr);
        }
        MGlyph::Composite { bbox, comps, instr } => {
            d.u32(2);
            for b in bbox {
                d.u32(*b as u16 as u32);
            }
            d.dbg(comps);
            d.u32(instr.len() as u32);
            d.bytes(instr);
        }
    }
    d.finish()
}

pub fn glyph_json(g: &MGlyph) -> Value {
    match g {
        MGlyph::Empty => json!({"kind": "empty"}),
        MGlyph::Simple { bbox, contours, instr } => json!({
            "kind": "simple", "bbox": bbox, "n_contours": contours.len(), "n_points": g.n_points(), "instr_len": instr.len(),
            "first_points": contours.iter().flatten().take(24).map(|p| json!([p.x, p.y, p.on as u8])).collect::<Vec<_>>(),
            "contour_lens": contours.iter().take(24).map(|c| c.len()).collect::<Vec<_>>(),
        }),
        MGlyph::Composite { bbox, comps, instr } => json!({
            "kind": "composite", "bbox": bbox, "instr_len": instr.len(),
            "components": comps.iter().take(8).map(|c| format!("{:?}", c)).collect::<Vec<_>>(), "n_components": comps.len(),
        }),
    }
}

/// How a model glyph is handed to the builder.
#[derive(Clone, Copy, Debug, PartialEq, Eq)]
pub enum AddVia {
    /// through the `Glyph` enum (`Glyph::from(SimpleGlyph)` maps zero contours to Empty)
    Enum,
    /// `SimpleGlyph` / `CompositeGlyph` passed directly
    Direct,
}

/// Convert a model glyph to the owned write-fonts glyph. Composites with
/// instructions can only be obtained by reading bytes.
pub fn to_owned_glyph(g: &MGlyph) -> Result<w::Glyph, String> {
    Ok(match g {
        MGlyph::Empty => w::Glyph::Empty,
        MGlyph::Simple { bbox, contours, instr } => w::Glyph::Simple(to_simple(*bbox, contours, instr)),
        MGlyph::Composite { bbox, comps, instr } => {
            if instr.is_empty() {
                let mut it = comps.iter();
                let first = it.next().ok_or("composite without components")?;
                let mut cg = w::CompositeGlyph::new(to_component(first), to_bbox(*bbox));
                for c in it {
                    cg.add_component(to_component(c), to_bbox(*bbox));
                }
                cg.bbox = to_bbox(*bbox);
                w::Glyph::Composite(cg)
            } else {
                let bytes = encode_composite(*bbox, comps, instr);
                let cg = <w::CompositeGlyph as FontRead>::read(FontData::new(&bytes)).map_err(|e| format!("CompositeGlyph::read: {e}"))?;
                w::Glyph::Composite(cg)
            }
        }
    })
}

pub struct Built {
    pub glyf: Vec<u8>,
    pub loca: Vec<u8>,
    pub long: bool,
}

#[derive(Default)]
pub struct SetStats {
    pub glyphs: u64,
    pub simple: u64,
    pub composite: u64,
    pub empty: u64,
    pub points: u64,
    pub components: u64,
    pub len_equals_canonical: u64,
    pub len_below_canonical: u64,
    pub odd_unpadded: u64,
    pub repeat_255: u64,
    pub max_flag_run: usize,
    pub n_short: u64,
    pub n_long: u64,
    pub n_same: u64,
    pub total_bytes: usize,
}

type Mismatch = (String, Value);

fn bbox_of<T>(g: &T) -> [i16; 4]
where
    T: BboxLike,
{
    g.bbox4()
}

pub trait BboxLike {
    fn bbox4(&self) -> [i16; 4];
}
impl BboxLike for rglyf::SimpleGlyph<'_> {
    fn bbox4(&self) -> [i16; 4] {
        [self.x_min(), self.y_min(), self.x_max(), self.y_max()]
    }
}
impl BboxLike for rglyf::CompositeGlyph<'_> {
    fn bbox4(&self) -> [i16; 4] {
        [self.x_min(), self.y_min(), self.x_max(), self.y_max()]
    }
}

fn mm(sig: &str, i: usize, g: &MGlyph, detail: Value) -> Mismatch {
    (sig.to_string(), json!({"glyph_index": i, "detail": detail, "glyph": glyph_json(g)}))
}

/// (i) read-fonts view of glyph `i` vs the model.
fn check_read_fonts(i: usize, g: &MGlyph, got: Option<rglyf::Glyph>, owned_in: &w::Glyph, soft: &RefCell<Vec<Mismatch>>) -> Result<(), Mismatch> {
    match (g, got) {
        (MGlyph::Empty, None) => Ok(()),
        (MGlyph::Empty, Some(_)) => Err(mm("read-fonts:empty-glyph-has-data", i, g, json!({}))),
        (_, None) => Err(mm("read-fonts:glyph-missing", i, g, json!({}))),
        (MGlyph::Simple { bbox, contours, instr }, Some(rglyf::Glyph::Simple(s))) => {
            if s.number_of_contours() as i64 != contours.len() as i64 {
                return Err(mm("read-fonts:simple:contour-count", i, g, json!({"got": s.number_of_contours(), "want": contours.len()})));
            }
            if bbox_of(&s) != *bbox {
                return Err(mm("read-fonts:simple:bbox", i, g, json!({"got": bbox_of(&s), "want": bbox})));
            }
            let mut acc = 0usize;
            let want_ends: Vec<u16> = contours
                .iter()
                .map(|c| {
                    acc += c.len();
                    (acc - 1) as u16
                })
                .collect();
            let got_ends: Vec<u16> = s.end_pts_of_contours().iter().map(|e| e.get()).collect();
            if got_ends != want_ends {
                return Err(mm("read-fonts:simple:end-points", i, g, json!({"got": got_ends.iter().take(20).collect::<Vec<_>>(), "want": want_ends.iter().take(20).collect::<Vec<_>>()})));
            }
            if s.instructions() != &instr[..] {
                return Err(mm("read-fonts:simple:instructions", i, g, json!({"got_len": s.instructions().len(), "want_len": instr.len()})));
            }
            let want: Vec<Pt> = contours.iter().flatten().copied().collect();
            // path 1: the point iterator (guarded on its own: a panic here must not hide the other paths)
            match vf_core::guard(|| s.points().map(|p| Pt { x: p.x, y: p.y, on: p.on_curve }).collect::<Vec<Pt>>()) {
                Err(p) => match lib_sig(&p) {
                    Some(sig) => soft.borrow_mut().push(mm(&format!("read-fonts:simple:points()-{}", sig), i, g, json!({"panic": p.msg}))),
                    None => return Err(mm("harness:panic-in-points-closure", i, g, json!({"panic": p.msg, "file": p.file, "line": p.line}))),
                },
                Ok(got) => {
                    if got != want {
                        let ix = got.iter().zip(&want).position(|(a, b)| a != b).unwrap_or(got.len().min(want.len()));
                        return Err(mm(
                            "read-fonts:simple:points()",
                            i,
                            g,
                            json!({"first_diff": ix, "got": got.get(ix).map(|p| format!("{:?}", p)), "want": want.get(ix).map(|p| format!("{:?}", p)), "got_len": got.len(), "want_len": want.len()}),
                        ));
                    }
                }
            }
            // path 2: the bulk reader used by skrifa
            if s.num_points() != want.len() {
                return Err(mm("read-fonts:simple:num_points", i, g, json!({"got": s.num_points(), "want": want.len()})));
            }
            let mut pts = vec![Point::<i32>::default(); want.len()];
            let mut fl = vec![PointFlags::default(); want.len()];
            if let Err(e) = s.read_points_fast(&mut pts, &mut fl) {
                return Err(mm("read-fonts:simple:read_points_fast:error", i, g, json!({"error": e.to_string()})));
            }
            for (k, w_) in want.iter().enumerate() {
                if pts[k].x != w_.x as i32 || pts[k].y != w_.y as i32 || fl[k].is_on_curve() != w_.on {
                    return Err(mm(
                        "read-fonts:simple:read_points_fast",
                        i,
                        g,
                        json!({"first_diff": k, "got": [pts[k].x, pts[k].y, fl[k].is_on_curve() as i32], "want": format!("{:?}", w_)}),
                    ));
                }
            }
            // path 3: conversion back to the owned type
            match vf_core::guard(|| w::SimpleGlyph::from_table_ref(&s)) {
                Err(p) => match lib_sig(&p) {
                    Some(sig) => soft.borrow_mut().push(mm(&format!("read-fonts:simple:to-owned-{}", sig), i, g, json!({"panic": p.msg}))),
                    None => return Err(mm("harness:panic-in-to-owned-closure", i, g, json!({"panic": p.msg}))),
                },
                Ok(back) => {
                    if let w::Glyph::Simple(orig) = owned_in {
                        if &back != orig {
                            return Err(mm("read-fonts:simple:to-owned-differs", i, g, json!({})));
                        }
                    }
                }
            }
            Ok(())
        }
        (MGlyph::Composite { bbox, comps, instr }, Some(rglyf::Glyph::Composite(c))) => {
            if bbox_of(&c) != *bbox {
                return Err(mm("read-fonts:composite:bbox", i, g, json!({"got": bbox_of(&c), "want": bbox})));
            }
            let got: Vec<rglyf::Component> = c.components().collect();
            if got.len() != comps.len() {
                return Err(mm("read-fonts:composite:component-count", i, g, json!({"got": got.len(), "want": comps.len()})));
            }
            for (k, (gc, wc)) in got.iter().zip(comps).enumerate() {
                let last = k + 1 == comps.len();
                if gc.glyph.to_u16() != wc.gid {
                    return Err(mm("read-fonts:composite:glyph-id", i, g, json!({"component": k, "got": gc.glyph.to_u16(), "want": wc.gid})));
                }
                let ga = match gc.anchor {
                    rglyf::Anchor::Offset { x, y } => MAnchor::Offset(x, y),
                    rglyf::Anchor::Point { base, component } => MAnchor::Point(base, component),
                };
                if ga != wc.anchor {
                    return Err(mm("read-fonts:composite:anchor", i, g, json!({"component": k, "got": format!("{:?}", ga), "want": format!("{:?}", wc.anchor)})));
                }
                let gx = [gc.transform.xx.to_bits(), gc.transform.yx.to_bits(), gc.transform.xy.to_bits(), gc.transform.yy.to_bits()];
                if gx != wc.xform {
                    return Err(mm("read-fonts:composite:transform", i, g, json!({"component": k, "got": gx, "want": wc.xform})));
                }
                let want_flags = expected_comp_flags(wc, !last, last && !instr.is_empty());
                if gc.flags.bits() != want_flags {
                    return Err(mm(
                        "read-fonts:composite:flags",
                        i,
                        g,
                        json!({"component": k, "got": format!("{:#06x}", gc.flags.bits()), "want": format!("{:#06x}", want_flags)}),
                    ));
                }
            }
            let ids: Vec<u16> = c.component_glyphs_and_flags().map(|(g, _)| g.to_u16()).collect();
            if ids != comps.iter().map(|c| c.gid).collect::<Vec<_>>() {
                return Err(mm("read-fonts:composite:component_glyphs_and_flags", i, g, json!({"got": ids})));
            }
            let (n, ins) = c.count_and_instructions();
            if n != comps.len() || ins.unwrap_or(&[]) != &instr[..] || (ins.is_some() != !instr.is_empty()) {
                return Err(mm(
                    "read-fonts:composite:count_and_instructions",
                    i,
                    g,
                    json!({"count": n, "want_count": comps.len(), "instr_len": ins.map(|x| x.len()), "want_instr_len": instr.len()}),
                ));
            }
            let back = w::CompositeGlyph::from_table_ref(&c);
            if let w::Glyph::Composite(orig) = owned_in {
                if &back != orig {
                    return Err(mm("read-fonts:composite:to-owned-differs", i, g, json!({})));
                }
            }
            Ok(())
        }
        (_, Some(other)) => Err(mm(
            "read-fonts:wrong-glyph-kind",
            i,
            g,
            json!({"got": if matches!(other, rglyf::Glyph::Simple(_)) { "simple" } else { "composite" }}),
        )),
    }
}

/// Check one glyph set. Returns false if a violation / inconclusive outcome
/// stopped the case.
pub fn check_set(ctx: &mut Ctx, kind: &str, glyphs: &[MGlyph], via: AddVia) -> Option<(Built, SetStats)> {
    ctx.eval();
    let mut set_digest = Digest::new();
    for g in glyphs {
        set_digest.u64(glyph_digest(g));
    }
    let set_digest = set_digest.finish();

    let phase: Cell<&'static str> = Cell::new("convert");
    let at: Cell<usize> = Cell::new(0);
    let kind_s = kind.to_string();
    let soft: RefCell<Vec<Mismatch>> = RefCell::new(vec![]);
    let res = ctx.run_case(
        &|| format!("{}:{:016x}", kind_s, set_digest),
        None,
        &|| -> Result<(Built, SetStats), Mismatch> {
            let mut st = SetStats::default();
            // ---- build
            let mut owned = Vec::with_capacity(glyphs.len());
            for (i, g) in glyphs.iter().enumerate() {
                at.set(i);
                owned.push(to_owned_glyph(g).map_err(|e| mm("harness:cannot-convert", i, g, json!({"error": e})))?);
            }
            phase.set("add_glyph");
            let mut builder = w::GlyfLocaBuilder::new();
            for (i, (g, o)) in glyphs.iter().zip(&owned).enumerate() {
                at.set(i);
                let r = match (via, o) {
                    (AddVia::Direct, w::Glyph::Simple(s)) => builder.add_glyph(s).map(|_| ()),
                    (AddVia::Direct, w::Glyph::Composite(c)) => builder.add_glyph(c).map(|_| ()),
                    _ => builder.add_glyph(o).map(|_| ()),
                };
                if let Err(e) = r {
                    return Err(mm("add_glyph:error-on-valid-glyph", i, g, json!({"error": e.to_string()})));
                }
            }
            phase.set("build");
            let (glyf_t, loca_t, fmt) = builder.build();
            let glyf_b = write_fonts::dump_table(&glyf_t).map_err(|e| ("dump:glyf-error".to_string(), json!({"error": e.to_string()})))?;
            let loca_b = write_fonts::dump_table(&loca_t).map_err(|e| ("dump:loca-error".to_string(), json!({"error": e.to_string()})))?;
            let long = fmt == LocaFormat::Long;
            st.total_bytes = glyf_b.len();

            // ---- independent view: loca
            phase.set("independent-decode");
            let offs = decode_loca(&loca_b, long).map_err(|e| ("independent:loca-undecodable".to_string(), json!({"error": e})))?;
            if offs.len() != glyphs.len() + 1 {
                return Err(("independent:loca-entry-count".to_string(), json!({"got": offs.len(), "want": glyphs.len() + 1, "long": long})));
            }
            if offs[0] != 0 || *offs.last().unwrap() as usize != glyf_b.len() {
                return Err((
                    "independent:loca-extent".to_string(),
                    json!({"first": offs[0], "last": offs.last(), "glyf_len": glyf_b.len(), "long": long}),
                ));
            }
            // the format the location table must have for this glyf size
            let want_long = glyf_b.len() >= 0x20000 || offs.iter().any(|o| o % 2 != 0);
            if want_long != long {
                return Err((
                    format!("loca-format:expected-{}-got-{}", if want_long { "long" } else { "short" }, if long { "long" } else { "short" }),
                    json!({"glyf_len": glyf_b.len(), "glyphs": glyphs.len()}),
                ));
            }

            // ---- read-fonts view
            let rg = rglyf::Glyf::read(FontData::new(&glyf_b)).map_err(|e| ("read-fonts:glyf-unreadable".to_string(), json!({"error": e.to_string()})))?;
            let rl = rloca::Loca::read(FontData::new(&loca_b), long).map_err(|e| ("read-fonts:loca-unreadable".to_string(), json!({"error": e.to_string()})))?;
            if rl.len() != glyphs.len() {
                return Err(("read-fonts:loca-len".to_string(), json!({"got": rl.len(), "want": glyphs.len()})));
            }

            for (i, g) in glyphs.iter().enumerate() {
                at.set(i);
                st.glyphs += 1;
                if offs[i + 1] < offs[i] {
                    return Err(mm("independent:loca-not-ascending", i, g, json!({"start": offs[i], "end": offs[i + 1]})));
                }
                let (s, e) = (offs[i] as usize, offs[i + 1] as usize);
                let slot = glyf_b.get(s..e).ok_or_else(|| mm("independent:slot-out-of-bounds", i, g, json!({"start": s, "end": e})))?;
                // (ii) independent decoder
                phase.set("independent-decode");
                let dec = decode_glyph(slot).map_err(|e| mm("independent:undecodable", i, g, json!({"error": e, "slot_len": slot.len()})))?;
                // a simple glyph without contours is written as an empty glyph
                let want_model: MGlyph = match g {
                    MGlyph::Simple { contours, .. } if contours.is_empty() => MGlyph::Empty,
                    other => other.clone(),
                };
                if dec.glyph != want_model {
                    let what = match (&dec.glyph, &want_model) {
                        (MGlyph::Simple { bbox: b1, contours: c1, instr: i1 }, MGlyph::Simple { bbox: b2, contours: c2, instr: i2 }) => {
                            if b1 != b2 {
                                "bbox"
                            } else if i1 != i2 {
                                "instructions"
                            } else if c1.iter().map(|c| c.len()).ne(c2.iter().map(|c| c.len())) {
                                "contours"
                            } else if c1.iter().flatten().map(|p| p.on).ne(c2.iter().flatten().map(|p| p.on)) {
                                "on-curve-flags"
                            } else {
                                "coordinates"
                            }
                        }
                        (MGlyph::Composite { bbox: b1, comps: c1, instr: i1 }, MGlyph::Composite { bbox: b2, comps: c2, instr: i2 }) => {
                            if b1 != b2 {
                                "bbox"
                            } else if i1 != i2 {
                                "instructions"
                            } else if c1.len() != c2.len() {
                                "component-count"
                            } else {
                                "components"
                            }
                        }
                        _ => "kind",
                    };
                    return Err(mm(
                        &format!("independent:{}:{}", want_model.kind(), what),
                        i,
                        g,
                        json!({"decoded": glyph_json(&dec.glyph), "slot_len": slot.len()}),
                    ));
                }
                if let MGlyph::Composite { comps, instr, .. } = g {
                    for (k, c) in comps.iter().enumerate() {
                        let last = k + 1 == comps.len();
                        let want = expected_comp_flags(c, !last, last && !instr.is_empty());
                        if dec.raw_comp_flags.get(k) != Some(&want) {
                            return Err(mm(
                                "independent:composite:flag-word",
                                i,
                                g,
                                json!({"component": k, "got": dec.raw_comp_flags.get(k).map(|f| format!("{:#06x}", f)), "want": format!("{:#06x}", want)}),
                            ));
                        }
                    }
                }
                // (iii) canonical length and padding
                let canon = match &want_model {
                    MGlyph::Empty => 0,
                    MGlyph::Simple { contours, instr, .. } => {
                        let cs = canonical_simple(contours, instr);
                        st.max_flag_run = st.max_flag_run.max(cs.max_flag_run);
                        st.n_short += cs.n_short as u64;
                        st.n_long += cs.n_long as u64;
                        st.n_same += cs.n_same as u64;
                        if dec.max_repeat_byte == 255 {
                            st.repeat_255 += 1;
                        }
                        cs.len
                    }
                    MGlyph::Composite { comps, instr, .. } => canonical_composite(comps, instr),
                };
                let canon_padded = canon + (canon & 1);
                if slot.len() > canon_padded {
                    return Err(mm(
                        &format!("length:{}:longer-than-canonical", want_model.kind()),
                        i,
                        g,
                        json!({"slot_len": slot.len(), "canonical": canon, "consumed": dec.consumed}),
                    ));
                }
                if slot.len() % 2 != 0 {
                    return Err(mm("padding:slot-not-2-byte-aligned", i, g, json!({"slot_len": slot.len(), "canonical": canon})));
                }
                if slot.len() - dec.consumed > 1 || slot[dec.consumed..].iter().any(|b| *b != 0) {
                    return Err(mm("padding:more-than-one-pad-byte-or-nonzero", i, g, json!({"slot_len": slot.len(), "consumed": dec.consumed})));
                }
                if slot.len() == canon_padded {
                    st.len_equals_canonical += 1;
                } else {
                    st.len_below_canonical += 1;
                }
                if canon & 1 == 1 {
                    st.odd_unpadded += 1;
                }
                match &want_model {
                    MGlyph::Empty => st.empty += 1,
                    MGlyph::Simple { .. } => {
                        st.simple += 1;
                        st.points += g.n_points() as u64;
                    }
                    MGlyph::Composite { comps, .. } => {
                        st.composite += 1;
                        st.components += comps.len() as u64;
                    }
                }
                // (i) read-fonts
                phase.set("read-fonts");
                let got = rl.get_glyf(GlyphId::new(i as u32), &rg).map_err(|e| mm("read-fonts:get_glyf-error", i, g, json!({"error": e.to_string()})))?;
                check_read_fonts(i, &want_model, got, &owned[i], &soft)?;
            }
            Ok((Built { glyf: glyf_b, loca: loca_b, long }, st))
        },
    );
    let case = |i: Option<usize>| {
        json!({"kind": kind, "set_digest": format!("{:016x}", set_digest), "n_glyphs": glyphs.len(), "via": format!("{:?}", via),
               "glyph_at": i.and_then(|i| glyphs.get(i)).map(glyph_json)})
    };
    match res {
        Err(p) => {
            match lib_sig(&p) {
                Some(sig) => {
                    ctx.count(&format!("panic_in:{}", phase.get()), 1);
                    ctx.violation(
                        &format!("{}-{}", phase.get(), sig),
                        json!({"phase": phase.get(), "panic": {"file": p.file, "line": p.line, "msg": p.msg, "class": p.class.as_str()}, "case": case(Some(at.get()))}),
                        None,
                    );
                }
                None => ctx.inconclusive(format!("harness panic {}:{} {} [{}]", p.file, p.line, p.msg, kind)),
            }
            None
        }
        Ok(Err((sig, detail))) => {
            if sig.starts_with("harness:") {
                ctx.inconclusive(format!("{} {}", sig, detail));
            } else {
                ctx.violation(&sig, json!({"detail": detail, "case": case(None)}), None);
            }
            None
        }
        Ok(Ok((built, st))) => {
            for (sig, detail) in soft.borrow().iter() {
                ctx.violation(sig, json!({"detail": detail, "case": case(None)}), None);
            }
            ctx.count("sets_built", 1);
            ctx.count(if built.long { "sets_long_loca" } else { "sets_short_loca" }, 1);
            ctx.count("glyphs_checked", st.glyphs);
            ctx.count("glyphs_simple", st.simple);
            ctx.count("glyphs_composite", st.composite);
            ctx.count("glyphs_empty", st.empty);
            ctx.count("points_checked", st.points);
            ctx.count("components_checked", st.components);
            ctx.count("len_equals_canonical", st.len_equals_canonical);
            ctx.count("len_below_canonical", st.len_below_canonical);
            ctx.count("glyphs_with_odd_unpadded_length", st.odd_unpadded);
            ctx.count("glyphs_with_repeat_count_255", st.repeat_255);
            ctx.count("coords_same(0 bytes)", st.n_same);
            ctx.count("coords_short(1 byte)", st.n_short);
            ctx.count("coords_long(2 bytes)", st.n_long);
            let run_class = match st.max_flag_run {
                0..=1 => "1",
                2 => "2",
                3..=255 => "3-255",
                256 => "256",
                257 => "257",
                258..=511 => "258-511",
                512 => "512",
                _ => "513+",
            };
            ctx.label("max_flag_run_classes", run_class);
            let size_class = match st.total_bytes {
                0..=0xFFFF => "<64K",
                0x10000..=0x1FFFB => "64K..0x1FFFB",
                0x1FFFC => "0x1FFFC",
                0x1FFFE => "0x1FFFE",
                0x20000 => "0x20000",
                0x20002 => "0x20002",
                _ => ">0x20002",
            };
            ctx.label("glyf_size_classes", &format!("{}:{}", size_class, if built.long { "long" } else { "short" }));
            for g in glyphs {
                if !matches!(g, MGlyph::Empty) {
                    ctx.nontrivial(glyph_digest(g));
                }
            }
            Some((built, st))
        }
    }
}
