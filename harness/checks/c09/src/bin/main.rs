fn main() {
    vf_core::main_with("C09", vf_c09::run, vf_c09::REPLAY);
}
