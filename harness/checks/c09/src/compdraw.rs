//! (v) composite glyphs built with write-fonts, drawn by skrifa, must place
//! every component where its anchor says: an x/y offset translates the
//! (transformed) component by that offset; a point anchor translates it so that
//! the component's matched point (after the component's transform) lands
//! exactly on the matched point of the glyph assembled so far
//! (translate = base_point - transformed component_point; base indices count
//! the points of all earlier components of the same composite, component
//! indices count the component's own points, nested composites flattened).
//!
//! The reference placement is computed here from the model glyphs; drawings
//! are made in both path styles (FreeType-style scaler, HarfBuzz-style scaler),
//! unscaled and at one scaled size. All numbers are chosen so that every
//! intermediate value is exact in 26.6 fixed point and in f32 (coordinates and
//! offsets are multiples of 16, transform entries multiples of 0.5, at most
//! three transform levels, scale factor 1/2), so equality is exact.
use crate::draw::{assemble_font, close_contour, contour_eq, Contour, RecPen, Seg};
use crate::gen::true_bbox;
use crate::model::*;
use crate::oracle::{self, lib_sig, AddVia};
use font_types::GlyphId;
use read_fonts::FontRef;
use serde_json::{json, Value};
use skrifa::{
    instance::{LocationRef, Size},
    outline::{pen::PathStyle, DrawSettings},
    MetadataProvider,
};
use vf_core::{Ctx, Digest, Rng};

/// ppem with units_per_em = 1000 (assemble_font): scale factor exactly 1/2
const SCALED_PPEM: f32 = 500.0;
const SCALE: f64 = 0.5;

pub const XFORMS: [[i16; 4]; 11] = [
    IDENT,
    [0x2000, 0, 0, 0x2000],      // scale 0.5
    [-0x4000, 0, 0, -0x4000],    // scale -1
    [0x6000, 0, 0, 0x6000],      // scale 1.5
    [0x2000, 0, 0, 0x4000],      // x/y scale
    [0x4000, 0, 0, -0x4000],     // mirror
    [-0x8000, 0, 0, 0x2000],     // -2, 0.5
    [0, 0x4000, -0x4000, 0],     // rotate 90
    [0x4000, 0x2000, 0, 0x4000], // skew (yx)
    [0x4000, 0, -0x2000, 0x4000], // skew (xy)
    [0x2000, -0x4000, 0x6000, 0x2000],
];

#[derive(Clone, Debug, Default)]
struct Flat {
    pts: Vec<(f64, f64, bool)>,
    /// exclusive end index of every contour
    ends: Vec<usize>,
    /// for every contour: index of the top-level component it came from
    owner: Vec<usize>,
}

#[derive(Clone, Copy, PartialEq)]
enum Model {
    /// the specification (and FreeType, and HarfBuzz): transform, then match points
    Spec,
    /// the component's anchor point is read before the component's transform is applied
    ComponentPointBeforeTransform,
}

fn apply(x: &[i16; 4], p: (f64, f64)) -> (f64, f64) {
    let f = |b: i16| b as f64 / 16384.0;
    (f(x[0]) * p.0 + f(x[2]) * p.1, f(x[1]) * p.0 + f(x[3]) * p.1)
}

/// Err = the glyph is outside the domain (anchor index out of range, too deep)
fn flatten(glyphs: &[MGlyph], gid: usize, depth: usize, model: Model) -> Result<Flat, String> {
    if depth > 6 {
        return Err("too deep".into());
    }
    match glyphs.get(gid).ok_or("gid out of range")? {
        MGlyph::Empty => Ok(Flat::default()),
        MGlyph::Simple { contours, .. } => {
            let mut f = Flat::default();
            for c in contours {
                for p in c {
                    f.pts.push((p.x as f64, p.y as f64, p.on));
                }
                f.ends.push(f.pts.len());
                f.owner.push(0);
            }
            Ok(f)
        }
        MGlyph::Composite { comps, .. } => {
            let mut acc = Flat::default();
            for (ci, c) in comps.iter().enumerate() {
                let sub = flatten(glyphs, c.gid as usize, depth + 1, model)?;
                let mut pts: Vec<(f64, f64, bool)> = sub.pts.iter().map(|p| { let q = apply(&c.xform, (p.0, p.1)); (q.0, q.1, p.2) }).collect();
                let off = match c.anchor {
                    MAnchor::Offset(x, y) => (x as f64, y as f64),
                    MAnchor::Point(b, k) => {
                        let bp = acc.pts.get(b as usize).ok_or("base point index out of range")?;
                        let cp = match model {
                            Model::Spec => pts.get(k as usize),
                            Model::ComponentPointBeforeTransform => sub.pts.get(k as usize),
                        }
                        .ok_or("component point index out of range")?;
                        (bp.0 - cp.0, bp.1 - cp.1)
                    }
                };
                for p in pts.iter_mut() {
                    p.0 += off.0;
                    p.1 += off.1;
                }
                let base = acc.pts.len();
                acc.pts.extend(pts);
                for e in &sub.ends {
                    acc.ends.push(base + e);
                    acc.owner.push(ci);
                }
            }
            Ok(acc)
        }
    }
}

/// TrueType point stream -> closed contours of lines / quads (contours start
/// on-curve here, so both path styles agree on the start point).
fn contours_of(f: &Flat, scale: f64) -> Vec<Contour> {
    let mut out = vec![];
    let mut start = 0;
    for &end in &f.ends {
        let pts: Vec<([f64; 2], bool)> = f.pts[start..end].iter().map(|p| ([p.0 * scale, p.1 * scale], p.2)).collect();
        start = end;
        let n = pts.len();
        let Some(s) = pts.iter().position(|p| p.1) else { continue };
        let first = pts[s].0;
        let mut cur = first;
        let mut pending: Option<[f64; 2]> = None;
        let mut segs = vec![];
        for i in 1..=n {
            let (p, on) = pts[(s + i) % n];
            if on {
                match pending.take() {
                    Some(c) => segs.push(Seg::Quad(cur, c, p)),
                    None => segs.push(Seg::Line(cur, p)),
                }
                cur = p;
            } else {
                if let Some(c) = pending {
                    let mid = [(c[0] + p[0]) / 2.0, (c[1] + p[1]) / 2.0];
                    segs.push(Seg::Quad(cur, c, mid));
                    cur = mid;
                }
                pending = Some(p);
            }
        }
        out.push(close_contour(first, cur, segs));
    }
    out
}

// ------------------------------------------------------------------ generators

fn gen_simple(rng: &mut Rng, n_points: Option<usize>) -> MGlyph {
    let n_contours = if n_points.is_some() { 1 } else { rng.range(1, 3) as usize };
    let mut contours = vec![];
    for _ in 0..n_contours {
        let n = n_points.unwrap_or(rng.range(3, 7) as usize);
        let c: Vec<Pt> = (0..n)
            .map(|i| Pt { x: (rng.range(-64, 64) * 16) as i16, y: (rng.range(-64, 64) * 16) as i16, on: i == 0 || rng.chance(2, 3) })
            .collect();
        contours.push(c);
    }
    let bbox = true_bbox(&contours).unwrap_or([0; 4]);
    MGlyph::Simple { bbox, contours, instr: vec![] }
}

fn comp(gid: usize, anchor: MAnchor, xform: [i16; 4], flag_bits: u64) -> MComp {
    MComp {
        gid: gid as u16,
        anchor,
        // scaled/unscaled_component_offset only matter for x/y offsets with a transform: left unset
        flags: MFlags { round_xy_to_grid: flag_bits & 1 != 0, use_my_metrics: flag_bits & 2 != 0, overlap_compound: flag_bits & 4 != 0, ..Default::default() },
        xform,
    }
}

/// Adds the composite if it is inside the domain; returns its gid.
fn push_composite(glyphs: &mut Vec<MGlyph>, comps: Vec<MComp>) -> Option<usize> {
    glyphs.push(MGlyph::Composite { bbox: [0; 4], comps, instr: vec![] });
    let gid = glyphs.len() - 1;
    let ok = match flatten(glyphs, gid, 0, Model::Spec) {
        Ok(f) if !f.pts.is_empty() => {
            let (mut lo, mut hi) = ([f64::MAX; 2], [f64::MIN; 2]);
            for p in &f.pts {
                lo = [lo[0].min(p.0), lo[1].min(p.1)];
                hi = [hi[0].max(p.0), hi[1].max(p.1)];
            }
            if lo[0] >= -16000.0 && lo[1] >= -16000.0 && hi[0] <= 16000.0 && hi[1] <= 16000.0 {
                if let MGlyph::Composite { bbox, .. } = &mut glyphs[gid] {
                    *bbox = [lo[0].floor() as i16, lo[1].floor() as i16, hi[0].ceil() as i16, hi[1].ceil() as i16];
                }
                true
            } else {
                false
            }
        }
        _ => false,
    };
    if ok {
        Some(gid)
    } else {
        glyphs.pop();
        None
    }
}

fn n_points_of(glyphs: &[MGlyph], gid: usize) -> usize {
    flatten(glyphs, gid, 0, Model::Spec).map(|f| f.pts.len()).unwrap_or(0)
}

/// transform levels below (and including) this glyph's components
fn xform_levels(glyphs: &[MGlyph], gid: usize) -> usize {
    match &glyphs[gid] {
        MGlyph::Composite { comps, .. } => comps.iter().map(|c| (c.xform != IDENT) as usize + xform_levels(glyphs, c.gid as usize)).max().unwrap_or(0),
        _ => 0,
    }
}

/// Directed: every (base, component) index pair for the 2nd and the 3rd
/// component, for a nested composite as component and after a nested composite,
/// under one transform.
fn directed_set(rng: &mut Rng, xf: [i16; 4]) -> Vec<MGlyph> {
    let mut g = vec![MGlyph::Empty];
    g.push(gen_simple(rng, Some(4))); // 1: A
    g.push(gen_simple(rng, Some(3))); // 2: B
    g.push(gen_simple(rng, Some(5))); // 3: C
    g.push(gen_simple(rng, Some(300))); // 4: L (point indices > 255: word-sized anchor arguments)
    let (a, b, c, l) = (1usize, 2usize, 3usize, 4usize);
    let first = |gid: usize| comp(gid, MAnchor::Offset(32, -48), IDENT, 0);
    // second component matched, all pairs
    for bi in 0..4u16 {
        for ki in 0..3u16 {
            push_composite(&mut g, vec![first(a), comp(b, MAnchor::Point(bi, ki), xf, 0)]);
        }
    }
    // third component matched against points of the 1st and 2nd, all pairs; the 2nd is itself matched
    for bi in 0..7u16 {
        for ki in 0..5u16 {
            push_composite(&mut g, vec![first(a), comp(b, MAnchor::Point(3, 1), xf, 0), comp(c, MAnchor::Point(bi, ki), xf, (bi % 8) as u64)]);
        }
    }
    // first component transformed, second matched
    for bi in 0..4u16 {
        push_composite(&mut g, vec![comp(a, MAnchor::Offset(-16, 160), xf, 0), comp(b, MAnchor::Point(bi, 2), IDENT, 0)]);
    }
    // nested composite N = [A, B matched]
    if let Some(n) = push_composite(&mut g, vec![first(a), comp(b, MAnchor::Point(2, 1), xf, 0)]) {
        // N as a matched component (its own 7 points are the component points), then C matched to points of N
        for bi in 0..5u16 {
            for ki in 0..7u16 {
                push_composite(&mut g, vec![first(c), comp(n, MAnchor::Point(bi, ki), xf, 0), comp(a, MAnchor::Point(5 + ki, (bi % 4) as u16), IDENT, 0)]);
            }
        }
        // N first (so that the nested composite's own base is 0), and N after another component
        // (so that the nested composite's base is not 0 while it resolves its own matched component)
        for ki in 0..3u16 {
            push_composite(&mut g, vec![first(n), comp(b, MAnchor::Point(4 + ki, ki), xf, 0)]);
            push_composite(&mut g, vec![first(c), comp(n, MAnchor::Offset(64, 16), xf, 0), comp(b, MAnchor::Point(5 + 4 + ki, ki), IDENT, 0)]);
        }
    }
    // word-sized point numbers
    for (bi, ki) in [(255u16, 0u16), (256, 1), (299, 2), (0, 0)] {
        push_composite(&mut g, vec![first(l), comp(b, MAnchor::Point(bi, ki), xf, 0)]);
        push_composite(&mut g, vec![first(b), comp(l, MAnchor::Point(ki, bi), xf, 0)]);
        push_composite(&mut g, vec![first(a), comp(l, MAnchor::Offset(0, 0), IDENT, 0), comp(l, MAnchor::Point(4 + bi, 299 - ki), xf, 0)]);
    }
    g
}

fn random_set(rng: &mut Rng) -> Vec<MGlyph> {
    let mut g = vec![MGlyph::Empty];
    let n_simple = rng.range(2, 5) as usize;
    for _ in 0..n_simple {
        g.push(gen_simple(rng, None));
    }
    let n_comp = rng.range(2, 8) as usize;
    for _ in 0..n_comp {
        let n = rng.range(1, 5) as usize;
        let mut comps: Vec<MComp> = vec![];
        let mut base_points = 0usize;
        for i in 0..n {
            // candidates: any simple glyph, any composite with <= 2 transform levels
            let gid = loop {
                let c = rng.range(1, g.len() as i64 - 1) as usize;
                if xform_levels(&g, c) <= 2 {
                    break c;
                }
            };
            let np = n_points_of(&g, gid);
            let xf = if rng.chance(1, 3) { IDENT } else { *rng.pick(&XFORMS) };
            let anchor = if i > 0 && base_points > 0 && np > 0 && rng.chance(3, 4) {
                MAnchor::Point(rng.usize(base_points) as u16, rng.usize(np) as u16)
            } else {
                MAnchor::Offset((rng.range(-20, 20) * 16) as i16, (rng.range(-20, 20) * 16) as i16)
            };
            let flags = if rng.chance(1, 3) { rng.below(8) } else { 0 };
            comps.push(comp(gid, anchor, xf, flags));
            base_points += np;
        }
        push_composite(&mut g, comps);
    }
    g
}

// ------------------------------------------------------------------ oracle

fn describe(glyphs: &[MGlyph], gid: usize) -> Value {
    let mut used = vec![];
    let mut stack = vec![gid];
    while let Some(x) = stack.pop() {
        if used.iter().any(|(i, _)| *i == x) || used.len() > 12 {
            continue;
        }
        if let MGlyph::Composite { comps, .. } = &glyphs[x] {
            stack.extend(comps.iter().map(|c| c.gid as usize));
        }
        let j = match &glyphs[x] {
            MGlyph::Simple { contours, .. } => json!({"kind": "simple", "contours": contours.iter().map(|c| c.iter().map(|p| json!([p.x, p.y, p.on as u8])).take(12).collect::<Vec<_>>()).collect::<Vec<_>>()}),
            other => oracle::glyph_json(other),
        };
        used.push((x, j));
    }
    json!({"gid": gid, "glyphs": used.into_iter().map(|(i, j)| json!({"gid": i, "glyph": j})).collect::<Vec<_>>()})
}

fn draw_one(font: &FontRef, gid: usize, style: PathStyle, scaled: bool) -> Result<RecPen, String> {
    let g = font.outline_glyphs().get(GlyphId::new(gid as u32)).ok_or_else(|| format!("outline_glyphs().get({}) is None", gid))?;
    let mut pen = RecPen::default();
    let size = if scaled { Size::new(SCALED_PPEM) } else { Size::unscaled() };
    g.draw(DrawSettings::unhinted(size, LocationRef::default()).with_path_style(style), &mut pen).map_err(|e| format!("draw({}) failed: {}", gid, e))?;
    Ok(pen)
}

fn first_difference(got: &[Contour], want: &[Contour]) -> Option<usize> {
    if got.len() != want.len() {
        return Some(got.len().min(want.len()));
    }
    (0..got.len()).find(|i| contour_eq(&got[*i], &want[*i]).is_none())
}

pub fn check_set_drawn(ctx: &mut Ctx, family: &str, glyphs: &[MGlyph]) {
    let Some((built, _)) = oracle::check_set(ctx, "composite-draw-set", glyphs, AddVia::Enum) else {
        return;
    };
    let x_mins: Vec<i16> = glyphs
        .iter()
        .map(|m| match m {
            MGlyph::Simple { bbox, .. } | MGlyph::Composite { bbox, .. } => bbox[0],
            MGlyph::Empty => 0,
        })
        .collect();
    let font_bytes = assemble_font(&built.glyf, &built.loca, built.long, &x_mins);
    for gid in 0..glyphs.len() {
        let MGlyph::Composite { comps, .. } = &glyphs[gid] else { continue };
        let Ok(spec) = flatten(glyphs, gid, 0, Model::Spec) else { continue };
        let matched = comps.iter().skip(1).filter(|c| matches!(c.anchor, MAnchor::Point(..))).count();
        for (style, style_name) in [(PathStyle::FreeType, "freetype-style"), (PathStyle::HarfBuzz, "harfbuzz-style")] {
            for scaled in [false, true] {
                ctx.eval();
                ctx.count("composite_draws", 1);
                let size_name = if scaled { "scaled" } else { "unscaled" };
                let res = vf_core::guard(|| -> Result<RecPen, String> {
                    let font = FontRef::new(&font_bytes).map_err(|e| format!("font unreadable: {e}"))?;
                    draw_one(&font, gid, style, scaled)
                });
                let pen = match res {
                    Err(pn) => {
                        match lib_sig(&pn) {
                            Some(sig) => {
                                ctx.violation(&format!("composite-draw-{}", sig), json!({"panic": {"file": pn.file, "line": pn.line, "msg": pn.msg}, "style": style_name, "size": size_name, "case": describe(glyphs, gid)}), Some(&font_bytes));
                            }
                            None => ctx.inconclusive(format!("harness panic {}:{} {}", pn.file, pn.line, pn.msg)),
                        }
                        return;
                    }
                    Ok(Err(e)) => {
                        ctx.violation(&format!("composite-draw:{}:{}:error-on-valid-composite", style_name, size_name), json!({"error": e, "case": describe(glyphs, gid)}), Some(&font_bytes));
                        return;
                    }
                    Ok(Ok(p)) => p,
                };
                let want = contours_of(&spec, if scaled { SCALE } else { 1.0 });
                if pen.unbalanced != 0 || pen.cubics != 0 {
                    ctx.violation(&format!("composite-draw:{}:{}:malformed-pen-stream", style_name, size_name), json!({"unbalanced": pen.unbalanced, "cubics": pen.cubics, "case": describe(glyphs, gid)}), Some(&font_bytes));
                    return;
                }
                if let Some(ci) = first_difference(&pen.contours, &want) {
                    // classify by the top-level component that owns the first differing contour
                    let owner = spec.owner.get(ci).copied().unwrap_or(0);
                    let c = &comps[owner.min(comps.len() - 1)];
                    let anchor = match c.anchor {
                        MAnchor::Offset(..) => "offset-anchor",
                        MAnchor::Point(..) => "point-anchor",
                    };
                    let xf = if c.xform == IDENT { "no-transform" } else { "transformed" };
                    let nested = if matches!(glyphs[c.gid as usize], MGlyph::Composite { .. }) { "nested-component" } else { "simple-component" };
                    // is the drawing what one gets when the component's matched point is
                    // taken before the component's transform?
                    let alt = flatten(glyphs, gid, 0, Model::ComponentPointBeforeTransform).ok().map(|f| contours_of(&f, if scaled { SCALE } else { 1.0 }));
                    let ext = |cs: &[Contour]| -> f64 {
                        cs.iter()
                            .flat_map(|c| c.segs.iter())
                            .flat_map(|s| match s {
                                Seg::Line(a, b) => vec![*a, *b],
                                Seg::Quad(a, b, c) => vec![*a, *b, *c],
                            })
                            .fold(0.0f64, |m, p| m.max(p[0].abs()).max(p[1].abs()))
                    };
                    let detail = json!({"family": family, "contour": ci, "component_index": owner, "component": format!("{:?}", c),
                               "got": format!("{:?}", pen.contours.get(ci)), "want": format!("{:?}", want.get(ci)), "case": describe(glyphs, gid)});
                    let sig = if pen.contours.len() != want.len() {
                        format!("composite-draw:{}:{}:contour-count", style_name, size_name)
                    } else if scaled && style_name == "harfbuzz-style" && ext(&pen.contours) > 1024.0 * (ext(&want) + 1.0) {
                        // every coordinate is several thousand times too large: not a placement question
                        "composite-draw:harfbuzz-style:scaled:coordinates-thousands-of-times-too-large".to_string()
                    } else if matches!(&alt, Some(a) if first_difference(&pen.contours, a).is_none()) {
                        format!("composite-draw:{}:{}:point-matched-transformed-component:component-point-taken-before-transform", style_name, size_name)
                    } else {
                        format!("composite-draw:{}:{}:component-{}:{}:{}:{}:placement-differs", style_name, size_name, if owner == 0 { "first" } else { "later" }, anchor, xf, nested)
                    };
                    ctx.violation(&sig, detail, Some(&font_bytes));
                    // the remaining drawings of this glyph are still judged
                    continue;
                }
                ctx.count("composite_draws_equal", 1);
                ctx.count(&format!("composite_draws_equal:{}:{}", style_name, size_name), 1);
            }
        }
        ctx.count("composites_drawn", 1);
        if matched > 0 {
            ctx.count("composites_drawn_with_point_matched_later_component", 1);
        }
        for (i, c) in comps.iter().enumerate() {
            if let MAnchor::Point(b, k) = c.anchor {
                let pos = match i {
                    1 => "2nd",
                    2 => "3rd",
                    _ => "4th+",
                };
                let nested = matches!(glyphs[c.gid as usize], MGlyph::Composite { .. });
                let base_in_nested = {
                    // does the base point belong to an earlier component that is itself a composite?
                    let mut acc = 0usize;
                    let mut r = false;
                    for e in &comps[..i] {
                        let n = n_points_of(glyphs, e.gid as usize);
                        if (b as usize) < acc + n {
                            r = matches!(glyphs[e.gid as usize], MGlyph::Composite { .. });
                            break;
                        }
                        acc += n;
                    }
                    r
                };
                ctx.label(
                    "point_matched_component_shapes",
                    &format!("{}:{}:{}:{}{}", pos, if c.xform == IDENT { "no-transform" } else { "transformed" }, if nested { "nested-component" } else { "simple-component" },
                             if base_in_nested { "base-in-nested" } else { "base-in-simple" }, if b > 255 || k > 255 { ":word-args" } else { "" }),
                );
            }
        }
        let mut d = Digest::new();
        d.str("composite-draw");
        d.u64(oracle::glyph_digest(&glyphs[gid]));
        for c in comps {
            d.u64(oracle::glyph_digest(&glyphs[c.gid as usize]));
        }
        ctx.nontrivial(d.finish());
        if matched > 0 {
            ctx.sample_by_kind("composite-draw", json!({"family": family, "case": describe(glyphs, gid), "drawn_contours": spec.ends.len()}));
        }
    }
}

pub fn workload(ctx: &mut Ctx, item: &mut usize) {
    for (xi, xf) in XFORMS.iter().enumerate() {
        *item += 1;
        if !ctx.mine(*item) {
            continue;
        }
        let mut rng = Rng::derive(ctx.seed, "c09-compdraw-directed", xi as u64);
        let set = directed_set(&mut rng, *xf);
        ctx.count("cases:composite-draw-directed-sets", 1);
        check_set_drawn(ctx, "directed", &set);
    }
    let n = ctx.tier.pick(4000usize, 80_000);
    for i in 0..n {
        *item += 1;
        if !ctx.mine(*item) {
            continue;
        }
        let mut rng = Rng::derive(ctx.seed, "c09-compdraw-random", i as u64);
        let set = random_set(&mut rng);
        ctx.count("cases:composite-draw-random-sets", 1);
        check_set_drawn(ctx, "random", &set);
    }
}
