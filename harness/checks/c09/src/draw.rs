//! (iv) a glyph built from a kurbo BezPath of lines/quads, drawn unscaled by
//! skrifa, must be geometrically equal to the source path.
use crate::gen::true_bbox;
use crate::model::*;
use crate::oracle::{self, lib_sig, AddVia};
use font_types::{GlyphId, Tag};
use kurbo::{BezPath, PathEl, Point};
use read_fonts::FontRef;
use serde_json::{json, Value};
use skrifa::{
    instance::{LocationRef, Size},
    outline::{DrawSettings, OutlinePen},
    MetadataProvider,
};
use vf_core::{Ctx, Digest, Rng};
use write_fonts::{
    tables::{glyf as w, head::Head, hhea::Hhea, hmtx::Hmtx, hmtx::LongMetric, maxp::Maxp},
    FontBuilder,
};

#[derive(Clone, Copy, Debug, PartialEq)]
pub enum Seg {
    Line([f64; 2], [f64; 2]),
    Quad([f64; 2], [f64; 2], [f64; 2]),
}

#[derive(Clone, Debug, PartialEq)]
pub struct Contour {
    pub start: [f64; 2],
    pub segs: Vec<Seg>,
}

/// Closed contours of a path; zero-length lines are dropped (they carry no geometry).
pub(crate) fn close_contour(start: [f64; 2], cur: [f64; 2], mut segs: Vec<Seg>) -> Contour {
    if cur != start {
        segs.push(Seg::Line(cur, start));
    }
    segs.retain(|s| !matches!(s, Seg::Line(a, b) if a == b));
    Contour { start, segs }
}

pub fn contours_of_bezpath(p: &BezPath) -> Vec<Contour> {
    let mut out = vec![];
    let mut cur: Option<([f64; 2], [f64; 2], Vec<Seg>)> = None;
    let pt = |p: Point| [p.x, p.y];
    for el in p.elements() {
        match *el {
            PathEl::MoveTo(a) => {
                if let Some((s, c, segs)) = cur.take() {
                    out.push(close_contour(s, c, segs));
                }
                cur = Some((pt(a), pt(a), vec![]));
            }
            PathEl::LineTo(a) => {
                if let Some((_, c, segs)) = cur.as_mut() {
                    segs.push(Seg::Line(*c, pt(a)));
                    *c = pt(a);
                }
            }
            PathEl::QuadTo(a, b) => {
                if let Some((_, c, segs)) = cur.as_mut() {
                    segs.push(Seg::Quad(*c, pt(a), pt(b)));
                    *c = pt(b);
                }
            }
            PathEl::CurveTo(..) => {}
            PathEl::ClosePath => {
                if let Some((s, c, segs)) = cur.as_mut() {
                    if c != s {
                        segs.push(Seg::Line(*c, *s));
                        *c = *s;
                    }
                }
            }
        }
    }
    if let Some((s, c, segs)) = cur.take() {
        out.push(close_contour(s, c, segs));
    }
    out
}

#[derive(Default)]
pub struct RecPen {
    pub contours: Vec<Contour>,
    cur: Option<([f64; 2], [f64; 2], Vec<Seg>)>,
    pub cubics: usize,
    pub events: usize,
    pub unbalanced: usize,
}

impl OutlinePen for RecPen {
    fn move_to(&mut self, x: f32, y: f32) {
        self.events += 1;
        if let Some((s, c, segs)) = self.cur.take() {
            self.unbalanced += 1;
            self.contours.push(close_contour(s, c, segs));
        }
        let p = [x as f64, y as f64];
        self.cur = Some((p, p, vec![]));
    }
    fn line_to(&mut self, x: f32, y: f32) {
        self.events += 1;
        match self.cur.as_mut() {
            Some((_, c, segs)) => {
                let p = [x as f64, y as f64];
                segs.push(Seg::Line(*c, p));
                *c = p;
            }
            None => self.unbalanced += 1,
        }
    }
    fn quad_to(&mut self, cx0: f32, cy0: f32, x: f32, y: f32) {
        self.events += 1;
        match self.cur.as_mut() {
            Some((_, c, segs)) => {
                let p = [x as f64, y as f64];
                segs.push(Seg::Quad(*c, [cx0 as f64, cy0 as f64], p));
                *c = p;
            }
            None => self.unbalanced += 1,
        }
    }
    fn curve_to(&mut self, _: f32, _: f32, _: f32, _: f32, _x: f32, _y: f32) {
        self.events += 1;
        self.cubics += 1;
    }
    fn close(&mut self) {
        self.events += 1;
        match self.cur.take() {
            Some((s, c, segs)) => self.contours.push(close_contour(s, c, segs)),
            None => self.unbalanced += 1,
        }
    }
}

/// Equal as closed curves: identical segment cycle up to the choice of start.
/// Returns Some(rotation) when equal.
pub(crate) fn contour_eq(a: &Contour, b: &Contour) -> Option<usize> {
    if a.segs.len() != b.segs.len() {
        return None;
    }
    if a.segs.is_empty() {
        return (a.start == b.start).then_some(0);
    }
    let n = a.segs.len();
    (0..n).find(|r| (0..n).all(|i| a.segs[(i + r) % n] == b.segs[i]))
}

// ------------------------------------------------------------------ generator

fn ipt(rng: &mut Rng, range: i64) -> (i64, i64) {
    (rng.range(-range, range), rng.range(-range, range))
}

/// A random path of lines/quads with integer coordinates (implied on-curve
/// points may sit on half-integers; they are elided by the builder and
/// re-created by the drawer).
pub fn gen_path(rng: &mut Rng) -> BezPath {
    let mut p = BezPath::new();
    let range = *rng.pick(&[8i64, 100, 2000, 16383]);
    let n_contours = match rng.below(6) {
        0 => 1,
        1 => rng.range(1, 12),
        _ => rng.range(1, 4),
    };
    for _ in 0..n_contours {
        let style = rng.below(6);
        let n_seg = if rng.chance(1, 10) { rng.range(0, 1) } else { rng.range(1, 14) };
        // all-implied closed quadratic loop: every on-curve point is the midpoint of its neighbours
        if style == 0 && n_seg >= 2 {
            // off-curve points c_0..c_{n-1}; on-curve m_i = mid(c_{i-1}, c_i)
            let cs: Vec<(i64, i64)> = (0..n_seg).map(|_| ipt(rng, range)).collect();
            let mid = |a: (i64, i64), b: (i64, i64)| ((a.0 + b.0) as f64 / 2.0, (a.1 + b.1) as f64 / 2.0);
            let n = cs.len();
            let start = mid(cs[n - 1], cs[0]);
            p.move_to(start);
            for i in 0..n {
                let end = mid(cs[i], cs[(i + 1) % n]);
                p.quad_to((cs[i].0 as f64, cs[i].1 as f64), end);
            }
            p.close_path();
            continue;
        }
        let s = ipt(rng, range);
        p.move_to((s.0 as f64, s.1 as f64));
        let mut cur = s;
        let mut prev_ctrl: Option<(i64, i64)> = None;
        for k in 0..n_seg {
            let last = k + 1 == n_seg;
            let quad = match style {
                1 => false,
                2 => true,
                _ => rng.bool(),
            };
            // sometimes return exactly to the start on the last segment
            let mut end = if last && rng.chance(1, 3) { s } else { ipt(rng, range) };
            if rng.chance(1, 12) {
                end = cur; // zero-length segment
            }
            if quad {
                let c = ipt(rng, range);
                // make the *current* on-curve point an implied one: cur = mid(prev_ctrl, c)
                let c = match prev_ctrl {
                    Some(pc) if rng.chance(1, 3) && k > 0 => (2 * cur.0 - pc.0, 2 * cur.1 - pc.1),
                    _ => c,
                };
                let c = (c.0.clamp(-16383, 16383), c.1.clamp(-16383, 16383));
                p.quad_to((c.0 as f64, c.1 as f64), (end.0 as f64, end.1 as f64));
                prev_ctrl = Some(c);
            } else {
                p.line_to((end.0 as f64, end.1 as f64));
                prev_ctrl = None;
            }
            cur = end;
        }
        if rng.chance(2, 3) {
            p.close_path();
        }
    }
    p
}

fn path_json(p: &BezPath) -> Value {
    json!({"svg": p.to_svg().chars().take(1500).collect::<String>(), "elements": p.elements().len()})
}

/// `x_mins[i]` = xMin of glyph i: the left side bearing is set to it, as in any
/// consistent TrueType font (skrifa, like FreeType, translates an outline by lsb - xMin).
pub fn assemble_font(glyf: &[u8], loca: &[u8], long: bool, x_mins: &[i16]) -> Vec<u8> {
    let n_glyphs = x_mins.len();
    let head = Head { units_per_em: 1000, index_to_loc_format: long as i16, ..Default::default() };
    let hhea = Hhea { number_of_h_metrics: n_glyphs as u16, ..Default::default() };
    let hmtx = Hmtx::new(x_mins.iter().map(|x| LongMetric::new(500, *x)).collect(), vec![]);
    let mut b = FontBuilder::new();
    let _ = b.add_table(&head);
    let _ = b.add_table(&hhea);
    let _ = b.add_table(&hmtx);
    let _ = b.add_table(&Maxp::new(n_glyphs as u16));
    b.add_raw(Tag::new(b"glyf"), glyf.to_vec());
    b.add_raw(Tag::new(b"loca"), loca.to_vec());
    b.build()
}

fn model_of(sg: &w::SimpleGlyph) -> MGlyph {
    let contours: Vec<Vec<Pt>> = sg
        .contours
        .iter()
        .map(|c| c.iter().map(|p| Pt { x: p.x, y: p.y, on: p.on_curve }).collect())
        .collect();
    MGlyph::Simple { bbox: [sg.bbox.x_min, sg.bbox.y_min, sg.bbox.x_max, sg.bbox.y_max], contours, instr: sg.instructions.clone() }
}

/// One case: several paths -> from_bezpath -> one font -> draw each.
pub fn check_draw_case(ctx: &mut Ctx, rng: &mut Rng) {
    let n = rng.range(1, 10) as usize;
    let paths: Vec<BezPath> = (0..n).map(|_| gen_path(rng)).collect();
    let mut models = vec![MGlyph::Empty]; // gid 0
    for (pi, p) in paths.iter().enumerate() {
        ctx.count("bezpaths", 1);
        let r = vf_core::guard(|| w::SimpleGlyph::from_bezpath(p));
        let sg = match r {
            Err(pn) => {
                match lib_sig(&pn) {
                    Some(sig) => {
                        ctx.violation(
                            &format!("from_bezpath-{}", sig),
                            json!({"panic": {"file": pn.file, "line": pn.line, "msg": pn.msg}, "path": path_json(p)}),
                            None,
                        );
                    }
                    None => ctx.inconclusive(format!("harness panic {}:{} {}", pn.file, pn.line, pn.msg)),
                }
                return;
            }
            Ok(Err(e)) => {
                ctx.violation("from_bezpath:error-on-line-quad-path", json!({"error": format!("{:?}", e), "path": path_json(p)}), None);
                return;
            }
            Ok(Ok(g)) => g,
        };
        let m = model_of(&sg);
        // the builder's bbox is the control box: min/max over all path points (integers here
        // except implied midpoints, which are never extreme beyond their neighbours)
        let src_contours = contours_of_bezpath(p);
        let mut lo = [f64::MAX; 2];
        let mut hi = [f64::MIN; 2];
        for el in p.elements() {
            let pts: Vec<Point> = match *el {
                PathEl::MoveTo(a) | PathEl::LineTo(a) => vec![a],
                PathEl::QuadTo(a, b) => vec![a, b],
                _ => vec![],
            };
            for q in pts {
                lo = [lo[0].min(q.x), lo[1].min(q.y)];
                hi = [hi[0].max(q.x), hi[1].max(q.y)];
            }
        }
        if let MGlyph::Simple { bbox, contours, .. } = &m {
            // all extremes are integers unless the extreme is an implied half-integer midpoint
            // (possible only when both neighbours share that coordinate + 0.5 cannot happen) -> compare when integral
            let integral = [lo[0], lo[1], hi[0], hi[1]].iter().all(|v| v.fract() == 0.0);
            if integral && !contours.is_empty() {
                let want = [lo[0] as i16, lo[1] as i16, hi[0] as i16, hi[1] as i16];
                if *bbox != want {
                    ctx.violation(
                        "from_bezpath:bbox-not-control-box",
                        json!({"got": bbox, "want": want, "path": path_json(p), "path_index": pi}),
                        None,
                    );
                    return;
                }
                // off-curve extremes count: the control box may exceed the on-curve-only box
                let on_only: Vec<Vec<Pt>> = contours.iter().map(|c| c.iter().filter(|p| p.on).copied().collect()).collect();
                if true_bbox(&on_only) != true_bbox(contours) {
                    ctx.count("bezpath_glyphs_where_offcurve_extends_bbox", 1);
                }
            }
            if contours.len() != src_contours.len() {
                ctx.violation(
                    "from_bezpath:contour-count",
                    json!({"got": contours.len(), "want": src_contours.len(), "path": path_json(p)}),
                    None,
                );
                return;
            }
            let n_src_on: usize = p.elements().iter().filter(|e| !matches!(e, PathEl::ClosePath)).count();
            let n_glyph_on: usize = contours.iter().flatten().filter(|p| p.on).count();
            if n_glyph_on < n_src_on {
                ctx.count("on_curve_points_elided_or_closed", (n_src_on - n_glyph_on) as u64);
            }
            if contours.iter().any(|c| c.first().map(|p| !p.on).unwrap_or(false)) {
                ctx.count("contours_starting_off_curve", 1);
            }
            if contours.iter().any(|c| !c.is_empty() && c.iter().all(|p| !p.on)) {
                ctx.count("contours_all_off_curve_from_bezpath", 1);
            }
        }
        models.push(m);
    }
    // same glyph set goes through oracles (i)-(iii)
    let Some((built, _)) = oracle::check_set(ctx, "bezpath-set", &models, AddVia::Enum) else {
        return;
    };
    let x_mins: Vec<i16> = models
        .iter()
        .map(|m| match m {
            MGlyph::Simple { bbox, .. } | MGlyph::Composite { bbox, .. } => bbox[0],
            MGlyph::Empty => 0,
        })
        .collect();
    let font_bytes = assemble_font(&built.glyf, &built.loca, built.long, &x_mins);
    let res = vf_core::guard(|| -> Result<Vec<RecPen>, String> {
        let font = FontRef::new(&font_bytes).map_err(|e| format!("font unreadable: {e}"))?;
        let outlines = font.outline_glyphs();
        let mut pens = vec![];
        for gi in 1..models.len() {
            let g = outlines.get(GlyphId::new(gi as u32)).ok_or_else(|| format!("outline_glyphs().get({}) is None", gi))?;
            let mut pen = RecPen::default();
            g.draw(DrawSettings::unhinted(Size::unscaled(), LocationRef::default()), &mut pen)
                .map_err(|e| format!("draw({}) failed: {}", gi, e))?;
            pens.push(pen);
        }
        Ok(pens)
    });
    let pens = match res {
        Err(pn) => {
            match lib_sig(&pn) {
                Some(sig) => {
                    ctx.violation(&format!("draw-{}", sig), json!({"panic": {"file": pn.file, "line": pn.line, "msg": pn.msg}, "paths": paths.iter().map(path_json).collect::<Vec<_>>()}), Some(&font_bytes));
                }
                None => ctx.inconclusive(format!("harness panic {}:{} {}", pn.file, pn.line, pn.msg)),
            }
            return;
        }
        Ok(Err(e)) => {
            ctx.violation("draw:error-on-bezpath-glyph", json!({"error": e, "paths": paths.iter().map(path_json).collect::<Vec<_>>()}), Some(&font_bytes));
            return;
        }
        Ok(Ok(p)) => p,
    };
    for (pi, (p, pen)) in paths.iter().zip(&pens).enumerate() {
        ctx.eval();
        let want = contours_of_bezpath(p);
        let fail = |ctx: &mut Ctx, sig: &str, d: Value| {
            ctx.violation(
                sig,
                json!({"detail": d, "path": path_json(p), "glyph": oracle::glyph_json(&models[pi + 1]),
                       "drawn": format!("{:?}", pen.contours).chars().take(1500).collect::<String>()}),
                Some(&font_bytes),
            );
        };
        if pen.unbalanced != 0 || pen.cubics != 0 {
            fail(ctx, "draw:malformed-pen-stream", json!({"unbalanced": pen.unbalanced, "cubics": pen.cubics}));
            return;
        }
        if pen.contours.len() != want.len() {
            fail(ctx, "draw:contour-count", json!({"got": pen.contours.len(), "want": want.len()}));
            return;
        }
        let mut rotated = false;
        for (ci, (g, w_)) in pen.contours.iter().zip(&want).enumerate() {
            match contour_eq(g, w_) {
                Some(0) => {}
                Some(_) => rotated = true,
                None => {
                    let class = if g.segs.len() != w_.segs.len() { "segment-count" } else { "geometry" };
                    fail(ctx, &format!("draw:{}-differs", class), json!({"contour": ci, "got": format!("{:?}", g), "want": format!("{:?}", w_)}));
                    return;
                }
            }
        }
        ctx.count("paths_drawn_equal", 1);
        ctx.count("drawn_segments", pen.contours.iter().map(|c| c.segs.len() as u64).sum());
        ctx.count("drawn_quads", pen.contours.iter().flat_map(|c| &c.segs).filter(|s| matches!(s, Seg::Quad(..))).count() as u64);
        if rotated {
            ctx.count("paths_equal_up_to_start_rotation", 1);
        }
        if pen.contours.iter().flat_map(|c| &c.segs).any(|s| match s {
            Seg::Quad(_, _, e) | Seg::Line(_, e) => e[0].fract() != 0.0 || e[1].fract() != 0.0,
        }) {
            ctx.count("paths_with_half_integer_implied_points", 1);
        }
        let mut d = Digest::new();
        d.str(&p.to_svg());
        ctx.nontrivial(d.finish());
        ctx.sample_by_kind("bezpath-draw", json!({"path": path_json(p), "glyph": oracle::glyph_json(&models[pi + 1]), "drawn_contours": pen.contours.len()}));
    }
}
