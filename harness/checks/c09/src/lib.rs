//! C09 — glyph outlines written to glyf/loca are the outlines read and drawn back.
//! See /verif/DESIGN.md §3 "C09".
mod compdraw;
mod draw;
mod gen;
mod model;
mod oracle;

use model::*;
use oracle::{check_set, AddVia};
use serde_json::{json, Value};
use vf_core::{Args, Ctx, PanicPolicy, Rng};
use write_fonts::tables::glyf as w;

pub const REPLAY: Option<fn(&mut Ctx, &Args, &Value, Option<&[u8]>)> = None;

const ALPHABET: [i16; 7] = [-32768, -255, -1, 0, 1, 256, 32767];

fn representable(a: i16, b: i16) -> bool {
    let d = b as i32 - a as i32;
    (-32768..=32767).contains(&d)
}

/// All glyphs of 1..=3 points over ALPHABET² × {on, off}, every partition into
/// contours, restricted to representable successive deltas.
fn exhaustive_small(ctx: &mut Ctx, item: &mut usize) {
    let pts: Vec<Pt> = ALPHABET
        .iter()
        .flat_map(|x| ALPHABET.iter().flat_map(move |y| [true, false].into_iter().map(move |on| Pt { x: *x, y: *y, on })))
        .collect();
    let np = pts.len(); // 98
    let ok = |a: &Pt, b: &Pt| representable(a.x, b.x) && representable(a.y, b.y);
    const BATCH: usize = 4096;
    let mut batch: Vec<MGlyph> = Vec::with_capacity(BATCH);
    let mut total = 0u64;
    let mut skipped = 0u64;
    let mut flush = |ctx: &mut Ctx, batch: &mut Vec<MGlyph>, item: &mut usize| {
        if batch.is_empty() {
            return;
        }
        *item += 1;
        if ctx.mine(*item) {
            ctx.count("cases:exhaustive-batches", 1);
            let via = if *item % 2 == 0 { AddVia::Enum } else { AddVia::Direct };
            check_set(ctx, "exhaustive", batch, via);
        }
        batch.clear();
    };
    let bbox = [-7, -8, 9, 10];
    let mut push = |ctx: &mut Ctx, item: &mut usize, contours: Vec<Vec<Pt>>, batch: &mut Vec<MGlyph>| {
        batch.push(MGlyph::Simple { bbox, contours, instr: vec![] });
        if batch.len() == BATCH {
            flush(ctx, batch, item);
        }
    };
    for a in 0..np {
        total += 1;
        push(ctx, item, vec![vec![pts[a]]], &mut batch);
        for b in 0..np {
            if !ok(&pts[a], &pts[b]) {
                skipped += 1;
                continue;
            }
            total += 2;
            push(ctx, item, vec![vec![pts[a], pts[b]]], &mut batch);
            push(ctx, item, vec![vec![pts[a]], vec![pts[b]]], &mut batch);
            for c in 0..np {
                if !ok(&pts[b], &pts[c]) {
                    skipped += 1;
                    continue;
                }
                total += 4;
                push(ctx, item, vec![vec![pts[a], pts[b], pts[c]]], &mut batch);
                push(ctx, item, vec![vec![pts[a]], vec![pts[b], pts[c]]], &mut batch);
                push(ctx, item, vec![vec![pts[a], pts[b]], vec![pts[c]]], &mut batch);
                push(ctx, item, vec![vec![pts[a]], vec![pts[b]], vec![pts[c]]], &mut batch);
            }
        }
    }
    // remaining partial batch
    if !batch.is_empty() {
        *item += 1;
        if ctx.mine(*item) {
            ctx.count("cases:exhaustive-batches", 1);
            check_set(ctx, "exhaustive", &batch, AddVia::Enum);
        }
    }
    ctx.exhaustive = Some(true);
    ctx.extra.insert(
        "exhaustive_space".into(),
        json!({"coordinate_alphabet": ALPHABET, "max_points": 3, "glyphs_total_all_shards": total,
               "prefixes_skipped_unrepresentable_delta": skipped, "contour_partitions": "all"}),
    );
}

/// `recompute_bounding_box` must give min/max over all points, off-curve included.
fn check_recompute_bbox(ctx: &mut Ctx, g: &MGlyph) {
    if let MGlyph::Simple { contours, instr, .. } = g {
        if contours.is_empty() {
            return;
        }
        let mut sg = to_simple([11, 22, 33, 44], contours, instr);
        let r = vf_core::guard(|| {
            sg.recompute_bounding_box();
            sg.bbox
        });
        match r {
            Ok(b) => {
                let got = [b.x_min, b.y_min, b.x_max, b.y_max];
                let want = gen::true_bbox(contours).unwrap_or([0; 4]);
                ctx.count("recompute_bounding_box_checked", 1);
                if got != want {
                    ctx.violation(
                        "recompute_bounding_box:not-min-max-of-all-points",
                        json!({"got": got, "want": want, "glyph": oracle::glyph_json(g)}),
                        None,
                    );
                }
            }
            Err(p) => {
                if let Some(sig) = oracle::lib_sig(&p) {
                    ctx.violation(&format!("recompute_bounding_box-{}", sig), json!({"glyph": oracle::glyph_json(g), "msg": p.msg}), None);
                }
            }
        }
    }
}

/// Glyph values at the edge of what `add_glyph` accepts (outside the main claim).
fn probes(ctx: &mut Ctx) {
    // incidental observation (not part of C09's statement): CompositeGlyph::try_from_iter documents nothing about
    // the bbox but add_component unions; record what try_from_iter does with two disjoint boxes
    {
        let c = |g: u16| to_component(&MComp { gid: g, anchor: MAnchor::Offset(0, 0), flags: MFlags::default(), xform: IDENT });
        let r = vf_core::guard(|| {
            w::CompositeGlyph::try_from_iter([(c(1), to_bbox([0, 0, 10, 10])), (c(2), to_bbox([-50, -60, 70, 80]))]).map(|g| g.bbox)
        });
        if let Ok(Ok(b)) = r {
            let got = [b.x_min, b.y_min, b.x_max, b.y_max];
            let what = if got == [-50, -60, 70, 80] { "union" } else if got == [0, 0, 10, 10] { "first-component-only (union result discarded)" } else { "other" };
            ctx.label("incidental:CompositeGlyph::try_from_iter_bbox", what);
        }
    }
    // empty contour after a non-empty one: representable (repeated end point)
    let g = MGlyph::Simple {
        bbox: [0, 0, 5, 5],
        contours: vec![vec![Pt { x: 1, y: 1, on: true }], vec![], vec![Pt { x: 5, y: 5, on: true }]],
        instr: vec![],
    };
    ctx.count("cases:probe-empty-inner-contour", 1);
    check_set(ctx, "probe-empty-inner-contour", &[g], AddVia::Direct);
    // empty FIRST contour: end point would be -1
    let g = MGlyph::Simple { bbox: [0, 0, 5, 5], contours: vec![vec![], vec![Pt { x: 5, y: 5, on: true }]], instr: vec![] };
    ctx.count("cases:probe-empty-first-contour", 1);
    let sg = match oracle::to_owned_glyph(&g) {
        Ok(w::Glyph::Simple(s)) => s,
        _ => return,
    };
    let r = vf_core::guard(|| {
        let mut b = w::GlyfLocaBuilder::new();
        let ok = b.add_glyph(&sg).is_ok();
        let (glyf, _, _) = b.build();
        (ok, write_fonts::dump_table(&glyf).map(|b| b.len()).unwrap_or(0))
    });
    match r {
        Err(p) => {
            if let Some(sig) = oracle::lib_sig(&p) {
                ctx.violation(
                    &format!("probe-empty-first-contour:add_glyph-{}", sig),
                    json!({"what": "SimpleGlyph whose first contour has no points passes validation, then write_into panics", "panic": p.msg, "glyph": oracle::glyph_json(&g)}),
                    None,
                );
            }
        }
        Ok((accepted, len)) => {
            ctx.label("probe_empty_first_contour", &format!("accepted={} glyf_len={}", accepted, len));
        }
    }
}

pub fn run(ctx: &mut Ctx, _args: &Args) {
    ctx.policy = PanicPolicy::Any;
    ctx.level = "exploration+exhaustive-small-space".into();
    ctx.rule = "a glyph is counted when it is non-empty, was accepted by GlyfLocaBuilder::add_glyph, and its slot in the \
        built glyf/loca was decoded by read-fonts (3 paths) and by the harness's independent spec decoder and compared with \
        the input, and its length compared with the canonical shortest encoding (digest of the glyph value); a bezpath is \
        counted when its unscaled skrifa drawing was compared with the source path (digest of the path); a composite is counted \
        when its four drawings (FreeType-/HarfBuzz-style, unscaled/scaled) were compared with the reference placement of its \
        components (digest of the composite and its component glyphs)."
        .into();
    ctx.assumptions = vec![
        "domain: successive point deltas representable in i16 (the first point relative to 0,0), every contour of a simple glyph has >= 1 point, <= 65535 points, composites have >= 1 component".into(),
        "canonical length: 10-byte header + endPts + instructionLength + instructions + optimal run-length coding of the minimal per-point flags + minimal delta bytes (0/1/2), padded to 2 bytes as the builder does".into(),
        "path equality: closed contours compared as cyclic sequences of line/quad segments with exact coordinates (integer inputs, half-integer implied midpoints), zero-length lines ignored".into(),
        "composite drawing: anchor point indices are in range (base < points of the earlier components of the same composite, so the first component is never point-matched; component < points of the component), as FreeType requires; all glyphs have lsb = xMin; no variations, no hinting".into(),
        "composites with instructions are obtained through CompositeGlyph::read of bytes produced by the harness's own spec encoder (no public constructor sets instructions)".into(),
    ];
    let mut item = 0usize;

    // ---- 1. exhaustive small space
    exhaustive_small(ctx, &mut item);

    // ---- 2. random glyph sets
    let n_sets = ctx.tier.pick(80_000usize, 1_000_000usize);
    for i in 0..n_sets {
        item += 1;
        if !ctx.mine(item) {
            continue;
        }
        let mut rng = Rng::derive(ctx.seed, "c09-sets", i as u64);
        let n = match rng.below(4) {
            0 => 1,
            1 => rng.range(1, 6),
            _ => rng.range(1, 40),
        } as usize;
        let set: Vec<MGlyph> = (0..n).map(|_| gen::gen_glyph(&mut rng)).collect();
        let via = if rng.bool() { AddVia::Enum } else { AddVia::Direct };
        ctx.count("cases:random-sets", 1);
        for g in set.iter().take(3) {
            check_recompute_bbox(ctx, g);
        }
        if let Some((_, st)) = check_set(ctx, "random-set", &set, via) {
            if st.composite > 0 {
                ctx.sample_by_kind("set-with-composite", json!({"glyphs": set.iter().take(4).map(oracle::glyph_json).collect::<Vec<_>>()}));
            } else {
                ctx.sample_by_kind("set-simple", json!({"glyphs": set.iter().take(3).map(oracle::glyph_json).collect::<Vec<_>>()}));
            }
        }
    }

    // ---- 3. composite matrix (every anchor width × transform class × user flag)
    item += 1;
    if ctx.mine(item) {
        let m = gen::composite_matrix();
        ctx.count("cases:composite-matrix-glyphs", m.len() as u64);
        check_set(ctx, "composite-matrix", &m, AddVia::Enum);
        check_set(ctx, "composite-matrix", &m, AddVia::Direct);
    }

    // ---- 4. flag-run lengths 1..=600, one glyph per length and flag kind
    for l in 1..=600usize {
        item += 1;
        if !ctx.mine(item) {
            continue;
        }
        let mut set = vec![];
        // (dx, dy, on, alternate sign): long deltas (|d| > 255) do not encode their sign in the flag,
        // so alternating keeps the flag constant while staying in range
        for (dx, dy, on, alt) in [
            (0i32, 0i32, true, false),
            (1, 0, true, false),
            (0, -1, false, false),
            (3, 4, true, false),
            (-300, 0, false, true),
            (0, 256, true, true),
            (-255, 255, false, false),
        ] {
            if !alt && (dx.abs().max(dy.abs()) as usize) * l > 30000 {
                continue;
            }
            // a leading point with a different flag, then l identical ones, then a different one
            let mut pts = vec![Pt { x: -1000, y: 500, on: !on }];
            let (mut x, mut y) = (-1000i32, 500i32);
            for k in 0..l {
                let s = if alt && k % 2 == 1 { -1 } else { 1 };
                x += s * dx;
                y += s * dy;
                pts.push(Pt { x: x as i16, y: y as i16, on });
            }
            pts.push(Pt { x: 7, y: 7, on: !on });
            set.push(MGlyph::Simple { bbox: [0; 4], contours: vec![pts], instr: vec![] });
        }
        ctx.count("cases:flag-run-sets", 1);
        check_set(ctx, "flag-runs", &set, AddVia::Enum);
    }

    // ---- 5. glyf sizes around the short/long loca boundary
    let targets: Vec<usize> = {
        let mut t = vec![0x1FFF0, 0x1FFFC, 0x1FFFE, 0x20000, 0x20002, 0x20010, 0x10000, 0x30000];
        let mut rng = Rng::derive(ctx.seed, "c09-size-targets", 0);
        for _ in 0..ctx.tier.pick(56, 600) {
            t.push((rng.range(0x1FF00, 0x20100) as usize) & !1);
        }
        t
    };
    for (i, t) in targets.iter().enumerate() {
        item += 1;
        if !ctx.mine(item) {
            continue;
        }
        let mut rng = Rng::derive(ctx.seed, "c09-sized", i as u64);
        let set = gen::sized_set(&mut rng, *t);
        ctx.count("cases:sized-sets", 1);
        if let Some((built, _)) = check_set(ctx, "sized-set", &set, if i % 2 == 0 { AddVia::Enum } else { AddVia::Direct }) {
            if built.glyf.len() == *t {
                ctx.count("sized_sets_hit_target_exactly", 1);
            } else {
                ctx.label("sized_sets_missed_target", &format!("{:#x}->{:#x}", t, built.glyf.len()));
            }
        }
    }

    // ---- 6. bezpath -> glyph -> unscaled draw
    let n_draw = ctx.tier.pick(120_000usize, 2_500_000usize);
    for i in 0..n_draw {
        item += 1;
        if !ctx.mine(item) {
            continue;
        }
        let mut rng = Rng::derive(ctx.seed, "c09-draw", i as u64);
        ctx.count("cases:draw", 1);
        draw::check_draw_case(ctx, &mut rng);
    }

    // ---- 6a. composites (x/y-offset and point-matched components, nested, transformed) drawn in
    // both path styles, unscaled and scaled, against the reference placement
    compdraw::workload(ctx, &mut item);

    // ---- 6b. extreme sizes: 65535 points in one contour; 32766 one-point contours
    item += 1;
    if ctx.mine(item) {
        let pts: Vec<Pt> = (0..65535u32).map(|k| Pt { x: (k % 251) as i16, y: ((k / 251) as i16) - 100, on: k % 5 != 0 }).collect();
        let big = MGlyph::Simple { bbox: [0, -100, 250, 161], contours: vec![pts], instr: vec![] };
        ctx.count("cases:extreme-size-glyphs", 1);
        check_set(ctx, "extreme-65535-points", &[MGlyph::Empty, big], AddVia::Direct);
    }
    item += 1;
    if ctx.mine(item) {
        let contours: Vec<Vec<Pt>> = (0..32766u32).map(|k| vec![Pt { x: (k % 300) as i16, y: (k / 300) as i16, on: true }]).collect();
        let many = MGlyph::Simple { bbox: [0, 0, 299, 109], contours, instr: vec![1] };
        ctx.count("cases:extreme-size-glyphs", 1);
        check_set(ctx, "extreme-32766-contours", &[many], AddVia::Enum);
    }

    // ---- 7. probes at the domain edge
    item += 1;
    if ctx.mine(item) {
        probes(ctx);
    }
}
