//! Harness-side glyph model, canonical-length computation and an independent
//! glyf/loca decoder written from the OpenType specification (no read-fonts).
use font_types::{F2Dot14, GlyphId16};
use write_fonts::tables::glyf as w;

#[derive(Clone, Copy, Debug, PartialEq, Eq, Hash)]
pub struct Pt {
    pub x: i16,
    pub y: i16,
    pub on: bool,
}

#[derive(Clone, Copy, Debug, PartialEq, Eq, Hash)]
pub enum MAnchor {
    Offset(i16, i16),
    Point(u16, u16),
}

/// user-settable component flags in write-fonts' order
#[derive(Clone, Copy, Debug, PartialEq, Eq, Hash, Default)]
pub struct MFlags {
    pub round_xy_to_grid: bool,
    pub use_my_metrics: bool,
    pub scaled_component_offset: bool,
    pub unscaled_component_offset: bool,
    pub overlap_compound: bool,
}

#[derive(Clone, Debug, PartialEq, Eq, Hash)]
pub struct MComp {
    pub gid: u16,
    pub anchor: MAnchor,
    pub flags: MFlags,
    /// raw F2Dot14 bits: xx, yx, xy, yy
    pub xform: [i16; 4],
}

#[derive(Clone, Debug, PartialEq, Eq, Hash)]
pub enum MGlyph {
    Empty,
    Simple { bbox: [i16; 4], contours: Vec<Vec<Pt>>, instr: Vec<u8> },
    Composite { bbox: [i16; 4], comps: Vec<MComp>, instr: Vec<u8> },
}

pub const IDENT: [i16; 4] = [0x4000, 0, 0, 0x4000];

impl MGlyph {
    pub fn kind(&self) -> &'static str {
        match self {
            MGlyph::Empty => "empty",
            MGlyph::Simple { .. } => "simple",
            MGlyph::Composite { .. } => "composite",
        }
    }
    pub fn n_points(&self) -> usize {
        match self {
            MGlyph::Simple { contours, .. } => contours.iter().map(|c| c.len()).sum(),
            _ => 0,
        }
    }
}

pub fn to_bbox(b: [i16; 4]) -> w::Bbox {
    w::Bbox { x_min: b[0], y_min: b[1], x_max: b[2], y_max: b[3] }
}

pub fn to_simple(bbox: [i16; 4], contours: &[Vec<Pt>], instr: &[u8]) -> w::SimpleGlyph {
    w::SimpleGlyph {
        bbox: to_bbox(bbox),
        contours: contours
            .iter()
            .map(|c| w::Contour::from(c.iter().map(|p| read_fonts::tables::glyf::CurvePoint::new(p.x, p.y, p.on)).collect::<Vec<_>>()))
            .collect(),
        instructions: instr.to_vec(),
    }
}

pub fn to_component(c: &MComp) -> w::Component {
    let anchor = match c.anchor {
        MAnchor::Offset(x, y) => w::Anchor::Offset { x, y },
        MAnchor::Point(b, p) => w::Anchor::Point { base: b, component: p },
    };
    let transform = w::Transform {
        xx: F2Dot14::from_bits(c.xform[0]),
        yx: F2Dot14::from_bits(c.xform[1]),
        xy: F2Dot14::from_bits(c.xform[2]),
        yy: F2Dot14::from_bits(c.xform[3]),
    };
    let flags = w::ComponentFlags {
        round_xy_to_grid: c.flags.round_xy_to_grid,
        use_my_metrics: c.flags.use_my_metrics,
        scaled_component_offset: c.flags.scaled_component_offset,
        unscaled_component_offset: c.flags.unscaled_component_offset,
        overlap_compound: c.flags.overlap_compound,
    };
    w::Component::new(GlyphId16::new(c.gid), anchor, transform, flags)
}

// ------------------------------------------------------------------ spec constants
pub const F_ON: u8 = 0x01;
pub const F_XSHORT: u8 = 0x02;
pub const F_YSHORT: u8 = 0x04;
pub const F_REPEAT: u8 = 0x08;
pub const F_XSAME: u8 = 0x10;
pub const F_YSAME: u8 = 0x20;

pub const C_ARGS_WORDS: u16 = 0x0001;
pub const C_ARGS_XY: u16 = 0x0002;
pub const C_ROUND: u16 = 0x0004;
pub const C_SCALE: u16 = 0x0008;
pub const C_MORE: u16 = 0x0020;
pub const C_XY_SCALE: u16 = 0x0040;
pub const C_2X2: u16 = 0x0080;
pub const C_INSTR: u16 = 0x0100;
pub const C_MY_METRICS: u16 = 0x0200;
pub const C_OVERLAP: u16 = 0x0400;
pub const C_SCALED_OFF: u16 = 0x0800;
pub const C_UNSCALED_OFF: u16 = 0x1000;

// ------------------------------------------------------------------ canonical length

fn coord_bytes(d: i32) -> usize {
    if d == 0 {
        0
    } else if (-255..=255).contains(&d) {
        1
    } else {
        2
    }
}

/// minimal flag byte (without repeat) for a point given its deltas
fn min_flag(on: bool, dx: i32, dy: i32) -> u8 {
    let mut f = if on { F_ON } else { 0 };
    match coord_bytes(dx) {
        0 => f |= F_XSAME,
        1 => {
            f |= F_XSHORT;
            if dx > 0 {
                f |= F_XSAME
            }
        }
        _ => {}
    }
    match coord_bytes(dy) {
        0 => f |= F_YSAME,
        1 => {
            f |= F_YSHORT;
            if dy > 0 {
                f |= F_YSAME
            }
        }
        _ => {}
    }
    f
}

/// optimal run-length cost of a run of `l` identical flags: one (flag,repeat)
/// pair covers up to 256 points for 2 bytes.
fn run_cost(l: usize) -> usize {
    let q = l / 256;
    let r = l % 256;
    2 * q + match r {
        0 => 0,
        1 => 1,
        _ => 2,
    }
}

#[derive(Default, Clone, Debug)]
pub struct CanonStats {
    pub len: usize,
    pub flag_bytes: usize,
    pub max_flag_run: usize,
    pub n_short: usize,
    pub n_long: usize,
    pub n_same: usize,
}

/// Canonical shortest length (unpadded) of a simple glyph.
pub fn canonical_simple(contours: &[Vec<Pt>], instr: &[u8]) -> CanonStats {
    let mut st = CanonStats::default();
    let mut len = 10 + 2 * contours.len() + 2 + instr.len();
    let (mut lx, mut ly) = (0i32, 0i32);
    let mut prev_flag: Option<u8> = None;
    let mut run = 0usize;
    for p in contours.iter().flatten() {
        let dx = p.x as i32 - lx;
        let dy = p.y as i32 - ly;
        lx = p.x as i32;
        ly = p.y as i32;
        for d in [dx, dy] {
            match coord_bytes(d) {
                0 => st.n_same += 1,
                1 => st.n_short += 1,
                _ => st.n_long += 1,
            }
        }
        len += coord_bytes(dx) + coord_bytes(dy);
        let f = min_flag(p.on, dx, dy);
        if prev_flag == Some(f) {
            run += 1;
        } else {
            if run > 0 {
                st.flag_bytes += run_cost(run);
                st.max_flag_run = st.max_flag_run.max(run);
            }
            prev_flag = Some(f);
            run = 1;
        }
    }
    if prev_flag.is_some() {
        st.flag_bytes += run_cost(run);
        st.max_flag_run = st.max_flag_run.max(run);
    }
    st.len = len + st.flag_bytes;
    st
}

pub fn anchor_bytes(a: &MAnchor) -> usize {
    match a {
        MAnchor::Offset(x, y) => {
            if (-128..=127).contains(x) && (-128..=127).contains(y) {
                2
            } else {
                4
            }
        }
        MAnchor::Point(b, c) => {
            if *b <= 255 && *c <= 255 {
                2
            } else {
                4
            }
        }
    }
}

/// which transform encoding the values require: 0 none, 1 scale, 2 xy, 3 2x2
pub fn xform_class(x: &[i16; 4]) -> u8 {
    if x[1] != 0 || x[2] != 0 {
        3
    } else if x[0] != x[3] {
        2
    } else if x[0] != 0x4000 {
        1
    } else {
        0
    }
}

pub fn canonical_composite(comps: &[MComp], instr: &[u8]) -> usize {
    let mut len = 10;
    for c in comps {
        len += 4 + anchor_bytes(&c.anchor) + [0, 2, 4, 8][xform_class(&c.xform) as usize];
    }
    if !instr.is_empty() {
        len += 2 + instr.len();
    }
    len
}

/// The flag word the spec requires for a component (minimal argument width).
pub fn expected_comp_flags(c: &MComp, more: bool, instr: bool) -> u16 {
    let mut f = 0u16;
    if let MAnchor::Offset(..) = c.anchor {
        f |= C_ARGS_XY;
    }
    if anchor_bytes(&c.anchor) == 4 {
        f |= C_ARGS_WORDS;
    }
    f |= [0, C_SCALE, C_XY_SCALE, C_2X2][xform_class(&c.xform) as usize];
    if c.flags.round_xy_to_grid {
        f |= C_ROUND;
    }
    if c.flags.use_my_metrics {
        f |= C_MY_METRICS;
    }
    if c.flags.scaled_component_offset {
        f |= C_SCALED_OFF;
    }
    if c.flags.unscaled_component_offset {
        f |= C_UNSCALED_OFF;
    }
    if c.flags.overlap_compound {
        f |= C_OVERLAP;
    }
    if more {
        f |= C_MORE;
    }
    if instr {
        f |= C_INSTR;
    }
    f
}

/// Independent spec-level *encoder* for composites (used to obtain composites
/// with instructions through `CompositeGlyph::read`, the only public way).
pub fn encode_composite(bbox: [i16; 4], comps: &[MComp], instr: &[u8]) -> Vec<u8> {
    let mut v = vec![];
    v.extend_from_slice(&(-1i16).to_be_bytes());
    for b in bbox {
        v.extend_from_slice(&b.to_be_bytes());
    }
    for (i, c) in comps.iter().enumerate() {
        let last = i + 1 == comps.len();
        let f = expected_comp_flags(c, !last, last && !instr.is_empty());
        v.extend_from_slice(&f.to_be_bytes());
        v.extend_from_slice(&c.gid.to_be_bytes());
        let words = f & C_ARGS_WORDS != 0;
        match c.anchor {
            MAnchor::Offset(x, y) => {
                if words {
                    v.extend_from_slice(&x.to_be_bytes());
                    v.extend_from_slice(&y.to_be_bytes());
                } else {
                    v.push(x as i8 as u8);
                    v.push(y as i8 as u8);
                }
            }
            MAnchor::Point(b, p) => {
                if words {
                    v.extend_from_slice(&b.to_be_bytes());
                    v.extend_from_slice(&p.to_be_bytes());
                } else {
                    v.push(b as u8);
                    v.push(p as u8);
                }
            }
        }
        match xform_class(&c.xform) {
            1 => v.extend_from_slice(&c.xform[0].to_be_bytes()),
            2 => {
                v.extend_from_slice(&c.xform[0].to_be_bytes());
                v.extend_from_slice(&c.xform[3].to_be_bytes());
            }
            3 => {
                for x in c.xform {
                    v.extend_from_slice(&x.to_be_bytes());
                }
            }
            _ => {}
        }
    }
    if !instr.is_empty() {
        v.extend_from_slice(&(instr.len() as u16).to_be_bytes());
        v.extend_from_slice(instr);
    }
    v
}

// ------------------------------------------------------------------ independent decoder

struct Cur<'a> {
    b: &'a [u8],
    p: usize,
}

impl<'a> Cur<'a> {
    fn u8(&mut self) -> Result<u8, String> {
        let v = *self.b.get(self.p).ok_or_else(|| format!("read past end at {}", self.p))?;
        self.p += 1;
        Ok(v)
    }
    fn u16(&mut self) -> Result<u16, String> {
        Ok(((self.u8()? as u16) << 8) | self.u8()? as u16)
    }
    fn i16(&mut self) -> Result<i16, String> {
        Ok(self.u16()? as i16)
    }
    fn bytes(&mut self, n: usize) -> Result<&'a [u8], String> {
        let s = self.b.get(self.p..self.p + n).ok_or_else(|| format!("read {} bytes past end at {}", n, self.p))?;
        self.p += n;
        Ok(s)
    }
}

/// Decode loca per spec.
pub fn decode_loca(loca: &[u8], long: bool) -> Result<Vec<u32>, String> {
    if long {
        if loca.len() % 4 != 0 {
            return Err(format!("long loca length {} not a multiple of 4", loca.len()));
        }
        Ok(loca.chunks_exact(4).map(|c| u32::from_be_bytes([c[0], c[1], c[2], c[3]])).collect())
    } else {
        if loca.len() % 2 != 0 {
            return Err(format!("short loca length {} not a multiple of 2", loca.len()));
        }
        Ok(loca.chunks_exact(2).map(|c| u16::from_be_bytes([c[0], c[1]]) as u32 * 2).collect())
    }
}

/// Result of the independent decode plus the number of bytes consumed (before padding).
pub struct Decoded {
    pub glyph: MGlyph,
    pub consumed: usize,
    /// component flag words as stored (composites)
    pub raw_comp_flags: Vec<u16>,
    pub flag_bytes: usize,
    pub max_repeat_byte: u8,
}

/// Decode one glyph slot per the OpenType glyf specification.
pub fn decode_glyph(slot: &[u8]) -> Result<Decoded, String> {
    if slot.is_empty() {
        return Ok(Decoded { glyph: MGlyph::Empty, consumed: 0, raw_comp_flags: vec![], flag_bytes: 0, max_repeat_byte: 0 });
    }
    let mut c = Cur { b: slot, p: 0 };
    let n_contours = c.i16()?;
    let bbox = [c.i16()?, c.i16()?, c.i16()?, c.i16()?];
    if n_contours >= 0 {
        let mut ends = vec![];
        for _ in 0..n_contours {
            ends.push(c.u16()?);
        }
        let il = c.u16()? as usize;
        let instr = c.bytes(il)?.to_vec();
        let n_points = ends.last().map(|e| *e as usize + 1).unwrap_or(0);
        // flags
        let mut flags: Vec<u8> = Vec::with_capacity(n_points);
        let fstart = c.p;
        let mut max_rep = 0u8;
        while flags.len() < n_points {
            let f = c.u8()?;
            flags.push(f);
            if f & F_REPEAT != 0 {
                let r = c.u8()?;
                max_rep = max_rep.max(r);
                for _ in 0..r {
                    flags.push(f);
                }
            }
        }
        if flags.len() != n_points {
            return Err(format!("flag repeat overruns point count: {} flags for {} points", flags.len(), n_points));
        }
        let flag_bytes = c.p - fstart;
        let mut xs = Vec::with_capacity(n_points);
        let mut x = 0i32;
        for f in &flags {
            if f & F_XSHORT != 0 {
                let d = c.u8()? as i32;
                x += if f & F_XSAME != 0 { d } else { -d };
            } else if f & F_XSAME == 0 {
                x += c.i16()? as i32;
            }
            xs.push(x);
        }
        let mut ys = Vec::with_capacity(n_points);
        let mut y = 0i32;
        for f in &flags {
            if f & F_YSHORT != 0 {
                let d = c.u8()? as i32;
                y += if f & F_YSAME != 0 { d } else { -d };
            } else if f & F_YSAME == 0 {
                y += c.i16()? as i32;
            }
            ys.push(y);
        }
        let mut contours = vec![];
        let mut start = 0usize;
        for e in &ends {
            let end = *e as usize + 1;
            if end < start {
                return Err(format!("endPtsOfContours not ascending at {}", e));
            }
            let mut pts = vec![];
            for i in start..end {
                if xs[i] < i16::MIN as i32 || xs[i] > i16::MAX as i32 || ys[i] < i16::MIN as i32 || ys[i] > i16::MAX as i32 {
                    return Err(format!("decoded coordinate out of i16 range at point {}", i));
                }
                pts.push(Pt { x: xs[i] as i16, y: ys[i] as i16, on: flags[i] & F_ON != 0 });
            }
            contours.push(pts);
            start = end;
        }
        Ok(Decoded { glyph: MGlyph::Simple { bbox, contours, instr }, consumed: c.p, raw_comp_flags: vec![], flag_bytes, max_repeat_byte: max_rep })
    } else {
        let mut comps = vec![];
        let mut raw = vec![];
        let mut last_flags;
        loop {
            let f = c.u16()?;
            last_flags = f;
            raw.push(f);
            let gid = c.u16()?;
            let anchor = match (f & C_ARGS_XY != 0, f & C_ARGS_WORDS != 0) {
                (true, true) => MAnchor::Offset(c.i16()?, c.i16()?),
                (true, false) => MAnchor::Offset(c.u8()? as i8 as i16, c.u8()? as i8 as i16),
                (false, true) => MAnchor::Point(c.u16()?, c.u16()?),
                (false, false) => MAnchor::Point(c.u8()? as u16, c.u8()? as u16),
            };
            let mut xform = IDENT;
            if f & C_SCALE != 0 {
                xform[0] = c.i16()?;
                xform[3] = xform[0];
            } else if f & C_XY_SCALE != 0 {
                xform[0] = c.i16()?;
                xform[3] = c.i16()?;
            } else if f & C_2X2 != 0 {
                xform[0] = c.i16()?;
                xform[1] = c.i16()?;
                xform[2] = c.i16()?;
                xform[3] = c.i16()?;
            }
            comps.push(MComp {
                gid,
                anchor,
                flags: MFlags {
                    round_xy_to_grid: f & C_ROUND != 0,
                    use_my_metrics: f & C_MY_METRICS != 0,
                    scaled_component_offset: f & C_SCALED_OFF != 0,
                    unscaled_component_offset: f & C_UNSCALED_OFF != 0,
                    overlap_compound: f & C_OVERLAP != 0,
                },
                xform,
            });
            if f & C_MORE == 0 {
                break;
            }
            if comps.len() > 70000 {
                return Err("component list does not terminate".into());
            }
        }
        let instr = if last_flags & C_INSTR != 0 {
            let n = c.u16()? as usize;
            c.bytes(n)?.to_vec()
        } else {
            vec![]
        };
        Ok(Decoded { glyph: MGlyph::Composite { bbox, comps, instr }, consumed: c.p, raw_comp_flags: raw, flag_bytes: 0, max_repeat_byte: 0 })
    }
}
