fn main() {
    vf_core::main_with("C20", vf_c20::run, vf_c20::REPLAY);
}
