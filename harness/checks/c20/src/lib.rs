//! C20 — no arithmetic overflow or debug-assertion failure is reachable from
//! font data (DESIGN.md §3 C20).
//!
//! The sanitizer is the compiler's own instrumentation: this crate is only
//! ever built with `--profile strict` (opt-level 2, `-C overflow-checks=on
//! -C debug-assertions=on`: the configuration the project's fuzzers use). The
//! oracle is the panic monitor's classifier: a panic whose message class is
//! *overflow* ("attempt to … with overflow") or *debug-assert* violates C20;
//! every other panic belongs to the totality properties and is only counted.
//!
//! Workload = (1) arithmetic-directed **extreme-value substitution** written
//! here, driven through C01's walker (`vf_c01::walk_font`) and C02's skrifa
//! configuration product (`vf_c02::exercise_font`), and (2) the totality
//! workloads of C01 / C02 / C13 / C18 / C19 themselves, re-run in this build
//! with `ctx.policy = StrictOnly` and `ctx.panics_only = true` (their semantic
//! oracles are counted but not reported here).

use vf_core::gen::{be16, parse_dir, Patcher, TableRec};
use vf_core::{fnv64, Args, Ctx, Digest, PanicPolicy, Rng};

pub const REPLAY: Option<fn(&mut Ctx, &Args, &serde_json::Value, Option<&[u8]>)> = Some(replay);

/// 16-bit extremes (as signed and unsigned quantities).
const EXT16: [u16; 8] = [0x8000, 0x8001, 0xFFFF, 0x7FFF, 0x7FFE, 0x0000, 0x0001, 0xFFFE];
/// 32-bit extremes.
const EXT32: [u32; 6] = [0x8000_0000, 0x8000_0001, 0xFFFF_FFFF, 0x7FFF_FFFF, 0x7FFF_FFFE, 0];

/// (tag, start, end) header regions holding arithmetic-relevant fields.
fn regions(tag: &[u8; 4], len: usize) -> Vec<(usize, usize)> {
    let r = |a: usize, b: usize| (a.min(len), b.min(len));
    match tag {
        b"head" => vec![r(16, 54)],
        b"hhea" | b"vhea" => vec![r(4, 36)],
        b"maxp" => vec![r(4, 32)],
        b"OS/2" => vec![r(2, 100)],
        b"post" => vec![r(4, 16)],
        b"hmtx" | b"vmtx" => vec![r(0, 64), r(len.saturating_sub(32), len)],
        b"fvar" => vec![r(4, 96)],
        b"avar" => vec![r(4, 96)],
        b"HVAR" | b"VVAR" | b"MVAR" => vec![r(0, 128)],
        b"gvar" => vec![r(4, 64)],
        b"cvar" => vec![r(0, 64)],
        b"cvt " => vec![r(0, 64)],
        b"VORG" => vec![r(0, 32)],
        b"COLR" => vec![r(0, 34), r(34, 34 + 192)],
        b"CPAL" => vec![r(0, 32)],
        b"CBLC" | b"EBLC" | b"sbix" => vec![r(0, 96)],
        b"GDEF" | b"BASE" => vec![r(0, 64)],
        b"kern" => vec![r(0, 64)],
        b"CFF " | b"CFF2" => vec![r(0, 256)],
        b"STAT" => vec![r(0, 48)],
        b"VARC" => vec![r(0, 64)],
        _ => vec![],
    }
}

/// glyph header regions (numberOfContours + bbox + first coordinates) of the
/// first few glyphs, located through loca.
fn glyf_regions(bytes: &[u8], dir: &[TableRec]) -> Vec<(usize, usize)> {
    let find = |t: &[u8; 4]| dir.iter().find(|r| &r.tag == t);
    let (Some(head), Some(loca), Some(glyf)) = (find(b"head"), find(b"loca"), find(b"glyf")) else {
        return vec![];
    };
    let long = be16(bytes, head.offset as usize + 50).unwrap_or(0) != 0;
    let lr = loca.range(bytes.len());
    let gr = glyf.range(bytes.len());
    let mut v = vec![];
    let n = if long { lr.len() / 4 } else { lr.len() / 2 };
    let mut seen = 0;
    for i in 0..n.saturating_sub(1) {
        let off = |k: usize| -> usize {
            if long {
                vf_core::gen::be32(bytes, lr.start + 4 * k).unwrap_or(0) as usize
            } else {
                be16(bytes, lr.start + 2 * k).unwrap_or(0) as usize * 2
            }
        };
        let (a, b) = (off(i), off(i + 1));
        if b > a && gr.start + b <= gr.end {
            v.push((gr.start + a, (gr.start + a + 10 + 48).min(gr.start + b)));
            seen += 1;
            if seen >= 6 {
                break;
            }
        }
    }
    v
}

fn exercise(ctx: &mut Ctx, font: &str, what: &str, bytes: &[u8]) {
    ctx.eval();
    let label = format!("{}|{}", font, what);
    let mut d = Digest::new();
    d.str(font);
    d.str(what);
    ctx.nontrivial(d.finish());
    vf_c02::exercise_font(ctx, &label, bytes);
    vf_c01::walk_font(ctx, &label, bytes);
}

/// Arithmetic-directed extreme-value substitution on one font.
fn extreme_values(ctx: &mut Ctx, font_ix: usize, name: &str, orig: &[u8], item: &mut usize) {
    let dir = parse_dir(orig, 0);
    if dir.is_empty() {
        return;
    }
    let mut buf = orig.to_vec();
    let mut p = Patcher::new();
    let mut all_regions: Vec<([u8; 4], usize, usize)> = vec![];
    for rec in &dir {
        let tr = rec.range(orig.len());
        for (a, b) in regions(&rec.tag, tr.len()) {
            if b > a {
                all_regions.push((rec.tag, tr.start + a, tr.start + b));
            }
        }
    }
    for (a, b) in glyf_regions(orig, &dir) {
        all_regions.push((*b"glyf", a, b));
    }
    let single_stride = ctx.budget(5, 1);
    let combos = ctx.budget(6, 40);
    let cross = ctx.budget(8, 60);
    // (a) single field substitutions
    for (tag, a, b) in &all_regions {
        let tag_s = String::from_utf8_lossy(tag).to_string();
        let mut pos = *a;
        while pos + 2 <= *b {
            for (k, v) in EXT16.iter().enumerate() {
                *item += 1;
                if !ctx.mine(*item) || (*item / ctx.shard.1) % single_stride != 0 {
                    continue;
                }
                if be16(&buf, pos) == Some(*v) {
                    continue;
                }
                p.set16(&mut buf, pos, *v);
                ctx.count("mutants:single16", 1);
                exercise(ctx, name, &format!("{}:u16@{}={:#x}#{}", tag_s, pos, v, k), &buf);
                p.undo(&mut buf);
            }
            if (pos - *a) % 4 == 0 && pos + 4 <= *b {
                for v in EXT32 {
                    *item += 1;
                    if !ctx.mine(*item) || (*item / ctx.shard.1) % single_stride != 0 {
                        continue;
                    }
                    p.set32(&mut buf, pos, v);
                    ctx.count("mutants:single32", 1);
                    exercise(ctx, name, &format!("{}:u32@{}={:#x}", tag_s, pos, v), &buf);
                    p.undo(&mut buf);
                }
            }
            pos += 2;
        }
    }
    // (b) whole-region assignments: every 16-bit word of one region gets an
    // extreme (constant, alternating lo/hi, random) — differences and sums of
    // neighbouring fields (bbox extents, ascender − descender, ...) then overflow.
    for (ri, (tag, a, b)) in all_regions.iter().enumerate() {
        let tag_s = String::from_utf8_lossy(tag).to_string();
        for c in 0..combos {
            *item += 1;
            if !ctx.mine(*item) {
                continue;
            }
            let mut rng = Rng::derive(ctx.seed, "c20-region", (font_ix * 1000 + ri) as u64 * 64 + c as u64);
            let mode = c % 4;
            let mut pos = *a;
            let mut k = 0usize;
            let keep = rng.usize(4); // leave some words alone so the table still parses
            while pos + 2 <= *b {
                let v = match mode {
                    0 => EXT16[c / 4 % EXT16.len()],
                    1 => [0x8000u16, 0x7FFF][k % 2],
                    2 => [0x7FFFu16, 0x8000][k % 2],
                    _ => *rng.pick(&EXT16),
                };
                if !(mode == 3 && rng.usize(4) < keep) {
                    p.set16(&mut buf, pos, v);
                }
                pos += 2;
                k += 1;
            }
            ctx.count("mutants:region", 1);
            exercise(ctx, name, &format!("{}:region[{}..{}]:mode{}#{}", tag_s, a, b, mode, c), &buf);
            p.undo(&mut buf);
        }
    }
    // (c) cross-table: a few random extremes in several tables at once
    // (tiny upem with huge coordinates, huge advance with extreme lsb, ...)
    if !all_regions.is_empty() {
        for c in 0..cross {
            *item += 1;
            if !ctx.mine(*item) {
                continue;
            }
            let mut rng = Rng::derive(ctx.seed, "c20-cross", (font_ix as u64) << 20 | c as u64);
            let n = 2 + rng.usize(6);
            for _ in 0..n {
                let (_, a, b) = *rng.pick(&all_regions);
                if b < a + 2 {
                    continue;
                }
                let pos = a + 2 * rng.usize((b - a) / 2);
                if rng.chance(1, 4) && pos + 4 <= b {
                    p.set32(&mut buf, pos, *rng.pick(&EXT32));
                } else {
                    p.set16(&mut buf, pos, *rng.pick(&EXT16));
                }
            }
            // upem extremes are the classic divisor / scale source
            if let Some(head) = dir.iter().find(|r| &r.tag == b"head") {
                if rng.chance(1, 2) {
                    p.set16(&mut buf, head.offset as usize + 18, *rng.pick(&[0u16, 1, 16, 15, 0x4000, 0xFFFF, 0x8000]));
                }
            }
            let desc = p.describe();
            ctx.count("mutants:cross", 1);
            exercise(ctx, name, &format!("cross#{}:{}", c, desc), &buf);
            p.undo(&mut buf);
        }
    }
}

fn rule_text() -> String {
    "a case = one font byte string (extreme-value mutant, or an input of the re-run C01/C02/C13/C18/C19 workloads) driven through parsing, traversal, drawing (all hinting engines), metrics, colour, subsetting-plan and IFT operations in the overflow-checked, assertion-enabled build; non-trivial = distinct (font, mutation) digests of the extreme-value stage plus the re-run workloads' own non-trivial digests".into()
}

pub fn run(ctx: &mut Ctx, args: &Args) {
    ctx.policy = PanicPolicy::StrictOnly;
    ctx.panics_only = true;
    if !cfg!(debug_assertions) {
        ctx.inconclusive("C20 must be built with the strict profile (overflow checks + debug assertions)");
        return;
    }
    // --- stage 1: extreme values
    let fonts = vf_core::corpus_fonts();
    let mut item = 0usize;
    for (fi, f) in fonts.iter().enumerate() {
        // big real-world fonts: one in four shards' worth of work is plenty
        if f.data.len() > 300_000 && !ctx.tier.is_thorough() {
            continue;
        }
        if f.name.ends_with(".ttc") {
            continue;
        }
        extreme_values(ctx, fi, &f.name, &f.data, &mut item);
    }
    ctx.extra.insert("extreme_value_items_enumerated".into(), serde_json::json!(item));
    // --- stage 2: the totality workloads, re-run in this build
    let saved = ctx.scale;
    ctx.scale = if ctx.tier.is_thorough() { 1.0 } else { 0.35 };
    for (name, f) in [
        ("C01", vf_c01::workload as fn(&mut Ctx, &Args)),
        ("C02", vf_c02::workload as fn(&mut Ctx, &Args)),
        ("C13", vf_c13::run as fn(&mut Ctx, &Args)),
        ("C18", vf_c18::run as fn(&mut Ctx, &Args)),
        ("C19", vf_c19::run as fn(&mut Ctx, &Args)),
    ] {
        let before = ctx.elapsed_s();
        f(ctx, args);
        // the re-run workloads may have changed policy / labels: restore ours
        ctx.policy = PanicPolicy::StrictOnly;
        ctx.panics_only = true;
        let dt = ctx.elapsed_s() - before;
        ctx.extra.insert(format!("rerun_{}_wall_s", name), serde_json::json!((dt * 10.0).round() / 10.0));
    }
    ctx.scale = saved;
    ctx.rule = rule_text();
    ctx.level = "exploration".into();
    ctx.assumptions = vec![
        "the panic-message classifier recognises rustc's overflow checks ('attempt to … with overflow') and assertion failures".into(),
        "the re-run workloads judge panics only through Ctx::judge_panic; their semantic oracles are ignored here (panics_only)".into(),
    ];
}

fn replay(ctx: &mut Ctx, _args: &Args, rec: &serde_json::Value, input: Option<&[u8]>) {
    ctx.policy = PanicPolicy::StrictOnly;
    ctx.panics_only = true;
    ctx.rule = rule_text();
    let Some(bytes) = input else {
        ctx.inconclusive("replay record has no input bytes");
        return;
    };
    let label = rec["detail"]["case"].to_string();
    ctx.eval();
    ctx.nontrivial(fnv64(bytes));
    ctx.nontrivial(fnv64(bytes) ^ 1);
    vf_c02::exercise_font(ctx, &label, bytes);
    vf_c01::walk_font(ctx, &label, bytes);
}
