//! Abstract IFT mapping tables / fonts / patches and their ENCODERS.
//!
//! Everything here is written against the byte layouts of the IFT
//! specification (mirroring the builders in font-test-data/src/ift.rs); no
//! library parsing code is used, so the reference model (model.rs) always
//! works on the abstract values the generator produced and never on bytes.

use std::collections::BTreeSet;

pub type T4 = [u8; 4];

pub fn t4s(t: &T4) -> String {
    String::from_utf8_lossy(t).to_string()
}

// ------------------------------------------------------------------ sparse bit set

#[derive(Clone, Debug, PartialEq, Eq)]
pub struct CpEnc {
    /// branch factor: 2, 4, 8 or 32
    pub bf: u8,
    /// extra tree height above the minimum needed
    pub extra_height: u8,
    /// use the "all zero node = completely filled" short form where possible
    pub fill: bool,
}

pub fn bf_max_height(bf: u8) -> u8 {
    match bf {
        2 => 31,
        4 => 16,
        8 => 11,
        _ => 7,
    }
}

fn bf_log2(bf: u8) -> u32 {
    match bf {
        2 => 1,
        4 => 2,
        8 => 3,
        _ => 5,
    }
}

/// minimal height so that bf^height > max
pub fn min_height(bf: u8, max: u32) -> u8 {
    let mut h = 1u8;
    let mut m = (max as u64) >> bf_log2(bf);
    while m != 0 {
        h += 1;
        m >>= bf_log2(bf);
    }
    h
}

struct BitW {
    out: Vec<u8>,
    bf: u8,
    sub: u32,
}

impl BitW {
    fn node(&mut self, bits: u32) {
        match self.bf {
            2 | 4 => {
                let w = self.bf as u32; // bits per node
                if self.sub == 0 {
                    self.out.push(0);
                }
                let l = self.out.len() - 1;
                self.out[l] |= ((bits & ((1 << w) - 1)) << self.sub) as u8;
                self.sub = (self.sub + w) % 8;
            }
            8 => self.out.push(bits as u8),
            _ => self.out.extend_from_slice(&bits.to_le_bytes()),
        }
    }
}

/// Encode `vals` as an IFT sparse bit set (header byte + BFS node stream).
pub fn encode_sbs(vals: &BTreeSet<u32>, enc: &CpEnc) -> Vec<u8> {
    let bf = enc.bf;
    let bf_id = match bf {
        2 => 0u8,
        4 => 1,
        8 => 2,
        _ => 3,
    };
    let Some(&max) = vals.iter().next_back() else {
        // the empty set can only be written with height 0
        return vec![bf_id];
    };
    let height = (min_height(bf, max) as u32 + enc.extra_height as u32).min(bf_max_height(bf) as u32) as u8;
    let mut w = BitW { out: vec![(height << 2) | bf_id], bf, sub: 0 };
    let lg = bf_log2(bf);
    // queue of (start, depth)
    let mut queue: std::collections::VecDeque<(u64, u32)> = Default::default();
    queue.push_back((0, 1));
    while let Some((start, depth)) = queue.pop_front() {
        let node_bits = lg * (height as u32 - depth + 1);
        let node_size: u64 = 1u64 << node_bits;
        if enc.fill {
            let end = start + node_size - 1;
            if end <= u32::MAX as u64 {
                let cnt = vals.range(start as u32..=end as u32).count() as u64;
                if cnt == node_size {
                    w.node(0);
                    continue;
                }
            }
        }
        let child_size: u64 = 1u64 << (lg * (height as u32 - depth));
        let mut bits = 0u32;
        for i in 0..bf as u64 {
            let cs = start + i * child_size;
            let ce = cs + child_size - 1;
            if cs > u32::MAX as u64 {
                break;
            }
            let ce = ce.min(u32::MAX as u64);
            if vals.range(cs as u32..=ce as u32).next().is_some() {
                bits |= 1 << i;
                if depth < height as u32 {
                    queue.push_back((cs, depth + 1));
                }
            }
        }
        w.node(bits);
    }
    w.out
}

// ------------------------------------------------------------------ format 2

#[derive(Clone, Debug, PartialEq, Eq)]
pub enum CpSpec {
    /// both code point format bits clear
    Absent,
    /// kind 1: BIT_1 (no bias), 2: BIT_2 (u16 bias), 3: both (u24 bias)
    Present { kind: u8, bias: u32, rel: BTreeSet<u32>, enc: CpEnc },
}

#[derive(Clone, Debug, PartialEq, Eq)]
pub enum IdSpec {
    None,
    /// numeric ids: int24 delta
    Delta(i32),
    /// string ids: u16 length + bytes in the id string data
    Str(Vec<u8>),
}

#[derive(Clone, Debug, PartialEq, Eq)]
pub struct Entry2 {
    /// FEATURES_AND_DESIGN_SPACE: (feature tags, segments (axis, start, end) as raw 16.16)
    pub fds: Option<(Vec<T4>, Vec<(T4, i32, i32)>)>,
    /// CHILD_INDICES: (conjunctive, indices)
    pub children: Option<(bool, Vec<u32>)>,
    pub id: IdSpec,
    pub patch_format: Option<u8>,
    pub cps: CpSpec,
    pub ignored: bool,
}

#[derive(Clone, Debug, PartialEq, Eq)]
pub struct Table2 {
    pub compat: [u8; 16],
    pub default_format: u8,
    pub template: Vec<u8>,
    pub string_ids: bool,
    pub entries: Vec<Entry2>,
    /// field flags (bit0: cff offset, bit1: cff2 offset present)
    pub field_flags: u8,
    /// malformed: remove this many bytes from the end of the table (only without string ids)
    pub truncate: usize,
    /// extra unused bytes after the id string data
    pub string_pad: usize,
    /// malformed: remove this many bytes from the end of the id string data (incl. pad)
    pub string_cut: usize,
}

fn push_u24(out: &mut Vec<u8>, v: u32) {
    out.extend_from_slice(&v.to_be_bytes()[1..]);
}

pub fn encode_entry2(e: &Entry2, out: &mut Vec<u8>) {
    let mut flags = 0u8;
    if e.fds.is_some() {
        flags |= 0x01;
    }
    if e.children.is_some() {
        flags |= 0x02;
    }
    if e.id != IdSpec::None {
        flags |= 0x04;
    }
    if e.patch_format.is_some() {
        flags |= 0x08;
    }
    if let CpSpec::Present { kind, .. } = &e.cps {
        flags |= match kind {
            1 => 0x10,
            2 => 0x20,
            _ => 0x30,
        };
    }
    if e.ignored {
        flags |= 0x40;
    }
    out.push(flags);
    if let Some((feats, segs)) = &e.fds {
        out.push(feats.len() as u8);
        for f in feats {
            out.extend_from_slice(f);
        }
        out.extend_from_slice(&(segs.len() as u16).to_be_bytes());
        for (t, s, en) in segs {
            out.extend_from_slice(t);
            out.extend_from_slice(&s.to_be_bytes());
            out.extend_from_slice(&en.to_be_bytes());
        }
    }
    if let Some((conj, idx)) = &e.children {
        out.push(((*conj as u8) << 7) | (idx.len() as u8 & 0x7f));
        for i in idx {
            push_u24(out, *i);
        }
    }
    match &e.id {
        IdSpec::None => {}
        IdSpec::Delta(d) => push_u24(out, (*d as u32) & 0xff_ffff),
        IdSpec::Str(s) => out.extend_from_slice(&(s.len() as u16).to_be_bytes()),
    }
    if let Some(f) = e.patch_format {
        out.push(f);
    }
    if let CpSpec::Present { kind, bias, rel, enc } = &e.cps {
        match kind {
            1 => {}
            2 => out.extend_from_slice(&(*bias as u16).to_be_bytes()),
            _ => push_u24(out, *bias),
        }
        out.extend_from_slice(&encode_sbs(rel, enc));
    }
}

#[derive(Clone, Debug, Default)]
pub struct Layout {
    /// format 2: offset of each entry's flag byte; format 1: empty
    pub entry_start: Vec<usize>,
    /// format 1: offset of the applied-entries bitmap
    pub bitmap_start: usize,
}

impl Table2 {
    pub fn encode(&self) -> (Vec<u8>, Layout) {
        let mut b = vec![2u8, 0, 0, 0, self.field_flags];
        b.extend_from_slice(&self.compat);
        b.push(self.default_format);
        push_u24(&mut b, self.entries.len() as u32);
        let off_pos = b.len();
        b.extend_from_slice(&[0; 8]); // entries offset, id string data offset
        b.extend_from_slice(&(self.template.len() as u16).to_be_bytes());
        b.extend_from_slice(&self.template);
        if self.field_flags & 1 != 0 {
            b.extend_from_slice(&456u32.to_be_bytes());
        }
        if self.field_flags & 2 != 0 {
            b.extend_from_slice(&789u32.to_be_bytes());
        }
        let entries_off = b.len() as u32;
        b[off_pos..off_pos + 4].copy_from_slice(&entries_off.to_be_bytes());
        let mut lay = Layout::default();
        for e in &self.entries {
            lay.entry_start.push(b.len());
            encode_entry2(e, &mut b);
        }
        if self.string_ids {
            let soff = b.len() as u32;
            b[off_pos + 4..off_pos + 8].copy_from_slice(&soff.to_be_bytes());
            let mut sd = vec![];
            for e in &self.entries {
                if let IdSpec::Str(s) = &e.id {
                    sd.extend_from_slice(s);
                }
            }
            sd.extend(std::iter::repeat(0xEE).take(self.string_pad));
            let keep = sd.len().saturating_sub(self.string_cut);
            b.extend_from_slice(&sd[..keep]);
        } else if self.truncate > 0 {
            let keep = b.len().saturating_sub(self.truncate);
            b.truncate(keep);
        }
        (b, lay)
    }
}

// ------------------------------------------------------------------ format 1

#[derive(Clone, Debug, PartialEq, Eq)]
pub struct FeatRec {
    pub tag: T4,
    pub first_new: u16,
    pub maps: Vec<(u16, u16)>,
}

#[derive(Clone, Debug, PartialEq, Eq)]
pub struct Table1 {
    pub compat: [u8; 16],
    pub max_entry: u16,
    pub max_gm: u16,
    pub glyph_count: u32,
    pub first_mapped: u16,
    /// entry index for gids first_mapped..glyph_count
    pub entry_index: Vec<u16>,
    pub feature_map: Option<Vec<FeatRec>>,
    /// set bits of the applied entries bitmap
    pub applied: BTreeSet<u16>,
    pub template: Vec<u8>,
    pub patch_format: u8,
    pub field_flags: u8,
}

pub const F1_BITMAP_START: usize = 36;

impl Table1 {
    pub fn width(&self) -> usize {
        if self.max_entry < 256 {
            1
        } else {
            2
        }
    }
    pub fn bitmap_len(&self) -> usize {
        (self.max_entry as usize + 1).div_ceil(8)
    }
    pub fn encode(&self) -> (Vec<u8>, Layout) {
        let w = self.width();
        let put = |b: &mut Vec<u8>, v: u16| {
            if w == 1 {
                b.push(v as u8)
            } else {
                b.extend_from_slice(&v.to_be_bytes())
            }
        };
        let mut b = vec![1u8, 0, 0, 0, self.field_flags];
        b.extend_from_slice(&self.compat);
        b.extend_from_slice(&self.max_entry.to_be_bytes());
        b.extend_from_slice(&self.max_gm.to_be_bytes());
        push_u24(&mut b, self.glyph_count);
        let off_pos = b.len();
        b.extend_from_slice(&[0; 8]);
        debug_assert_eq!(b.len(), F1_BITMAP_START);
        let mut bm = vec![0u8; self.bitmap_len()];
        for a in &self.applied {
            let byte = *a as usize / 8;
            if byte < bm.len() {
                bm[byte] |= 1 << (a % 8);
            }
        }
        b.extend_from_slice(&bm);
        b.extend_from_slice(&(self.template.len() as u16).to_be_bytes());
        b.extend_from_slice(&self.template);
        b.push(self.patch_format);
        if self.field_flags & 1 != 0 {
            b.extend_from_slice(&456u32.to_be_bytes());
        }
        if self.field_flags & 2 != 0 {
            b.extend_from_slice(&789u32.to_be_bytes());
        }
        let gm_off = b.len() as u32;
        b[off_pos..off_pos + 4].copy_from_slice(&gm_off.to_be_bytes());
        b.extend_from_slice(&self.first_mapped.to_be_bytes());
        for e in &self.entry_index {
            put(&mut b, *e);
        }
        if let Some(fm) = &self.feature_map {
            let fm_off = b.len() as u32;
            b[off_pos + 4..off_pos + 8].copy_from_slice(&fm_off.to_be_bytes());
            b.extend_from_slice(&(fm.len() as u16).to_be_bytes());
            for r in fm {
                b.extend_from_slice(&r.tag);
                put(&mut b, r.first_new);
                put(&mut b, r.maps.len() as u16);
            }
            for r in fm {
                for (f, l) in &r.maps {
                    put(&mut b, *f);
                    put(&mut b, *l);
                }
            }
        }
        (b, Layout { entry_start: vec![], bitmap_start: F1_BITMAP_START })
    }
}

// ------------------------------------------------------------------ font

#[derive(Clone, Debug, PartialEq, Eq)]
pub enum AbsTable {
    F1(Table1),
    F2(Table2),
}

impl AbsTable {
    pub fn encode(&self) -> (Vec<u8>, Layout) {
        match self {
            AbsTable::F1(t) => t.encode(),
            AbsTable::F2(t) => t.encode(),
        }
    }
    pub fn compat(&self) -> [u8; 16] {
        match self {
            AbsTable::F1(t) => t.compat,
            AbsTable::F2(t) => t.compat,
        }
    }
    pub fn set_compat(&mut self, c: [u8; 16]) {
        match self {
            AbsTable::F1(t) => t.compat = c,
            AbsTable::F2(t) => t.compat = c,
        }
    }
    /// number of mapping entries (for the termination bound)
    pub fn entry_count(&self) -> usize {
        match self {
            AbsTable::F1(t) => t.max_entry as usize,
            AbsTable::F2(t) => t.entries.len(),
        }
    }
    /// Mark entry `idx` (format 2: order; format 1: entry index) as applied.
    pub fn mark(&mut self, idx: usize) {
        match self {
            AbsTable::F1(t) => {
                t.applied.insert(idx as u16);
            }
            AbsTable::F2(t) => {
                if let Some(e) = t.entries.get_mut(idx) {
                    e.ignored = true;
                }
            }
        }
    }
}

#[derive(Clone, Debug)]
pub struct AbsFont {
    pub num_glyphs: u16,
    /// (code point, gid); gid in 1..num_glyphs, code points are valid chars
    pub cmap: Vec<(u32, u16)>,
    pub ift: Option<AbsTable>,
    pub iftx: Option<AbsTable>,
}

pub const IFT: T4 = *b"IFT ";
pub const IFTX: T4 = *b"IFTX";

impl AbsFont {
    pub fn table(&self, which: usize) -> Option<&AbsTable> {
        if which == 0 {
            self.ift.as_ref()
        } else {
            self.iftx.as_ref()
        }
    }
    pub fn table_mut(&mut self, which: usize) -> Option<&mut AbsTable> {
        if which == 0 {
            self.ift.as_mut()
        } else {
            self.iftx.as_mut()
        }
    }
    pub fn total_entries(&self) -> usize {
        self.ift.as_ref().map_or(0, |t| t.entry_count()) + self.iftx.as_ref().map_or(0, |t| t.entry_count())
    }

    pub fn cmap_bytes(&self) -> Vec<u8> {
        use write_fonts::tables::cmap::Cmap;
        let maps: Vec<(char, font_types::GlyphId)> = self
            .cmap
            .iter()
            .filter_map(|(cp, g)| char::from_u32(*cp).map(|c| (c, font_types::GlyphId::new(*g as u32))))
            .collect();
        // the generator guarantees conflict-free mappings
        let cmap = Cmap::from_mappings(maps).expect("generator: cmap conflict");
        write_fonts::dump_table(&cmap).expect("generator: cmap dump")
    }

    pub fn build(&self) -> Vec<u8> {
        use font_types::Tag;
        use write_fonts::FontBuilder;
        let mut fb = FontBuilder::new();
        if let Some(t) = &self.ift {
            fb.add_raw(Tag::new(&IFT), t.encode().0);
        }
        if let Some(t) = &self.iftx {
            fb.add_raw(Tag::new(&IFTX), t.encode().0);
        }
        let mut maxp = vec![0u8, 0, 0x50, 0];
        maxp.extend_from_slice(&self.num_glyphs.to_be_bytes());
        fb.add_raw(Tag::new(b"maxp"), maxp);
        fb.add_raw(Tag::new(b"cmap"), self.cmap_bytes());
        fb.add_raw(Tag::new(b"tab1"), b"abcdef\n".to_vec());
        fb.build()
    }
}

// ------------------------------------------------------------------ patches

/// A valid brotli stream consisting of uncompressed (stored) meta-blocks.
pub fn brotli_stored(data: &[u8]) -> Vec<u8> {
    if data.is_empty() {
        return vec![0x06]; // WBITS=16, ISLAST, ISLASTEMPTY
    }
    let mut out = vec![];
    let mut first = true;
    for chunk in data.chunks(65536) {
        let mlen1 = (chunk.len() - 1) as u32;
        let v: u32 = if first {
            // bit0 WBITS(0 => 16), bit1 ISLAST=0, bits2-3 MNIBBLES=0 (4 nibbles), 16 bits MLEN-1, ISUNCOMPRESSED=1
            (mlen1 << 4) | (1 << 20)
        } else {
            // bit0 ISLAST=0, bits1-2 MNIBBLES=0, 16 bits MLEN-1, ISUNCOMPRESSED=1
            (mlen1 << 3) | (1 << 19)
        };
        out.extend_from_slice(&v.to_le_bytes()[..3]);
        out.extend_from_slice(chunk);
        first = false;
    }
    out.push(0x03); // ISLAST=1, ISLASTEMPTY=1
    out
}

/// Glyph keyed patch touching no glyph data (no tables, or only a table tag
/// the patcher ignores): applying it only sets the application bits.
pub fn glyph_keyed_patch(compat: &[u8; 16], with_unknown_table: bool) -> Vec<u8> {
    let mut raw = vec![];
    raw.extend_from_slice(&0u32.to_be_bytes()); // glyph count
    raw.push(with_unknown_table as u8); // table count
    if with_unknown_table {
        raw.extend_from_slice(b"zzzz");
    }
    let end = (raw.len() + 4) as u32;
    raw.extend_from_slice(&end.to_be_bytes()); // glyph_count * table_count + 1 offsets
    let mut p = b"ifgk".to_vec();
    p.extend_from_slice(&[0; 4]);
    p.push(0); // flags: u16 gids
    p.extend_from_slice(compat);
    p.extend_from_slice(&(raw.len() as u32).to_be_bytes());
    p.extend_from_slice(&brotli_stored(&raw));
    p
}

/// Table keyed patch replacing whole tables (REPLACE_TABLE, stored brotli).
pub fn table_keyed_patch(compat: &[u8; 16], replacements: &[(T4, Vec<u8>)]) -> Vec<u8> {
    let mut p = b"iftk".to_vec();
    p.extend_from_slice(&[0; 4]);
    p.extend_from_slice(compat);
    p.extend_from_slice(&(replacements.len() as u16).to_be_bytes());
    let off_pos = p.len();
    p.extend(std::iter::repeat(0).take(4 * (replacements.len() + 1)));
    for (i, (tag, data)) in replacements.iter().enumerate() {
        let o = p.len() as u32;
        p[off_pos + 4 * i..off_pos + 4 * i + 4].copy_from_slice(&o.to_be_bytes());
        p.extend_from_slice(tag);
        p.push(1); // REPLACE_TABLE
        p.extend_from_slice(&(data.len() as u32).to_be_bytes());
        p.extend_from_slice(&brotli_stored(data));
    }
    let o = p.len() as u32;
    let i = replacements.len();
    p[off_pos + 4 * i..off_pos + 4 * i + 4].copy_from_slice(&o.to_be_bytes());
    p
}
