//! Reference model: a direct transcription of the IFT specification's
//! "check entry intersection" rule, the format-1 glyph/feature map
//! interpretation, URI template expansion and the patch-selection criteria,
//! evaluated over ABSTRACT tables (never over bytes).

use crate::abs::*;
use std::cmp::Ordering;
use std::collections::{BTreeMap, BTreeSet};

// ------------------------------------------------------------------ definitions

#[derive(Clone, Debug, PartialEq, Eq)]
pub struct CpDef {
    /// true: every code point except `items`
    pub inverted: bool,
    pub items: BTreeSet<u32>,
}

impl CpDef {
    pub fn contains(&self, cp: u32) -> bool {
        self.items.contains(&cp) != self.inverted
    }
    pub fn is_empty(&self) -> bool {
        !self.inverted && self.items.is_empty()
    }
}

#[derive(Clone, Debug, PartialEq, Eq)]
pub struct Def {
    pub cps: CpDef,
    /// None = all features
    pub feats: Option<BTreeSet<T4>>,
    /// None = all of design space; ranges are raw 16.16, inclusive
    pub design: Option<BTreeMap<T4, Vec<(i32, i32)>>>,
}

impl Def {
    pub fn all() -> Def {
        Def { cps: CpDef { inverted: true, items: Default::default() }, feats: None, design: None }
    }
    pub fn kind(&self) -> String {
        format!(
            "cp:{}{}|f:{}|ds:{}",
            if self.cps.inverted { "inv" } else { "set" },
            if self.cps.items.is_empty() { "0" } else { "n" },
            match &self.feats {
                None => "all",
                Some(s) if s.is_empty() => "0",
                _ => "n",
            },
            match &self.design {
                None => "all",
                Some(s) if s.is_empty() => "0",
                _ => "n",
            }
        )
    }
    /// self ⊆ other (as subset definitions)
    pub fn subset_of(&self, o: &Def) -> bool {
        let cps = match (self.cps.inverted, o.cps.inverted) {
            (false, _) => self.cps.items.iter().all(|c| o.cps.contains(*c)),
            (true, true) => o.cps.items.is_subset(&self.cps.items),
            (true, false) => false,
        };
        let feats = match (&self.feats, &o.feats) {
            (_, None) => true,
            (None, Some(_)) => false,
            (Some(a), Some(b)) => a.is_subset(b),
        };
        let ds = match (&self.design, &o.design) {
            (_, None) => true,
            (None, Some(_)) => false,
            (Some(a), Some(b)) => a.iter().all(|(t, ra)| {
                let mb = merge_ranges(b.get(t).cloned().unwrap_or_default());
                merge_ranges(ra.clone()).iter().all(|r| mb.iter().any(|m| m.0 <= r.0 && r.1 <= m.1))
            }),
        };
        cps && feats && ds
    }
}

/// Union of inclusive raw 16.16 ranges; overlapping and adjacent (end + epsilon
/// == start) ranges merge; malformed (start > end) ranges are dropped.
pub fn merge_ranges(mut v: Vec<(i32, i32)>) -> Vec<(i32, i32)> {
    v.retain(|r| r.0 <= r.1);
    v.sort();
    let mut out: Vec<(i32, i32)> = vec![];
    for r in v {
        if let Some(l) = out.last_mut() {
            if r.0 as i64 <= l.1 as i64 + 1 {
                l.1 = l.1.max(r.1);
                continue;
            }
        }
        out.push(r);
    }
    out
}

fn intersect_ranges(a: &[(i32, i32)], b: &[(i32, i32)]) -> Vec<(i32, i32)> {
    let mut out = vec![];
    for x in a {
        for y in b {
            if x.0 <= y.1 && y.0 <= x.1 {
                out.push((x.0.max(y.0), x.1.min(y.1)));
            }
        }
    }
    merge_ranges(out)
}

fn total_len(r: &[(i32, i32)]) -> i32 {
    // 16.16 arithmetic in font-types wraps
    r.iter().fold(0i32, |acc, x| acc.wrapping_add(x.1.wrapping_sub(x.0)))
}

// ------------------------------------------------------------------ candidates

#[derive(Clone, Copy, Debug, PartialEq, Eq, PartialOrd, Ord, Hash)]
pub enum Fmt {
    Full,
    Partial,
    Glyph,
}

impl Fmt {
    pub fn from_number(n: u8) -> Option<Fmt> {
        match n {
            1 => Some(Fmt::Full),
            2 => Some(Fmt::Partial),
            3 => Some(Fmt::Glyph),
            _ => None,
        }
    }
    pub fn invalidating(&self) -> bool {
        *self != Fmt::Glyph
    }
}

#[derive(Clone, Debug, PartialEq, Eq, Default)]
pub struct Info {
    pub cps: u64,
    pub feats: usize,
    pub ds: Vec<(T4, i32)>,
    pub order: usize,
}

impl Info {
    /// Spec "invalidating patch selection": larger intersection first (code
    /// points, then layout tags, then design space), ties: lowest entry order.
    pub fn cmp_priority(&self, o: &Info) -> Ordering {
        self.cps
            .cmp(&o.cps)
            .then(self.feats.cmp(&o.feats))
            .then_with(|| self.ds.cmp(&o.ds))
            .then(o.order.cmp(&self.order))
    }
}

#[derive(Clone, Debug)]
pub struct Cand {
    /// 0 = "IFT ", 1 = "IFTX"
    pub table: usize,
    pub compat: [u8; 16],
    /// format 2: entry order; format 1: entry index
    pub idx: usize,
    pub uri: Result<String, ()>,
    pub fmt: Fmt,
    pub info: Info,
    pub bit_index: usize,
}

// ------------------------------------------------------------------ uri templates

fn base32hex(data: &[u8]) -> String {
    const A: &[u8] = b"0123456789ABCDEFGHIJKLMNOPQRSTUV";
    let mut out = String::new();
    let mut acc: u32 = 0;
    let mut n = 0;
    for b in data {
        acc = (acc << 8) | *b as u32;
        n += 8;
        while n >= 5 {
            out.push(A[((acc >> (n - 5)) & 31) as usize] as char);
            n -= 5;
        }
    }
    if n > 0 {
        out.push(A[((acc << (5 - n)) & 31) as usize] as char);
    }
    out
}

fn base64url_padded(data: &[u8]) -> String {
    const A: &[u8] = b"ABCDEFGHIJKLMNOPQRSTUVWXYZabcdefghijklmnopqrstuvwxyz0123456789-_";
    let mut out = String::new();
    for c in data.chunks(3) {
        let v = (c[0] as u32) << 16 | (*c.get(1).unwrap_or(&0) as u32) << 8 | *c.get(2).unwrap_or(&0) as u32;
        out.push(A[(v >> 18) as usize & 63] as char);
        out.push(A[(v >> 12) as usize & 63] as char);
        if c.len() > 1 {
            out.push(A[(v >> 6) as usize & 63] as char);
        } else {
            out.push('=');
        }
        if c.len() > 2 {
            out.push(A[v as usize & 63] as char);
        } else {
            out.push('=');
        }
    }
    out
}

#[derive(Clone, Debug, PartialEq, Eq)]
pub enum Id {
    Num(u32),
    Str(Vec<u8>),
}

fn unreserved(b: u8) -> bool {
    b.is_ascii_alphanumeric() || matches!(b, b'-' | b'.' | b'_' | b'~')
}

fn reserved(b: u8) -> bool {
    matches!(
        b,
        b':' | b'/' | b'?' | b'#' | b'[' | b']' | b'@' | b'!' | b'$' | b'&' | b'\'' | b'(' | b')' | b'*' | b'+' | b',' | b';' | b'='
    )
}

fn literal_allowed(b: u8) -> bool {
    // RFC 6570 section 2.1
    matches!(b, 0x21 | 0x23..=0x24 | 0x26 | 0x28..=0x3B | 0x3D | 0x3F..=0x5B | 0x5D | 0x5F | 0x61..=0x7A | 0x7E) || b > 0x7F
}

/// IFT URI template expansion (level-1 RFC 6570 with variables id, id64, d1..d4).
pub fn expand(template: &str, id: &Id) -> Result<String, ()> {
    let bytes: Vec<u8> = match id {
        Id::Num(n) => {
            let b = n.to_be_bytes();
            let skip = b.iter().take_while(|x| **x == 0).count().min(3);
            b[skip..].to_vec()
        }
        Id::Str(s) => s.clone(),
    };
    let idv = base32hex(&bytes);
    let mut id64 = String::new();
    for c in base64url_padded(&bytes).bytes() {
        if unreserved(c) {
            id64.push(c as char);
        } else {
            id64.push_str(&format!("%{:02X}", c));
        }
    }
    let t = template.as_bytes();
    let mut out = String::new();
    let mut i = 0;
    while i < t.len() {
        let b = t[i];
        if b == b'{' {
            let Some(close) = t[i + 1..].iter().position(|x| *x == b'}') else {
                return Err(());
            };
            let name = &t[i + 1..i + 1 + close];
            match name {
                b"id" => out.push_str(&idv),
                b"id64" => out.push_str(&id64),
                b"d1" | b"d2" | b"d3" | b"d4" => {
                    let d = (name[1] - b'0') as usize;
                    let ch = idv.len().checked_sub(d).and_then(|k| idv.as_bytes().get(k)).copied().unwrap_or(b'_');
                    out.push(ch as char);
                }
                _ => return Err(()),
            }
            i += close + 2;
        } else if b == b'%' {
            if i + 2 >= t.len() {
                return Err(());
            }
            let (h1, h2) = (t[i + 1], t[i + 2]);
            if !h1.is_ascii_hexdigit() || !h2.is_ascii_hexdigit() {
                return Err(());
            }
            out.push('%');
            out.push(h1 as char);
            out.push(h2 as char);
            i += 3;
        } else if !literal_allowed(b) {
            return Err(());
        } else if unreserved(b) || reserved(b) {
            out.push(b as char);
            i += 1;
        } else {
            out.push_str(&format!("%{:02X}", b));
            i += 1;
        }
    }
    Ok(out)
}

// ------------------------------------------------------------------ format 2

#[derive(Clone, Debug)]
pub struct MEntry {
    pub cps: BTreeSet<u32>,
    pub feats: BTreeSet<T4>,
    pub design: BTreeMap<T4, Vec<(i32, i32)>>,
    pub children: Vec<usize>,
    pub conj: bool,
    pub ignored: bool,
    pub id: Id,
    pub fmt: Fmt,
}

/// Interpret an abstract format-2 table. Err(reason) if the table is malformed
/// in a way the specification requires to be rejected.
pub fn decode2(t: &Table2) -> Result<Vec<MEntry>, &'static str> {
    if std::str::from_utf8(&t.template).is_err() {
        return Err("template not utf8");
    }
    let default = Fmt::from_number(t.default_format).ok_or("bad default format")?;
    if !t.string_ids && t.truncate > 0 {
        return Err("truncated");
    }
    let mut out: Vec<MEntry> = vec![];
    let mut last_num: i64 = 0;
    let mut last_str: Vec<u8> = vec![];
    let total_str: usize =
        t.entries.iter().map(|e| if let IdSpec::Str(s) = &e.id { s.len() } else { 0 }).sum::<usize>();
    let avail = (total_str + t.string_pad).saturating_sub(t.string_cut);
    let mut used = 0usize;
    for (i, e) in t.entries.iter().enumerate() {
        let mut feats = BTreeSet::new();
        let mut design: BTreeMap<T4, Vec<(i32, i32)>> = BTreeMap::new();
        if let Some((f, segs)) = &e.fds {
            feats.extend(f.iter().copied());
            for (tag, s, en) in segs {
                if s > en {
                    return Err("segment start > end");
                }
                design.entry(*tag).or_default().push((*s, *en));
            }
        }
        for v in design.values_mut() {
            *v = merge_ranges(std::mem::take(v));
        }
        let (conj, children) = match &e.children {
            Some((c, idx)) => {
                for x in idx {
                    if *x as usize >= i {
                        return Err("child index not prior");
                    }
                }
                (*c, idx.iter().map(|x| *x as usize).collect())
            }
            None => (false, vec![]),
        };
        let id = if t.string_ids {
            match &e.id {
                IdSpec::Str(s) => {
                    used += s.len();
                    if used > avail {
                        return Err("id string out of bounds");
                    }
                    last_str = s.clone();
                }
                IdSpec::None => {}
                IdSpec::Delta(_) => return Err("generator: delta in string table"),
            }
            Id::Str(last_str.clone())
        } else {
            let d = match &e.id {
                IdSpec::Delta(d) => *d as i64,
                IdSpec::None => 0,
                IdSpec::Str(_) => return Err("generator: string in numeric table"),
            };
            let n = last_num + 1 + d;
            if n < 0 {
                return Err("negative id");
            }
            if n > u32::MAX as i64 {
                return Err("id too large");
            }
            last_num = n;
            Id::Num(n as u32)
        };
        let fmt = match e.patch_format {
            Some(f) => Fmt::from_number(f).ok_or("bad entry format")?,
            None => default,
        };
        let mut cps = BTreeSet::new();
        if let CpSpec::Present { bias, rel, .. } = &e.cps {
            for r in rel {
                let v = *bias as u64 + *r as u64;
                if v <= 0x10FFFF {
                    cps.insert(v as u32);
                }
            }
        }
        out.push(MEntry { cps, feats, design, children, conj, ignored: e.ignored, id, fmt });
    }
    Ok(out)
}

/// Spec: check entry intersection, one entry without its children.
pub fn self_intersects(e: &MEntry, d: &Def) -> bool {
    if !e.cps.is_empty() && !e.cps.iter().any(|c| d.cps.contains(*c)) {
        return false;
    }
    if !e.feats.is_empty() {
        if let Some(s) = &d.feats {
            if e.feats.is_disjoint(s) {
                return false;
            }
        }
    }
    if !e.design.is_empty() {
        if let Some(m) = &d.design {
            let hit = e.design.iter().any(|(t, segs)| {
                m.get(t).is_some_and(|ds| segs.iter().any(|a| ds.iter().any(|b| b.0 <= b.1 && a.0 <= b.1 && b.0 <= a.1)))
            });
            if !hit {
                return false;
            }
        }
    }
    true
}

pub fn intersects_all(entries: &[MEntry], d: &Def) -> Vec<bool> {
    let mut res: Vec<bool> = Vec::with_capacity(entries.len());
    for e in entries {
        let mut r = self_intersects(e, d);
        if r && !e.children.is_empty() {
            r = if e.conj { e.children.iter().all(|c| res[*c]) } else { e.children.iter().any(|c| res[*c]) };
        }
        res.push(r);
    }
    res
}

pub fn info2(e: &MEntry, d: &Def, order: usize) -> Info {
    let cps = e.cps.iter().filter(|c| d.cps.contains(**c)).count() as u64;
    let feats = match &d.feats {
        None => e.feats.len(),
        Some(s) => e.feats.intersection(s).count(),
    };
    let mut ds = vec![];
    match &d.design {
        None => {
            for (t, segs) in &e.design {
                ds.push((*t, total_len(segs)));
            }
        }
        Some(m) => {
            for (t, dsegs) in m {
                if let Some(esegs) = e.design.get(t) {
                    let inter = intersect_ranges(&merge_ranges(dsegs.clone()), esegs);
                    if !inter.is_empty() {
                        ds.push((*t, total_len(&inter)));
                    }
                }
            }
        }
    }
    ds.sort();
    Info { cps, feats, ds, order }
}

/// A format-2 table interpreted once (entries + byte offsets of the entries).
#[derive(Clone, Debug)]
pub struct Prep2 {
    pub entries: Vec<MEntry>,
    pub starts: Vec<usize>,
}

pub fn prepare2(t: &Table2) -> Result<Prep2, &'static str> {
    let entries = decode2(t)?;
    let (_, lay) = t.encode();
    Ok(Prep2 { entries, starts: lay.entry_start })
}

pub fn candidates2(t: &Table2, p: &Prep2, which: usize, d: &Def) -> Vec<Cand> {
    let template = std::str::from_utf8(&t.template).unwrap_or("");
    let hit = intersects_all(&p.entries, d);
    let mut out = vec![];
    for (i, e) in p.entries.iter().enumerate() {
        if e.ignored || !hit[i] {
            continue;
        }
        out.push(Cand {
            table: which,
            compat: t.compat,
            idx: i,
            uri: expand(template, &e.id),
            fmt: e.fmt,
            info: if e.fmt.invalidating() { info2(e, d, i) } else { Info::default() },
            bit_index: p.starts[i] * 8 + 6,
        });
    }
    out
}

// ------------------------------------------------------------------ format 1

/// `quirk`: reproduce the known read-fonts defect (Cmap12::iter_with_limits
/// never yields U+10FFFF, known finding C08 "Charmap::mappings:missing:U+10FFFF"),
/// which the library's inverted-set path runs into.
pub fn candidates1(t: &Table1, font: &AbsFont, which: usize, d: &Def, quirk: bool) -> Result<Vec<Cand>, &'static str> {
    if t.glyph_count != font.num_glyphs as u32 {
        return Err("glyph count mismatch");
    }
    if t.max_gm > t.max_entry {
        return Err("max glyph map entry index > max entry index");
    }
    let template = std::str::from_utf8(&t.template).map_err(|_| "template not utf8")?;
    let fmt = Fmt::from_number(t.patch_format).ok_or("bad patch format")?;
    // entry index -> (code points, feature tags) of the intersection
    let mut entries: BTreeMap<u16, (BTreeSet<u32>, BTreeSet<T4>)> = BTreeMap::new();
    for (cp, gid) in &font.cmap {
        if !d.cps.contains(*cp) || (quirk && d.cps.inverted && *cp == 0x10FFFF) {
            continue;
        }
        let e = if *gid < t.first_mapped {
            0
        } else {
            match t.entry_index.get((*gid - t.first_mapped) as usize) {
                Some(e) => *e,
                None => return Err("generator: glyph map too short"),
            }
        };
        if e > t.max_gm {
            continue;
        }
        entries.entry(e).or_default().0.insert(*cp);
    }
    if let Some(fm) = &t.feature_map {
        let mut largest: Option<T4> = None;
        for r in fm {
            // records must be sorted by tag; out of order / duplicate records are skipped
            if largest.is_some_and(|l| r.tag <= l) {
                continue;
            }
            let wanted = match &d.feats {
                None => true,
                Some(s) => s.contains(&r.tag),
            };
            if !wanted {
                continue;
            }
            largest = Some(r.tag);
            for (i, (first, last)) in r.maps.iter().enumerate() {
                let mapped = r.first_new as u32 + i as u32;
                if first > last
                    || *first > t.max_gm
                    || *last > t.max_gm
                    || mapped <= t.max_gm as u32
                    || mapped > t.max_entry as u32
                {
                    continue;
                }
                let mut cps = BTreeSet::new();
                let mut feats = BTreeSet::new();
                let mut any = false;
                for (_, (c, f)) in entries.range(*first..=*last) {
                    any = true;
                    cps.extend(c.iter().copied());
                    feats.extend(f.iter().copied());
                }
                if any {
                    feats.insert(r.tag);
                    let slot = entries.entry(mapped as u16).or_default();
                    slot.0.extend(cps);
                    slot.1.extend(feats);
                }
            }
        }
    }
    let mut out = vec![];
    for (idx, (cps, feats)) in entries {
        if idx == 0 || t.applied.contains(&idx) {
            continue;
        }
        out.push(Cand {
            table: which,
            compat: t.compat,
            idx: idx as usize,
            uri: expand(template, &Id::Num(idx as u32)),
            fmt,
            info: if fmt.invalidating() {
                Info { cps: cps.len() as u64, feats: feats.len(), ds: vec![], order: idx as usize }
            } else {
                Info::default()
            },
            bit_index: F1_BITMAP_START * 8 + idx as usize,
        });
    }
    Ok(out)
}

/// True if the feature records of the table are strictly sorted by tag (the
/// only case in which the model claims to know the exact answer).
pub fn f1_sorted(t: &Table1) -> bool {
    t.feature_map.as_ref().map_or(true, |fm| fm.windows(2).all(|w| w[0].tag < w[1].tag))
}

/// Per-font cache of the interpreted format-2 tables.
#[derive(Clone, Debug)]
pub struct Prepared {
    pub f2: [Option<Result<Prep2, &'static str>>; 2],
}

pub fn prepare(font: &AbsFont) -> Prepared {
    let mut f2 = [None, None];
    for which in 0..2 {
        if let Some(AbsTable::F2(t)) = font.table(which) {
            f2[which] = Some(prepare2(t));
        }
    }
    Prepared { f2 }
}

/// Does the known U+10FFFF defect apply to this (font, definition)?
pub fn tainted(font: &AbsFont, d: &Def) -> bool {
    d.cps.inverted
        && d.cps.contains(0x10FFFF)
        && font.cmap.iter().any(|m| m.0 == 0x10FFFF)
        && (0..2).any(|w| matches!(font.table(w), Some(AbsTable::F1(_))))
}

pub fn candidates(font: &AbsFont, prep: &Prepared, d: &Def, quirk: bool) -> Result<Vec<Cand>, &'static str> {
    let mut out = vec![];
    for which in 0..2 {
        match font.table(which) {
            Some(AbsTable::F1(t)) => out.extend(candidates1(t, font, which, d, quirk)?),
            Some(AbsTable::F2(t)) => match &prep.f2[which] {
                Some(Ok(p)) => out.extend(candidates2(t, p, which, d)),
                Some(Err(e)) => return Err(e),
                None => return Err("generator: table not prepared"),
            },
            None => {}
        }
    }
    Ok(out)
}

// ------------------------------------------------------------------ selection

#[derive(Clone, Debug, Default)]
pub struct Selection {
    /// select_next_patches must fail
    pub must_err: Option<&'static str>,
    /// acceptable URIs for the single fully invalidating choice (empty: none)
    pub full_best: BTreeSet<String>,
    /// per table: URI of the best partially invalidating candidate
    pub partial_best: [Option<String>; 2],
    /// the exact URI set the library's documented algorithm yields
    pub exact: BTreeSet<String>,
    /// which table/entry the first (invalidating) URI belongs to, if any
    pub next_invalidating: Option<(usize, usize, String)>,
    /// glyph keyed URI -> table it is attributed to
    pub glyph_owner: BTreeMap<String, usize>,
    /// reference invalidating choices in group order (IFT's, then IFTX's)
    pub ref_invalidating: Vec<String>,
    /// IFTX's overall best partially invalidating candidate has the URI selected for IFT and
    /// another IFTX candidate (a different URI) takes its place
    pub iftx_fallback: bool,
    /// ... and no other IFTX candidate exists
    pub iftx_shadowed: bool,
}

fn best<'a>(c: impl Iterator<Item = &'a Cand>) -> Vec<&'a Cand> {
    let v: Vec<&Cand> = c.collect();
    let mut top: Vec<&Cand> = vec![];
    for x in v {
        match top.first() {
            None => top.push(x),
            Some(t) => match x.info.cmp_priority(&t.info) {
                Ordering::Greater => top = vec![x],
                Ordering::Equal => top.push(x),
                Ordering::Less => {}
            },
        }
    }
    top
}

pub fn expected_selection(font: &AbsFont, cands: &[Cand]) -> Selection {
    let mut s = Selection::default();
    if cands.is_empty() {
        return s;
    }
    if let (Some(a), Some(b)) = (&font.ift, &font.iftx) {
        if a.compat() == b.compat() {
            s.must_err = Some("equal compatibility ids");
            return s;
        }
    }
    if cands.iter().any(|c| c.uri.is_err()) {
        s.must_err = Some("malformed uri template");
        return s;
    }
    let uri = |c: &Cand| c.uri.clone().unwrap();
    let fulls = best(cands.iter().filter(|c| c.fmt == Fmt::Full));
    if !fulls.is_empty() {
        for c in &fulls {
            s.full_best.insert(uri(c));
        }
        s.exact = s.full_best.clone();
        s.ref_invalidating = s.full_best.iter().cloned().collect();
        // the library keeps the last maximal one
        let c = fulls.last().unwrap();
        s.next_invalidating = Some((c.table, c.idx, uri(c)));
        return s;
    }
    let p0 = best(cands.iter().filter(|c| c.fmt == Fmt::Partial && c.table == 0));
    let a = p0.first().map(|c| uri(c));
    let p1_all = best(cands.iter().filter(|c| c.fmt == Fmt::Partial && c.table == 1));
    s.partial_best = [a.clone(), p1_all.first().map(|c| uri(c))];
    let p1 = best(cands.iter().filter(|c| c.fmt == Fmt::Partial && c.table == 1 && Some(uri(c)) != a));
    let b = p1.first().map(|c| uri(c));
    if let Some(c) = p0.first() {
        s.next_invalidating = Some((0, c.idx, uri(c)));
    } else if let Some(c) = p1.first() {
        s.next_invalidating = Some((1, c.idx, uri(c)));
    }
    s.exact.extend(a.iter().cloned());
    s.exact.extend(b.iter().cloned());
    s.ref_invalidating = a.iter().chain(b.iter()).cloned().collect();
    if a.is_some() && s.partial_best[1] == a {
        s.iftx_fallback = b.is_some();
        s.iftx_shadowed = b.is_none();
    }
    if a.is_none() {
        for c in cands.iter().filter(|c| c.fmt == Fmt::Glyph && c.table == 0) {
            if Some(uri(c)) != b {
                s.glyph_owner.entry(uri(c)).or_insert(0);
                s.exact.insert(uri(c));
            }
        }
    }
    if b.is_none() {
        for c in cands.iter().filter(|c| c.fmt == Fmt::Glyph && c.table == 1) {
            if Some(uri(c)) != a {
                s.glyph_owner.entry(uri(c)).or_insert(1);
                s.exact.insert(uri(c));
            }
        }
    }
    s
}

/// Check the property's group invariants on the public `uris()` output.
/// Returns (invariant name, explanation) for each failed invariant.
pub fn check_group(cands: &[Cand], sel: &Selection, uris: &[String]) -> Vec<(&'static str, String)> {
    let mut bad = vec![];
    let set: BTreeSet<&String> = uris.iter().collect();
    if set.len() != uris.len() {
        bad.push(("duplicate-uri", format!("{:?}", uris)));
    }
    let cand_uris: BTreeSet<String> = cands.iter().filter_map(|c| c.uri.clone().ok()).collect();
    for u in uris {
        if !cand_uris.contains(u) {
            bad.push(("uri-not-a-candidate", u.clone()));
        }
    }
    if !cands.is_empty() && uris.is_empty() {
        bad.push(("empty-group-with-candidates", format!("{} candidates", cands.len())));
    }
    if !sel.full_best.is_empty() {
        if uris.len() != 1 {
            bad.push(("full-invalidation-not-alone", format!("{:?}", uris)));
        }
        if !uris.iter().any(|u| sel.full_best.contains(u)) {
            bad.push(("full-invalidation-not-best", format!("got {:?} want one of {:?}", uris, sel.full_best)));
        }
        return bad;
    }
    // roles of each selected uri
    let mut forced = [0usize; 2];
    let mut flexible = 0usize;
    for u in &set {
        let roles: BTreeSet<(usize, Fmt)> =
            cands.iter().filter(|c| c.uri.as_ref() == Ok(*u)).map(|c| (c.table, c.fmt)).collect();
        if roles.is_empty() || roles.iter().any(|r| r.1 == Fmt::Glyph) {
            continue;
        }
        let t0 = roles.contains(&(0, Fmt::Partial));
        let t1 = roles.contains(&(1, Fmt::Partial));
        match (t0, t1) {
            (true, true) => flexible += 1,
            (true, false) => forced[0] += 1,
            (false, true) => forced[1] += 1,
            _ => {}
        }
    }
    if forced[0] > 1 || forced[1] > 1 || forced[0] + forced[1] + flexible > 2 {
        bad.push(("more-than-one-invalidating-per-table", format!("{:?}", uris)));
    }
    for t in 0..2 {
        if let Some(b) = &sel.partial_best[t] {
            if !set.contains(b) {
                bad.push(("partial-invalidation-not-best", format!("table {} want {} got {:?}", t, b, uris)));
            }
        }
    }
    bad
}
