//! C19 — IFT patch selection follows the specified intersection and grouping
//! rules. See /verif/DESIGN.md §3.
//!
//! abs.rs    abstract mapping tables / fonts / patches + byte encoders
//! model.rs  reference model (spec transcription) over the abstract values
//! gen.rs    generators (tables, definitions, supersets, malformations)
//! oracle.rs real library under the monitors + comparison with the model
mod abs;
mod gen;
mod model;
mod oracle;

use abs::*;
use model::*;
use oracle::*;
use serde_json::json;
use std::collections::{BTreeMap, BTreeSet};
use vf_core::{Args, Ctx, Digest, PanicPolicy, Rng};

pub const REPLAY: Option<fn(&mut Ctx, &Args, &serde_json::Value, Option<&[u8]>)> = Some(replay);

fn setup(ctx: &mut Ctx) {
    // semantic property: library panics on generated tables are refutations
    // unless they are overflow/debug-assert panics (those are C20's).
    ctx.policy = PanicPolicy::Totality;
    ctx.rule = "non-trivial case = (mapping tables, subset definition) with >= 2 mapping entries in total whose offered set is neither empty nor equal to the set offered for SubsetDefinition::all(); digest over table bytes + cmap + definition".into();
    ctx.assumptions = vec![
        "the reference model transcribes the intersection / format-1 / id / URI-template / selection rules as the specification text is quoted in the code comments of patchmap.rs, patch_group.rs and uri_templates.rs (the spec itself is not available offline)".into(),
        "crate-private PatchUri fields (application bit index, IntersectionInfo) are observed through the derived Debug output; design-space sizes from Debug are compared with tolerance 2e-3 and exactly through patch selection".into(),
        "format-1 feature records that are not sorted by tag are only checked by the metamorphic oracles (monotone, subset of all), not for equality".into(),
        "extension loop uses harness-built patches: glyph keyed patches carrying no glyph data, table keyed patches replacing the mapping table (stored-block brotli) or doing nothing".into(),
        "among fully invalidating candidates of two different tables with identical intersection size and entry order either may be chosen".into(),
    ];
}

/// Deterministic regression case for the known defect shared with C08
/// ("Charmap::mappings:missing:U+10FFFF"): a format-1 entry reachable only
/// through U+10FFFF is offered for {U+10FFFF} but not for all().
fn canned_u10ffff(ctx: &mut Ctx) {
    let t = Table1 {
        compat: [7; 16],
        max_entry: 2,
        max_gm: 2,
        glyph_count: 3,
        first_mapped: 1,
        entry_index: vec![1, 2],
        feature_map: None,
        applied: BTreeSet::new(),
        template: b"//h/{id}".to_vec(),
        patch_format: 3,
        field_flags: 0,
    };
    let font = AbsFont { num_glyphs: 3, cmap: vec![(0x41, 1), (0x10FFFF, 2)], ift: Some(AbsTable::F1(t)), iftx: None };
    let bytes = font.build();
    let prep = prepare(&font);
    let id = CaseId { stage: "canned", item: 0, font: &font, bytes: &bytes };
    let small = Def { cps: CpDef { inverted: false, items: [0x10FFFF].into() }, feats: Some(BTreeSet::new()), design: Some(BTreeMap::new()) };
    let a = check_intersection(ctx, &id, &prep, true, &small);
    let b = check_intersection(ctx, &id, &prep, true, &Def::all());
    if let (Some(ka), Some(kb)) = (&a.keys, &b.keys) {
        if !b.quirk {
            check_subset(ctx, &id, "subset-of-all", ka, &small, kb, &Def::all());
        }
    }
    ctx.count("canned:u10ffff", 1);
}

pub fn run(ctx: &mut Ctx, _args: &Args) {
    setup(ctx);
    if ctx.shard.0 == 0 {
        canned_u10ffff(ctx);
    }
    stage_exhaustive(ctx);
    let n = ctx.tier.pick(250_000, 6_000_000);
    for i in 0..n {
        if ctx.mine(i) {
            random_item(ctx, i);
        }
    }
    ctx.extra.insert("random_items_total".into(), json!(n));
}

fn replay(ctx: &mut Ctx, _args: &Args, rec: &serde_json::Value, _bytes: Option<&[u8]>) {
    setup(ctx);
    let d = &rec["detail"]["case"];
    let stage = d["stage"].as_str().unwrap_or("");
    let item = d["item"].as_u64().unwrap_or(0) as usize;
    match stage {
        "rand" | "rand-loop" => random_item(ctx, item),
        "exh" => {
            let defs = exhaustive_defs();
            init_subset(&defs);
            exhaustive_table(ctx, item, &defs)
        }
        _ => eprintln!("vf-c19: replay record has no stage/item"),
    }
}

// ------------------------------------------------------------------ evidence helpers

fn record_font(ctx: &mut Ctx, f: &AbsFont) {
    for which in 0..2 {
        let name = if which == 0 { "IFT" } else { "IFTX" };
        match f.table(which) {
            None => {}
            Some(AbsTable::F1(t)) => {
                ctx.count(&format!("table:{}:format1", name), 1);
                ctx.count(&format!("table:format1:patch-format-{}", t.patch_format), 1);
                if t.max_entry >= 256 {
                    ctx.count("table:format1:u16-entries", 1);
                }
                if let Some(fm) = &t.feature_map {
                    ctx.count("table:format1:feature-map", 1);
                    ctx.count("table:format1:feature-records", fm.len() as u64);
                }
                if !t.applied.is_empty() {
                    ctx.count("table:format1:with-applied-bits", 1);
                }
                ctx.label("table_shapes", &format!("f1:w{}:fm{}", t.width(), t.feature_map.is_some() as u8));
            }
            Some(AbsTable::F2(t)) => {
                ctx.count(&format!("table:{}:format2", name), 1);
                ctx.count("entries:format2", t.entries.len() as u64);
                if t.string_ids {
                    ctx.count("table:format2:string-ids", 1);
                }
                ctx.count(&format!("table:format2:default-format-{}", t.default_format), 1);
                for e in &t.entries {
                    if let Some((conj, idx)) = &e.children {
                        ctx.count(if idx.is_empty() { "entry:children:empty-list" } else if *conj { "entry:children:conjunctive" } else { "entry:children:disjunctive" }, 1);
                    }
                    if e.ignored {
                        ctx.count("entry:ignored", 1);
                    }
                    match &e.id {
                        IdSpec::None => {}
                        IdSpec::Delta(d) => ctx.count(if *d < 0 { "entry:id-delta:negative" } else { "entry:id-delta:non-negative" }, 1),
                        IdSpec::Str(_) => ctx.count("entry:id-string", 1),
                    }
                    if let Some(f) = e.patch_format {
                        ctx.count(&format!("entry:patch-format-{}", f), 1);
                    }
                    match &e.cps {
                        CpSpec::Absent => ctx.count("entry:codepoints:absent", 1),
                        CpSpec::Present { kind, rel, enc, .. } => {
                            ctx.count(&format!("entry:codepoints:bias-kind-{}", kind), 1);
                            ctx.label("sparse_bit_set_shapes", &format!("bf{}:h+{}:fill{}:n{}", enc.bf, enc.extra_height, enc.fill as u8, rel.len().min(9)));
                        }
                    }
                    if let Some((f, s)) = &e.fds {
                        if !f.is_empty() {
                            ctx.count("entry:features", 1);
                        }
                        if !s.is_empty() {
                            ctx.count("entry:design-space", 1);
                        }
                    }
                }
                ctx.label("table_shapes", &format!("f2:n{}:str{}", t.entries.len().min(8), t.string_ids as u8));
            }
        }
    }
}

fn case_sample(f: &AbsFont, d: &Def, offered: usize, of_all: usize) -> serde_json::Value {
    json!({
        "ift": f.ift.as_ref().map(|t| format!("{:?}", t)),
        "iftx": f.iftx.as_ref().map(|t| format!("{:?}", t)),
        "def": def_json(d),
        "offered": offered,
        "offered_for_all": of_all,
    })
}

// ------------------------------------------------------------------ random stage

fn random_item(ctx: &mut Ctx, item: usize) {
    let mut rng = Rng::derive(ctx.seed, "c19-rand", item as u64);
    // every fourth item: two format-2 tables sharing template and ids (duplicate URIs across the tables)
    let case = if item % 4 == 3 {
        ctx.count("case:duelling-tables(shared template+ids)", 1);
        gen::gen_duel_case(&mut rng)
    } else {
        gen::gen_case(&mut rng)
    };
    let font = &case.font;
    let bytes = font.build();
    let prep = prepare(font);
    let exact = font_exact(font);
    record_font(ctx, font);
    if let Some(m) = case.malformed {
        ctx.count(&format!("malformed:{}", m), 1);
    }
    if !exact {
        ctx.count("table:format1:unsorted-feature-records", 1);
    }
    let id = CaseId { stage: "rand", item, font, bytes: &bytes };

    let all = Def::all();
    let chk_all = check_intersection(ctx, &id, &prep, exact, &all);
    ctx.count("def:all()", 1);
    if exact {
        check_selection(ctx, &id, &chk_all.model, &all);
    }

    let n_defs = 4;
    let mut loop_defs: Vec<Def> = vec![all.clone()];
    for _ in 0..n_defs {
        let d = gen::gen_def(&mut rng, &case.uni, &case.base);
        ctx.count(&format!("def:{}", d.kind()), 1);
        let chk = check_intersection(ctx, &id, &prep, exact, &d);
        if let (Some(k), Some(ka)) = (&chk.keys, &chk_all.keys) {
            if chk.quirk || chk_all.quirk || (!exact && tainted(font, &all)) {
                ctx.count("oracle:subset-of-all:skipped-known-defect", 1);
            } else {
                check_subset(ctx, &id, "subset-of-all", k, &d, ka, &all);
            }
            if font.total_entries() >= 2 && !k.is_empty() && k.len() < ka.len() {
                ctx.nontrivial(id.digest(&d));
                ctx.sample_by_kind(
                    &format!("offered:{}", font.table(0).or(font.table(1)).map_or("?", |t| if matches!(t, AbsTable::F1(_)) { "format1" } else { "format2" })),
                    case_sample(font, &d, k.len(), ka.len()),
                );
            }
        }
        let g = gen::grow_def(&mut rng, &case.uni, &case.base, &d);
        if !d.subset_of(&g) {
            ctx.inconclusive("generator: grown definition is not a superset");
        } else {
            let chk_g = check_intersection(ctx, &id, &prep, exact, &g);
            if let (Some(k), Some(kg)) = (&chk.keys, &chk_g.keys) {
                if chk.quirk || chk_g.quirk || (!exact && (tainted(font, &d) || tainted(font, &g))) {
                    ctx.count("oracle:monotone:skipped-known-defect", 1);
                } else {
                    check_subset(ctx, &id, "monotone", k, &d, kg, &g);
                    if kg.len() > k.len() {
                        ctx.count("oracle:monotone:strictly-larger", 1);
                    }
                }
            }
            if exact && rng.bool() {
                check_selection(ctx, &id, &chk_g.model, &g);
            }
            if rng.chance(1, 3) {
                loop_defs.push(g);
            }
        }
        if exact {
            check_selection(ctx, &id, &chk.model, &d);
        }
        loop_defs.push(d);
    }
    if case.malformed.is_none() {
        // extension runs until fixpoint
        let n_loops = 2;
        for _ in 0..n_loops {
            let d = rng.pick(&loop_defs).clone();
            extension_loop(ctx, "rand-loop", item, font, &d, &mut rng);
        }
    }
}

// ------------------------------------------------------------------ exhaustive small space

const CP_A: u32 = 0x41;
const CP_B: u32 = 0x10000;
const ONE: i32 = 1 << 16;

fn exhaustive_defs() -> Vec<Def> {
    let cps: Vec<CpDef> = vec![
        CpDef { inverted: false, items: BTreeSet::new() },
        CpDef { inverted: false, items: [CP_A].into() },
        CpDef { inverted: false, items: [CP_B].into() },
        CpDef { inverted: false, items: [CP_A, CP_B].into() },
        CpDef { inverted: true, items: BTreeSet::new() },
        CpDef { inverted: true, items: [CP_A].into() },
    ];
    let feats: Vec<Option<BTreeSet<T4>>> = vec![Some(BTreeSet::new()), Some([*b"liga"].into()), Some([*b"smcp"].into()), None];
    let ds: Vec<Option<BTreeMap<T4, Vec<(i32, i32)>>>> = vec![
        Some(BTreeMap::new()),
        Some([(*b"wght", vec![(ONE, 2 * ONE)])].into()),     // touches the entry range [0,1] at 1.0
        Some([(*b"wght", vec![(ONE + 1, 2 * ONE)])].into()), // one epsilon away
        Some([(*b"wdth", vec![(0, ONE)])].into()),           // other axis
        None,
    ];
    let mut out = vec![];
    for c in &cps {
        for f in &feats {
            for d in &ds {
                out.push(Def { cps: c.clone(), feats: f.clone(), design: d.clone() });
            }
        }
    }
    out
}

fn exh_entry(kind: usize, salt: usize) -> Entry2 {
    let cp = kind & 3;
    let feat = (kind >> 2) & 1;
    let ds = (kind >> 3) & 1;
    let cps = if cp == 0 {
        CpSpec::Absent
    } else {
        let vals: Vec<u32> = match cp {
            1 => vec![CP_A],
            2 => vec![CP_B],
            _ => vec![CP_A, CP_B],
        };
        let k = 1 + (salt % 3) as u8;
        let bias = match k {
            1 => 0,
            2 => [0u32, 0x40, 0x41][salt / 3 % 3].min(vals[0]),
            _ => [0u32, 0x41, vals[0]][salt / 3 % 3],
        };
        CpSpec::Present {
            kind: k,
            bias,
            rel: vals.iter().map(|v| v - bias).collect(),
            enc: CpEnc { bf: [2u8, 4, 8, 32][salt / 9 % 4], extra_height: (salt / 36 % 2) as u8, fill: salt / 72 % 2 == 1 },
        }
    };
    let fds = if feat == 1 || ds == 1 {
        Some((if feat == 1 { vec![*b"liga"] } else { vec![] }, if ds == 1 { vec![(*b"wght", 0, ONE)] } else { vec![] }))
    } else if salt % 5 == 0 {
        Some((vec![], vec![]))
    } else {
        None
    };
    Entry2 { fds, children: None, id: IdSpec::None, patch_format: None, cps, ignored: false }
}

const EXH_TABLES: usize = 16 * 16 * 16 * 7;

fn exhaustive_table(ctx: &mut Ctx, n: usize, defs: &[Def]) {
    let k0 = n % 16;
    let k1 = n / 16 % 16;
    let rest = n / 256;
    let k2 = rest % 16;
    let ch = rest / 16;
    let salt = (n as u64).wrapping_mul(0x9E3779B97F4A7C15) as usize >> 20;
    let mut e0 = exh_entry(k0, salt);
    let mut e1 = exh_entry(k1, salt / 7);
    let mut e2 = exh_entry(k2, salt / 11);
    e0.ignored = salt % 5 == 1;
    e1.ignored = salt % 7 == 1;
    e2.children = match ch {
        0 => None,
        1 => Some((false, vec![0])),
        2 => Some((false, vec![1])),
        3 => Some((false, vec![0, 1])),
        4 => Some((true, vec![0])),
        5 => Some((true, vec![1])),
        _ => Some((true, vec![1, 0])),
    };
    if salt % 3 == 0 {
        e1.id = IdSpec::Delta((salt % 4) as i32 - 1);
    }
    if salt % 4 == 0 {
        e2.patch_format = Some(1 + (salt / 4 % 3) as u8);
    }
    let t = Table2 {
        compat: [n as u8; 16],
        default_format: 1 + (n % 3) as u8,
        template: b"//h/{id}".to_vec(),
        string_ids: false,
        entries: vec![e0, e1, e2],
        field_flags: 0,
        truncate: 0,
        string_pad: 0,
        string_cut: 0,
    };
    let font = AbsFont { num_glyphs: 2, cmap: vec![(CP_A, 1)], ift: if n % 2 == 0 { Some(AbsTable::F2(t.clone())) } else { None }, iftx: if n % 2 == 1 { Some(AbsTable::F2(t)) } else { None } };
    let bytes = font.build();
    let prep = prepare(&font);
    let id = CaseId { stage: "exh", item: n, font: &font, bytes: &bytes };
    let mut keys: Vec<Option<BTreeSet<EntKey>>> = Vec::with_capacity(defs.len());
    let all = Def::all();
    let chk_all = check_intersection(ctx, &id, &prep, true, &all);
    let keys_all = chk_all.keys.clone();
    let mut models = Vec::with_capacity(defs.len());
    for d in defs {
        let chk = check_intersection(ctx, &id, &prep, true, d);
        let k = chk.keys;
        models.push(chk.model);
        if let (Some(k), Some(ka)) = (&k, &keys_all) {
            if !k.is_subset(ka) {
                check_subset(ctx, &id, "subset-of-all", k, d, ka, &all);
            }
            if !k.is_empty() && k.len() < ka.len() {
                ctx.nontrivial(id.digest(d));
            }
        }
        keys.push(k);
    }
    ctx.count("exhaustive:tables", 1);
    ctx.count("oracle:subset-of-all", defs.len() as u64);
    // monotone over the whole definition lattice of this stage
    let mut pairs = 0u64;
    for (i, di) in defs.iter().enumerate() {
        let Some(ki) = &keys[i] else { continue };
        if ki.is_empty() {
            continue;
        }
        for (j, dj) in defs.iter().enumerate() {
            if i == j || !SUBSET.with(|s| s.borrow()[i * defs.len() + j]) {
                continue;
            }
            let Some(kj) = &keys[j] else { continue };
            pairs += 1;
            if !ki.is_subset(kj) {
                check_subset(ctx, &id, "monotone", ki, di, kj, dj);
            }
        }
    }
    ctx.count("oracle:monotone", pairs);
    // selection on a few definitions per table
    for j in [n % defs.len(), (n / 7) % defs.len()] {
        check_selection(ctx, &id, &models[j], &defs[j]);
    }
    check_selection(ctx, &id, &chk_all.model, &all);
}

thread_local! {
    static SUBSET: std::cell::RefCell<Vec<bool>> = const { std::cell::RefCell::new(vec![]) };
}

fn init_subset(defs: &[Def]) {
    let mut sub = vec![false; defs.len() * defs.len()];
    for (i, a) in defs.iter().enumerate() {
        for (j, b) in defs.iter().enumerate() {
            sub[i * defs.len() + j] = a.subset_of(b);
        }
    }
    SUBSET.with(|s| *s.borrow_mut() = sub);
}

fn stage_exhaustive(ctx: &mut Ctx) {
    let defs = exhaustive_defs();
    init_subset(&defs);
    for d in &defs {
        ctx.count(&format!("def:{}", d.kind()), 0);
    }
    for n in 0..EXH_TABLES {
        if ctx.mine(n) {
            exhaustive_table(ctx, n, &defs);
        }
    }
    ctx.extra.insert(
        "exhaustive_stage".into(),
        json!({"tables": EXH_TABLES, "definitions_per_table": defs.len(),
               "space": "3-entry format-2 tables: entries 0,1 over {code points: none|{A}|{B}|{A,B}} x {features: none|liga} x {design space: none|wght[0,1]}, entry 2 the same x children {none,[0],[1],[0,1]} x {disjunctive, conjunctive}; definitions: 6 code point sets (incl. inverted) x 4 feature sets (incl. all) x 5 design spaces (incl. boundary, epsilon-off, other axis, all)"}),
    );
    let mut h = Digest::new();
    h.u64(EXH_TABLES as u64);
    ctx.distinct("stages", h.finish());
}
