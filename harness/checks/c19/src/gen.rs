//! Random generators for abstract fonts / mapping tables / subset definitions.

use crate::abs::*;
use crate::model::*;
use std::collections::{BTreeMap, BTreeSet};
use vf_core::Rng;

pub const FEATS: [T4; 6] = [*b"liga", *b"smcp", *b"rlig", *b"dlig", *b"kern", *b"c2sc"];
pub const AXES: [T4; 4] = [*b"wght", *b"wdth", *b"slnt", *b"opsz"];

/// code point pool: boundaries of the bias widths, planes and of Unicode
const CP_POOL: [u32; 40] = [
    0x0, 0x1, 0x5, 0x11, 0x12, 0x13, 0x20, 0x41, 0x42, 0x43, 0x44, 0x45, 0x7f, 0x80, 0xff, 0x100, 0x3ff, 0x400, 0xfff,
    0x1000, 0xd7ff, 0xe000, 0xfffe, 0xffff, 0x10000, 0x10001, 0x13880, 0x13885, 0x1ffff, 0x20000, 0xfffff, 0x100000,
    0x10fff0, 0x10fffe, 0x10ffff, 0x61, 0x62, 0x63, 0x64, 0x3000,
];

/// raw 16.16 values
fn fixed_pool(rng: &mut Rng) -> Vec<i32> {
    let base: [i32; 12] = [
        -100 << 16,
        -1 << 16,
        0,
        0x8000,
        1 << 16,
        2 << 16,
        0x28000,
        50 << 16,
        100 << 16,
        200 << 16,
        400 << 16,
        700 << 16,
    ];
    let mut v = vec![];
    let n = 4 + rng.usize(4);
    for _ in 0..n {
        let b = *rng.pick(&base);
        let d = match rng.usize(6) {
            0 => 1,
            1 => -1,
            2 => 2,
            _ => 0,
        };
        v.push(b + d);
    }
    if rng.chance(1, 30) {
        v.push(i32::MIN);
        v.push(i32::MAX);
    }
    v.sort();
    v.dedup();
    v
}

pub struct Universe {
    pub cps: Vec<u32>,
    pub feats: Vec<T4>,
    pub axes: Vec<T4>,
    pub fixed: Vec<i32>,
}

pub fn universe(rng: &mut Rng) -> Universe {
    let mut cps = BTreeSet::new();
    let n = 5 + rng.usize(10);
    while cps.len() < n {
        let c = if rng.chance(1, 6) {
            let c = rng.below(0x110000) as u32;
            if (0xd800..0xe000).contains(&c) {
                continue;
            }
            c
        } else {
            *rng.pick(&CP_POOL)
        };
        cps.insert(c);
    }
    let mut feats = FEATS.to_vec();
    rng.shuffle(&mut feats);
    feats.truncate(2 + rng.usize(3));
    let mut axes = AXES.to_vec();
    rng.shuffle(&mut axes);
    axes.truncate(1 + rng.usize(3));
    Universe { cps: cps.into_iter().collect(), feats, axes, fixed: fixed_pool(rng) }
}

fn subset<T: Clone>(rng: &mut Rng, xs: &[T], max: usize) -> Vec<T> {
    let n = rng.usize(max.min(xs.len()) + 1);
    let mut idx: Vec<usize> = (0..xs.len()).collect();
    rng.shuffle(&mut idx);
    idx.truncate(n);
    idx.sort();
    idx.into_iter().map(|i| xs[i].clone()).collect()
}

fn gen_enc(rng: &mut Rng) -> CpEnc {
    CpEnc { bf: *rng.pick(&[2u8, 4, 8, 32]), extra_height: if rng.chance(1, 4) { 1 + rng.usize(2) as u8 } else { 0 }, fill: rng.bool() }
}

pub fn gen_cps(rng: &mut Rng, u: &Universe) -> CpSpec {
    match rng.usize(20) {
        0..=6 => CpSpec::Absent,
        7 => CpSpec::Present { kind: 1 + rng.usize(3) as u8, bias: 0, rel: BTreeSet::new(), enc: gen_enc(rng) },
        8 => {
            // dense run (exercises the "filled node" form)
            let start = *rng.pick(&u.cps);
            let len = *rng.pick(&[2u32, 4, 8, 16, 17, 32, 64, 100]);
            let kind = 1 + rng.usize(3) as u8;
            let bias = match kind {
                1 => 0,
                2 => start.min(0xffff),
                _ => start,
            };
            let bias = if rng.bool() { bias } else { bias - bias % 4 };
            let rel: BTreeSet<u32> = (0..len).map(|i| start - bias + i).collect();
            CpSpec::Present { kind, bias, rel, enc: gen_enc(rng) }
        }
        9 => {
            // values that run past U+10FFFF after the bias is applied
            let bias = 0x10fff0 + rng.usize(16) as u32;
            let mut rel = BTreeSet::new();
            for _ in 0..1 + rng.usize(4) {
                rel.insert(rng.usize(40) as u32);
            }
            for c in &u.cps {
                if *c >= bias && rng.bool() {
                    rel.insert(c - bias);
                }
            }
            CpSpec::Present { kind: 3, bias, rel, enc: gen_enc(rng) }
        }
        _ => {
            let mut vals = subset(rng, &u.cps, 5);
            if vals.is_empty() {
                vals.push(*rng.pick(&u.cps));
            }
            let min = vals[0];
            let kind = 1 + rng.usize(3) as u8;
            let cap = match kind {
                1 => 0,
                2 => 0xffff,
                _ => 0xff_ffff,
            };
            let hi = min.min(cap);
            let bias = match rng.usize(3) {
                0 => hi,
                1 => 0,
                _ => rng.below(hi as u64 + 1) as u32,
            };
            let bias = if kind == 1 { 0 } else { bias };
            let rel = vals.iter().map(|v| v - bias).collect();
            CpSpec::Present { kind, bias, rel, enc: gen_enc(rng) }
        }
    }
}

fn gen_segment(rng: &mut Rng, u: &Universe) -> (T4, i32, i32) {
    let a = *rng.pick(&u.fixed);
    let b = *rng.pick(&u.fixed);
    (*rng.pick(&u.axes), a.min(b), a.max(b))
}

pub fn gen_entry2(rng: &mut Rng, u: &Universe, i: usize, string_ids: bool, running_id: &mut i64) -> Entry2 {
    let fds = if rng.chance(1, 2) {
        None
    } else {
        let mut feats = subset(rng, &u.feats, 3);
        if !feats.is_empty() && rng.chance(1, 8) {
            feats.push(feats[0]); // duplicate tag
        }
        let mut segs = vec![];
        if rng.chance(3, 5) {
            for _ in 0..1 + rng.usize(3) {
                segs.push(gen_segment(rng, u));
            }
        }
        Some((feats, segs))
    };
    let children = if i > 0 && rng.chance(2, 5) {
        let n = 1 + rng.usize(i.min(4));
        let idx: Vec<u32> = (0..n).map(|_| rng.usize(i) as u32).collect();
        Some((rng.bool(), idx))
    } else if rng.chance(1, 30) {
        Some((rng.bool(), vec![]))
    } else {
        None
    };
    let id = if string_ids {
        if rng.chance(3, 10) {
            IdSpec::None
        } else {
            let n = rng.usize(4);
            IdSpec::Str((0..n).map(|_| *rng.pick(&[b'a', b'b', 0x00, 0xff, b'z'])).collect())
        }
    } else if rng.chance(3, 5) {
        *running_id += 1;
        IdSpec::None
    } else {
        let lo = (-(*running_id) - 1).max(-3);
        let d = if rng.chance(1, 12) { rng.range(0, 70000) } else { rng.range(lo, 4) };
        *running_id += 1 + d;
        IdSpec::Delta(d as i32)
    };
    Entry2 {
        fds,
        children,
        id,
        patch_format: if rng.chance(3, 5) { None } else { Some(1 + rng.usize(3) as u8) },
        cps: gen_cps(rng, u),
        ignored: rng.chance(1, 6),
    }
}

pub const TEMPLATES: [&[u8]; 11] = [
    b"//h/{id}",
    b"{id}",
    b"a/{d1}/{d2}/{d3}/{d4}/{id}",
    b"x{id64}y",
    b"same",
    b"{d1}",
    b"\xc9\xa4/{id}",
    b"%41{id}.ift",
    b"p:{id}?q={d2}",
    b"{id}{id}",
    b"{d2}{d1}",
];
pub const BAD_TEMPLATES: [&[u8]; 5] = [b"{foo}", b"a/{id", b"%zz{id}", b" {id}", b"{ID}"];

pub fn gen_compat(rng: &mut Rng) -> [u8; 16] {
    let mut c = [0u8; 16];
    c.copy_from_slice(&rng.bytes(16));
    c
}

pub fn gen_table2(rng: &mut Rng, u: &Universe, n_entries: usize) -> Table2 {
    let string_ids = rng.chance(1, 4);
    let mut running = 0i64;
    let entries = (0..n_entries).map(|i| gen_entry2(rng, u, i, string_ids, &mut running)).collect();
    Table2 {
        compat: gen_compat(rng),
        default_format: *rng.pick(&[3u8, 3, 3, 2, 2, 1]),
        template: if rng.chance(1, 40) { rng.pick(&BAD_TEMPLATES).to_vec() } else { rng.pick(&TEMPLATES).to_vec() },
        string_ids,
        entries,
        field_flags: if rng.chance(1, 8) { 1 + rng.usize(3) as u8 } else { 0 },
        truncate: 0,
        string_pad: if string_ids { 1 + rng.usize(2) } else { 0 },
        string_cut: 0,
    }
}

/// Break a well-formed format-2 table in a way the model knows to be an error.
pub fn malform2(rng: &mut Rng, t: &mut Table2) -> &'static str {
    let n = t.entries.len();
    match rng.usize(8) {
        0 if n > 0 => {
            let i = rng.usize(n);
            let bad = i as u32 + rng.usize(3) as u32;
            let conj = rng.bool();
            match &mut t.entries[i].children {
                Some((_, idx)) => idx.push(bad),
                c => *c = Some((conj, vec![bad])),
            }
            "child-index-not-prior"
        }
        1 if n > 0 => {
            let i = rng.usize(n);
            let seg = (*b"wght", 2 << 16, (2 << 16) - 1 - rng.usize(3) as i32);
            match &mut t.entries[i].fds {
                Some((_, segs)) => segs.push(seg),
                f => *f = Some((vec![], vec![seg])),
            }
            "segment-start-gt-end"
        }
        2 if n > 0 => {
            let i = rng.usize(n);
            t.entries[i].patch_format = Some(*rng.pick(&[0u8, 4, 5, 0x12, 0xff]));
            "bad-entry-format"
        }
        3 => {
            t.default_format = *rng.pick(&[0u8, 4, 7, 0xff]);
            "bad-default-format"
        }
        4 if n > 0 && !t.string_ids => {
            // make the first entry's id negative
            t.entries[0].id = IdSpec::Delta(-2 - rng.usize(5) as i32);
            "negative-id"
        }
        5 if t.string_ids && t.entries.iter().any(|e| matches!(&e.id, IdSpec::Str(s) if !s.is_empty())) => {
            t.string_cut = t.string_pad + 1 + rng.usize(2);
            let total: usize = t.entries.iter().map(|e| if let IdSpec::Str(s) = &e.id { s.len() } else { 0 }).sum();
            t.string_cut = t.string_cut.min(t.string_pad + total);
            "id-string-out-of-bounds"
        }
        6 if n > 0 && !t.string_ids => {
            let mut last = vec![];
            encode_entry2(&t.entries[n - 1], &mut last);
            if last.len() >= 2 {
                t.truncate = 1 + rng.usize(last.len() - 1);
                "truncated"
            } else {
                t.template = vec![b'a', 0xff, 0xfe];
                "template-not-utf8"
            }
        }
        _ => {
            t.template = vec![b'a', 0x80, 0x81, b'{', b'i', b'd', b'}'];
            "template-not-utf8"
        }
    }
}

pub struct FontBase {
    pub num_glyphs: u16,
    pub cmap: Vec<(u32, u16)>,
}

pub fn gen_font_base(rng: &mut Rng, u: &Universe) -> FontBase {
    let num_glyphs = 4 + rng.usize(36) as u16;
    let mut cmap = vec![];
    for c in &u.cps {
        // U+FFFF is left out of the font: write-fonts/skrifa disagree about a
        // format-4 mapping of U+FFFF (map() vs mappings()), which is not this
        // property's concern.
        if *c != 0xFFFF && rng.chance(5, 6) {
            cmap.push((*c, 1 + rng.usize(num_glyphs as usize - 1) as u16));
        }
    }
    // a few extra code points outside the universe
    for _ in 0..rng.usize(4) {
        let c = 0x2000 + rng.usize(0x100) as u32;
        if !cmap.iter().any(|m| m.0 == c) {
            cmap.push((c, 1 + rng.usize(num_glyphs as usize - 1) as u16));
        }
    }
    FontBase { num_glyphs, cmap }
}

pub fn gen_table1(rng: &mut Rng, u: &Universe, fb: &FontBase) -> Table1 {
    let wide = rng.chance(1, 5);
    let with_fm = rng.chance(1, 2);
    let (max_entry, max_gm) = if wide {
        let me = 256 + rng.usize(200) as u16;
        (me, if with_fm { me - 1 - rng.usize(100) as u16 } else { me })
    } else {
        let me = 1 + rng.usize(14) as u16;
        (me, if with_fm && me > 1 { rng.usize(me as usize) as u16 } else { me })
    };
    let (max_entry, max_gm) = if !with_fm && rng.chance(1, 10) { (max_entry, max_gm / 2) } else { (max_entry, max_gm) };
    let first_mapped = rng.usize(fb.num_glyphs as usize / 2 + 1) as u16;
    let n = fb.num_glyphs - first_mapped;
    let small: Vec<u16> = (0..1 + rng.usize(5)).map(|_| rng.usize(max_gm as usize + 1) as u16).collect();
    let entry_index = (0..n)
        .map(|_| {
            if rng.chance(1, 12) {
                // beyond the largest glyph map entry index: must be skipped
                let lim = if max_entry < 256 { 255 } else { 65535 };
                (max_gm as u32 + 1 + rng.usize(3) as u32).min(lim) as u16
            } else if rng.chance(2, 3) {
                *rng.pick(&small)
            } else {
                rng.usize(max_gm as usize + 1) as u16
            }
        })
        .collect();
    let feature_map = if with_fm {
        let mut tags = u.feats.clone();
        tags.sort();
        let tags = {
            let mut t = subset(rng, &tags, 3);
            if t.is_empty() {
                t.push(tags[0]);
            }
            t
        };
        let mut recs = vec![];
        let span = (max_entry - max_gm).max(1);
        for tag in tags {
            let cnt = 1 + rng.usize(3);
            let first_new = if rng.chance(1, 12) {
                max_gm.saturating_sub(rng.usize(2) as u16) // invalid: maps onto the glyph map range
            } else {
                max_gm + 1 + rng.usize(span as usize) as u16
            };
            let first_new = first_new.min(65000);
            let maps = (0..cnt)
                .map(|_| {
                    let a = rng.usize(max_gm as usize + 1) as u16;
                    let b = rng.usize(max_gm as usize + 1) as u16;
                    match rng.usize(12) {
                        0 => (a.max(b), a.min(b)),                                   // possibly first > last
                        1 => (a, (max_gm as u32 + 1).min(if max_entry < 256 { 255 } else { 65535 }) as u16), // last beyond
                        2 => (0, max_gm),
                        _ => (a.min(b), a.max(b)),
                    }
                })
                .collect();
            recs.push(FeatRec { tag, first_new, maps });
        }
        if recs.len() > 1 && rng.chance(1, 12) {
            // not sorted by tag (the specification requires sorted records):
            // only the metamorphic oracles apply
            recs.reverse();
        }
        Some(recs)
    } else {
        None
    };
    let mut applied = BTreeSet::new();
    for i in 0..=max_entry {
        if rng.chance(1, if wide { 40 } else { 6 }) {
            applied.insert(i);
        }
    }
    Table1 {
        compat: gen_compat(rng),
        max_entry,
        max_gm,
        glyph_count: fb.num_glyphs as u32,
        first_mapped,
        entry_index,
        feature_map,
        applied,
        template: if rng.chance(1, 40) { rng.pick(&BAD_TEMPLATES).to_vec() } else { rng.pick(&TEMPLATES).to_vec() },
        patch_format: *rng.pick(&[3u8, 3, 3, 2, 2, 1]),
        field_flags: if rng.chance(1, 8) { 1 + rng.usize(3) as u8 } else { 0 },
    }
}

pub fn malform1(rng: &mut Rng, t: &mut Table1) -> &'static str {
    match rng.usize(4) {
        0 => {
            // glyph count (and glyph map length) disagree with maxp
            if rng.bool() {
                t.glyph_count += 1 + rng.usize(3) as u32;
                for _ in 0..4 {
                    t.entry_index.push(0);
                }
            } else if t.glyph_count > t.first_mapped as u32 + 1 {
                t.glyph_count -= 1;
            } else {
                t.glyph_count += 1;
                t.entry_index.push(0);
            }
            "glyph-count-mismatch"
        }
        1 if t.max_entry < 65535 && (t.max_entry >= 256 || t.max_entry < 255) => {
            t.max_gm = t.max_entry + 1;
            "max-glyph-map-entry-gt-max-entry"
        }
        2 => {
            t.patch_format = *rng.pick(&[0u8, 4, 0x12, 0xff]);
            "bad-patch-format"
        }
        _ => {
            t.template = vec![0x80, 0x81, b'{', b'i', b'd', b'}'];
            "template-not-utf8"
        }
    }
}

// ------------------------------------------------------------------ definitions

pub fn gen_def(rng: &mut Rng, u: &Universe, fb: &FontBase) -> Def {
    let mut pool: Vec<u32> = u.cps.clone();
    pool.extend(fb.cmap.iter().map(|m| m.0));
    pool.sort();
    pool.dedup();
    let cps = match rng.usize(10) {
        0 => CpDef { inverted: false, items: BTreeSet::new() },
        1 => CpDef { inverted: true, items: BTreeSet::new() },
        2 | 3 => CpDef { inverted: true, items: subset(rng, &pool, 6).into_iter().collect() },
        4 => {
            let mut items: BTreeSet<u32> = subset(rng, &pool, 3).into_iter().collect();
            // neighbours: off-by-one probes around members of the universe
            for c in subset(rng, &pool, 3) {
                items.insert(c.saturating_sub(1));
                items.insert((c + 1).min(0x10ffff));
            }
            CpDef { inverted: rng.chance(1, 4), items }
        }
        _ => CpDef { inverted: false, items: subset(rng, &pool, 5).into_iter().collect() },
    };
    let feats = match rng.usize(8) {
        0 => None,
        1 | 2 => Some(BTreeSet::new()),
        _ => {
            let mut s: BTreeSet<T4> = subset(rng, &u.feats, 3).into_iter().collect();
            if rng.chance(1, 5) {
                s.insert(*rng.pick(&FEATS));
            }
            Some(s)
        }
    };
    let design = match rng.usize(8) {
        0 => None,
        1 | 2 => Some(BTreeMap::new()),
        _ => {
            let mut m: BTreeMap<T4, Vec<(i32, i32)>> = BTreeMap::new();
            for _ in 0..1 + rng.usize(3) {
                let (t, a, b) = gen_segment(rng, u);
                let (a, b) = match rng.usize(6) {
                    0 => (a, a),
                    1 => (b, b),
                    2 => (b.saturating_add(1), b.saturating_add(1 << 16)),
                    3 => (a.saturating_sub(1 << 16), a.saturating_sub(1)),
                    _ => (a, b),
                };
                let t = if rng.chance(1, 10) { *rng.pick(&AXES) } else { t };
                m.entry(t).or_default().push((a, b));
            }
            Some(m)
        }
    };
    Def { cps, feats, design }
}

/// A definition that contains `d` (d ⊆ result).
pub fn grow_def(rng: &mut Rng, u: &Universe, fb: &FontBase, d: &Def) -> Def {
    let mut g = d.clone();
    let extra = gen_def(rng, u, fb);
    // code points
    match rng.usize(4) {
        0 => {}
        1 => g.cps = CpDef { inverted: true, items: BTreeSet::new() },
        _ => {
            if g.cps.inverted {
                for c in extra.cps.items.iter() {
                    g.cps.items.remove(c);
                }
                if rng.bool() {
                    let v: Vec<u32> = g.cps.items.iter().copied().collect();
                    for c in subset(rng, &v, 3) {
                        g.cps.items.remove(&c);
                    }
                }
            } else if extra.cps.inverted {
                // switch to "everything except" a set disjoint from the members
                let items = extra.cps.items.iter().copied().filter(|c| !g.cps.items.contains(c)).collect();
                g.cps = CpDef { inverted: true, items };
            } else {
                g.cps.items.extend(extra.cps.items.iter().copied());
            }
        }
    }
    match rng.usize(4) {
        0 => {}
        1 => g.feats = None,
        _ => {
            if let (Some(s), Some(e)) = (&mut g.feats, &extra.feats) {
                s.extend(e.iter().copied());
            }
        }
    }
    match rng.usize(4) {
        0 => {}
        1 => g.design = None,
        _ => {
            if let (Some(m), Some(e)) = (&mut g.design, &extra.design) {
                for (t, r) in e {
                    m.entry(*t).or_default().extend(r.iter().copied());
                }
                if rng.bool() {
                    // widen an existing range
                    if let Some((_, rs)) = m.iter_mut().next() {
                        if let Some(r) = rs.first_mut() {
                            r.0 = r.0.saturating_sub(1 + rng.usize(3) as i32);
                            r.1 = r.1.saturating_add(1 + rng.usize(3) as i32);
                        }
                    }
                }
            }
        }
    }
    g
}

// ------------------------------------------------------------------ whole cases

pub struct Case {
    pub font: AbsFont,
    pub uni: Universe,
    pub base: FontBase,
    pub malformed: Option<&'static str>,
}

pub fn gen_case(rng: &mut Rng) -> Case {
    let uni = universe(rng);
    let base = gen_font_base(rng, &uni);
    let mut malformed = None;
    let mut tables: [Option<AbsTable>; 2] = [None, None];
    let layout = rng.usize(10);
    let present = match layout {
        0..=2 => [true, false],
        3 => [false, true],
        _ => [true, true],
    };
    for which in 0..2 {
        if !present[which] {
            continue;
        }
        let t = if rng.chance(3, 10) {
            AbsTable::F1(gen_table1(rng, &uni, &base))
        } else {
            let n = match rng.usize(10) {
                0 => 0,
                1 => 1,
                2..=6 => 2 + rng.usize(5),
                _ => 4 + rng.usize(12),
            };
            AbsTable::F2(gen_table2(rng, &uni, n))
        };
        tables[which] = Some(t);
    }
    let [mut ift, mut iftx] = tables;
    // shared templates / ids across the two tables make duplicate URIs common
    if let (Some(a), Some(b)) = (&ift, &mut iftx) {
        if rng.chance(1, 2) {
            let ta = match a {
                AbsTable::F1(t) => t.template.clone(),
                AbsTable::F2(t) => t.template.clone(),
            };
            match b {
                AbsTable::F1(t) => t.template = ta,
                AbsTable::F2(t) => t.template = ta,
            }
        }
        if rng.chance(1, 60) {
            b.set_compat(a.compat());
        }
    }
    if rng.chance(1, 10) {
        let which = if ift.is_some() && (iftx.is_none() || rng.bool()) { &mut ift } else { &mut iftx };
        malformed = Some(match which.as_mut().unwrap() {
            AbsTable::F1(t) => malform1(rng, t),
            AbsTable::F2(t) => malform2(rng, t),
        });
    }
    Case { font: AbsFont { num_glyphs: base.num_glyphs, cmap: base.cmap.clone(), ift, iftx }, uni, base, malformed }
}

// ------------------------------------------------------------------ duelling tables

/// Templates whose expansion depends on the id, so that equal ids <=> equal URIs.
const ID_TEMPLATES: [&[u8]; 6] = [b"//h/{id}", b"{id}", b"a/{d1}/{d2}/{d3}/{d4}/{id}", b"x{id64}y", b"%41{id}.ift", b"p:{id}?q={d2}"];

fn gen_duel_table(rng: &mut Rng, u: &Universe, n: usize, template: &[u8], shift: i32) -> Table2 {
    let mut running = 0i64;
    let mut entries: Vec<Entry2> = (0..n).map(|i| gen_entry2(rng, u, i, false, &mut running)).collect();
    for (i, e) in entries.iter_mut().enumerate() {
        // ids 1, 2, 3, ... (shifted / with small gaps): entry i of "IFT " and some entry of "IFTX" share their id
        e.id = if i == 0 && shift != 0 {
            IdSpec::Delta(shift)
        } else if rng.chance(1, 6) {
            IdSpec::Delta(rng.range(0, 1) as i32)
        } else {
            IdSpec::None
        };
        // mostly wildcard features / design space and no children: many entries intersect, with
        // different code point intersection sizes
        if rng.chance(4, 5) {
            e.fds = None;
        }
        if rng.chance(4, 5) {
            e.children = None;
        }
        e.ignored = rng.chance(1, 12);
        e.patch_format = match rng.usize(40) {
            0 => Some(1),
            1..=4 => Some(3),
            5..=14 => Some(2),
            _ => None,
        };
        for _ in 0..3 {
            if matches!(e.cps, CpSpec::Present { .. }) {
                break;
            }
            e.cps = gen_cps(rng, u);
        }
    }
    Table2 {
        compat: gen_compat(rng),
        default_format: 2,
        template: template.to_vec(),
        string_ids: false,
        entries,
        field_flags: 0,
        truncate: 0,
        string_pad: 0,
        string_cut: 0,
    }
}

/// Both mapping tables are format 2, share the URI template and (mostly) the ids, and offer mostly
/// partially invalidating patches: "IFT " and "IFTX" candidates resolve to the SAME URI with
/// different intersection sizes, so the "URI already selected for IFT" exclusion and the fallback
/// to IFTX's next best candidate are exercised.
pub fn gen_duel_case(rng: &mut Rng) -> Case {
    let uni = universe(rng);
    let base = gen_font_base(rng, &uni);
    let template = *rng.pick(&ID_TEMPLATES);
    let na = 1 + rng.usize(5);
    let nb = 2 + rng.usize(6);
    let a = gen_duel_table(rng, &uni, na, template, 0);
    let shift = if rng.chance(1, 3) { rng.range(1, 2) as i32 } else { 0 };
    let b = gen_duel_table(rng, &uni, nb, template, shift);
    Case {
        font: AbsFont { num_glyphs: base.num_glyphs, cmap: base.cmap.clone(), ift: Some(AbsTable::F2(a)), iftx: Some(AbsTable::F2(b)) },
        uni,
        base,
        malformed: None,
    }
}
