//! Runs the real library and compares what it did with the reference model.

use crate::abs::*;
use crate::model::*;
use font_types::{Fixed, Tag};
use incremental_font_transfer::patch_group::{PatchGroup, UriStatus};
use incremental_font_transfer::patchmap::{
    intersecting_patches, DesignSpace, FeatureSet, PatchFormat, PatchUri, SubsetDefinition,
};
use read_fonts::collections::{IntSet, RangeSet};
use read_fonts::FontRef;
use serde_json::{json, Value};
use std::collections::{BTreeMap, BTreeSet, HashMap};
use vf_core::{Ctx, Digest, Rng};

pub fn to_lib(d: &Def) -> SubsetDefinition {
    let mut cps = IntSet::<u32>::empty();
    for c in &d.cps.items {
        cps.insert(*c);
    }
    if d.cps.inverted {
        cps.invert();
    }
    let feats = match &d.feats {
        None => FeatureSet::All,
        Some(s) => FeatureSet::Set(s.iter().map(Tag::new).collect()),
    };
    let design = match &d.design {
        None => DesignSpace::All,
        Some(m) => {
            let mut h: HashMap<Tag, RangeSet<Fixed>> = HashMap::new();
            for (t, rs) in m {
                let e = h.entry(Tag::new(t)).or_default();
                for (a, b) in rs {
                    e.insert(Fixed::from_bits(*a)..=Fixed::from_bits(*b));
                }
            }
            DesignSpace::Ranges(h)
        }
    };
    SubsetDefinition::new(cps, feats, design)
}

pub fn def_json(d: &Def) -> Value {
    json!({
        "cps_inverted": d.cps.inverted,
        "cps": d.cps.items.iter().map(|c| format!("{:X}", c)).collect::<Vec<_>>(),
        "features": d.feats.as_ref().map(|s| s.iter().map(t4s).collect::<Vec<_>>()),
        "design": d.design.as_ref().map(|m| m.iter().map(|(t, r)| (t4s(t), r.clone())).collect::<BTreeMap<_, _>>()),
    })
}

pub fn def_digest(h: &mut Digest, d: &Def) {
    h.dbg(d);
}

/// What the library reported for one offered patch.
#[derive(Clone, Debug, PartialEq)]
pub struct Obs {
    pub compat: [u8; 16],
    pub uri: Result<String, ()>,
    pub fmt: Fmt,
    /// from the derived Debug output (crate-private fields)
    pub bit_index: Option<usize>,
    pub cps: Option<u64>,
    pub feats: Option<usize>,
    pub order: Option<usize>,
    pub ds: Option<Vec<(String, f64)>>,
}

fn field_num(dbg: &str, key: &str) -> Option<u64> {
    let p = dbg.rfind(key)?;
    let rest = &dbg[p + key.len()..];
    let end = rest.find(|c: char| !c.is_ascii_digit())?;
    rest[..end].parse().ok()
}

fn field_ds(dbg: &str) -> Option<Vec<(String, f64)>> {
    let key = "intersecting_design_space: {";
    let p = dbg.rfind(key)?;
    let rest = &dbg[p + key.len()..];
    let end = rest.find('}')?;
    let body = &rest[..end];
    let mut out = vec![];
    for item in body.split("Tag(").skip(1) {
        let close = item.find("): ")?;
        let tag = item[..close].to_string();
        let num = item[close + 3..].trim_end_matches([',', ' ']);
        out.push((tag, num.parse::<f64>().ok()?));
    }
    Some(out)
}

fn observe(p: &PatchUri) -> Obs {
    let dbg = format!("{:?}", p);
    let mut compat = [0u8; 16];
    compat.copy_from_slice(p.expected_compatibility_id().as_slice());
    Obs {
        compat,
        uri: p.uri_string().map_err(|_| ()),
        fmt: match p.encoding() {
            PatchFormat::TableKeyed { fully_invalidating: true } => Fmt::Full,
            PatchFormat::TableKeyed { fully_invalidating: false } => Fmt::Partial,
            PatchFormat::GlyphKeyed => Fmt::Glyph,
        },
        bit_index: field_num(&dbg, "application_flag_bit_index: ").map(|v| v as usize),
        cps: field_num(&dbg, "intersecting_codepoints: "),
        feats: field_num(&dbg, "intersecting_layout_tags: ").map(|v| v as usize),
        order: field_num(&dbg, "entry_order: ").map(|v| v as usize),
        ds: field_ds(&dbg),
    }
}

pub type LibIntersect = Result<Vec<Obs>, String>;

/// `intersecting_patches` under the monitors. None: the call panicked (already judged).
pub fn lib_intersect(ctx: &mut Ctx, bytes: &[u8], def: &SubsetDefinition, what: &dyn Fn() -> String) -> Option<LibIntersect> {
    let r = ctx.run_case(what, Some(bytes), &|| -> LibIntersect {
        let font = FontRef::new(bytes).map_err(|e| format!("harness: font does not parse: {e}"))?;
        match intersecting_patches(&font, def) {
            Ok(v) => Ok(v.iter().map(observe).collect()),
            Err(e) => Err(format!("{e}")),
        }
    });
    match r {
        Ok(v) => Some(v),
        Err(p) => {
            ctx.judge_panic(&p, "intersecting_patches", json!({"case": what()}), Some(bytes));
            None
        }
    }
}

fn sorted_keys_model(c: &[Cand]) -> Vec<String> {
    let mut v: Vec<String> = c
        .iter()
        .map(|c| format!("{}|{:?}|{:?}|bit{}|cp{}|ft{}|ord{}", hex8(&c.compat), c.uri, c.fmt, c.bit_index, c.info.cps, c.info.feats, c.info.order))
        .collect();
    v.sort();
    v
}

fn sorted_keys_lib(o: &[Obs]) -> Option<Vec<String>> {
    let mut v = vec![];
    for o in o {
        v.push(format!(
            "{}|{:?}|{:?}|bit{}|cp{}|ft{}|ord{}",
            hex8(&o.compat),
            o.uri,
            o.fmt,
            o.bit_index?,
            o.cps?,
            o.feats?,
            o.order?
        ));
    }
    v.sort();
    Some(v)
}

fn sorted_keys_public_model(c: &[Cand]) -> Vec<String> {
    let mut v: Vec<String> = c.iter().map(|c| format!("{}|{:?}|{:?}", hex8(&c.compat), c.uri, c.fmt)).collect();
    v.sort();
    v
}

fn sorted_keys_public_lib(o: &[Obs]) -> Vec<String> {
    let mut v: Vec<String> = o.iter().map(|o| format!("{}|{:?}|{:?}", hex8(&o.compat), o.uri, o.fmt)).collect();
    v.sort();
    v
}

fn hex8(c: &[u8; 16]) -> String {
    vf_core::hex(&c[..4])
}

/// identity of an offered entry: (compat id, application bit index)
pub type EntKey = ([u8; 16], usize);

pub fn ent_keys(o: &[Obs]) -> Option<BTreeSet<EntKey>> {
    let mut s = BTreeSet::new();
    for o in o {
        s.insert((o.compat, o.bit_index?));
    }
    Some(s)
}

pub struct CaseId<'a> {
    pub stage: &'a str,
    pub item: usize,
    pub font: &'a AbsFont,
    pub bytes: &'a [u8],
}

impl CaseId<'_> {
    pub fn digest(&self, d: &Def) -> u64 {
        let mut h = Digest::new();
        if let Some(t) = &self.font.ift {
            h.bytes(&t.encode().0);
        }
        h.bytes(&[0xfe]);
        if let Some(t) = &self.font.iftx {
            h.bytes(&t.encode().0);
        }
        h.dbg(&self.font.cmap);
        def_digest(&mut h, d);
        h.finish()
    }
    pub fn detail(&self, d: &Def) -> Value {
        json!({
            "stage": self.stage,
            "item": self.item,
            "def": def_json(d),
            "ift": self.font.ift.as_ref().map(|t| format!("{:?}", t)),
            "iftx": self.font.iftx.as_ref().map(|t| format!("{:?}", t)),
            "ift_bytes": self.font.ift.as_ref().map(|t| vf_core::hex(&t.encode().0)),
            "iftx_bytes": self.font.iftx.as_ref().map(|t| vf_core::hex(&t.encode().0)),
            "num_glyphs": self.font.num_glyphs,
            "cmap": self.font.cmap.iter().map(|(c, g)| format!("{:X}>{}", c, g)).collect::<Vec<_>>(),
        })
    }
}

pub const KNOWN_10FFFF: &str = "format1-inverted-definition-misses-U+10FFFF";

pub struct Checked {
    /// identities of the entries the library offered (None: call failed / not parseable)
    pub keys: Option<BTreeSet<EntKey>>,
    /// the model result the library is expected to be consistent with
    pub model: Result<Vec<Cand>, &'static str>,
    /// the known U+10FFFF defect shaped this result
    pub quirk: bool,
}

/// Equality oracle: library result == reference model for one definition.
pub fn check_intersection(ctx: &mut Ctx, id: &CaseId, prep: &Prepared, claim_exact: bool, d: &Def) -> Checked {
    let model = candidates(id.font, prep, d, false);
    let lib_def = to_lib(d);
    let Some(lib) = lib_intersect(ctx, id.bytes, &lib_def, &|| format!("{}#{} intersect", id.stage, id.item)) else {
        return Checked { keys: None, model, quirk: false };
    };
    ctx.eval();
    if claim_exact && tainted(id.font, d) {
        let qmodel = candidates(id.font, prep, d, true);
        if let (Ok(obs), Ok(qc), Ok(tc)) = (&lib, &qmodel, &model) {
            let l = sorted_keys_lib(obs);
            if l.is_some() && l != Some(sorted_keys_model(tc)) && l == Some(sorted_keys_model(qc)) {
                ctx.violation(
                    KNOWN_10FFFF,
                    json!({"what": "format-1 table + inverted code point set containing U+10FFFF: entries reached only through U+10FFFF are not offered / not counted (Charmap::mappings() never yields U+10FFFF)",
                           "lib": l, "model": sorted_keys_model(tc), "case": id.detail(d)}),
                    Some(id.bytes),
                );
                return Checked { keys: ent_keys(obs), model: qmodel, quirk: true };
            }
        }
    }
    let keys = compare_intersection(ctx, id, &lib, &model, claim_exact, d);
    Checked { keys, model, quirk: false }
}

fn compare_intersection(
    ctx: &mut Ctx,
    id: &CaseId,
    lib: &LibIntersect,
    model: &Result<Vec<Cand>, &'static str>,
    claim_exact: bool,
    d: &Def,
) -> Option<BTreeSet<EntKey>> {
    match (lib, model) {
        (Err(e), Err(_)) => {
            if e.starts_with("harness:") {
                ctx.inconclusive(e.clone());
            } else {
                ctx.count("oracle:malformed-rejected", 1);
            }
            None
        }
        (Ok(obs), Err(why)) => {
            ctx.violation(
                &format!("malformed-accepted:{}:{:016x}", why, id.digest(d)),
                json!({"what": "table the specification requires to be rejected produced Ok", "why": why, "lib": format!("{:?}", obs), "case": id.detail(d)}),
                Some(id.bytes),
            );
            None
        }
        (Err(e), Ok(c)) => {
            if e.starts_with("harness:") {
                ctx.inconclusive(e.clone());
                return None;
            }
            ctx.violation(
                &format!("wellformed-rejected:{:016x}", id.digest(d)),
                json!({"what": "well-formed table rejected", "error": e, "model_candidates": c.len(), "case": id.detail(d)}),
                Some(id.bytes),
            );
            None
        }
        (Ok(obs), Ok(cands)) => {
            if !claim_exact {
                ctx.count("oracle:equality-not-claimed", 1);
                return ent_keys(obs);
            }
            let (l, m, level) = match sorted_keys_lib(obs) {
                Some(l) => (l, sorted_keys_model(cands), "full"),
                None => {
                    ctx.count("oracle:debug-parse-failed", 1);
                    (sorted_keys_public_lib(obs), sorted_keys_public_model(cands), "public")
                }
            };
            if l != m {
                let kind = if sorted_keys_public_lib(obs) != sorted_keys_public_model(cands) { "set" } else { "info" };
                ctx.violation(
                    &format!("intersect-mismatch:{}:{:016x}", kind, id.digest(d)),
                    json!({"what": "intersecting_patches differs from the reference model", "level": level, "lib": l, "model": m, "case": id.detail(d)}),
                    Some(id.bytes),
                );
            } else {
                ctx.count("oracle:equal", 1);
                // design space sizes (tolerant: Debug prints a float)
                let mut by_bit: BTreeMap<([u8; 16], usize), &Cand> = BTreeMap::new();
                let mut ambiguous: BTreeSet<([u8; 16], usize)> = BTreeSet::new();
                for c in cands {
                    if by_bit.insert((c.compat, c.bit_index), c).is_some() {
                        // two tables with the same compatibility id and entry offset
                        ambiguous.insert((c.compat, c.bit_index));
                    }
                }
                for a in &ambiguous {
                    by_bit.remove(a);
                }
                for o in obs {
                    let (Some(b), Some(ds)) = (o.bit_index, &o.ds) else { continue };
                    let Some(c) = by_bit.get(&(o.compat, b)) else { continue };
                    let want: Vec<(String, f64)> = c.info.ds.iter().map(|(t, v)| (t4s(t), *v as f64 / 65536.0)).collect();
                    let same = want.len() == ds.len()
                        && want.iter().zip(ds.iter()).all(|(a, b)| a.0 == b.0 && (a.1 - b.1).abs() < 2e-3);
                    if !same {
                        ctx.violation(
                            &format!("intersect-mismatch:design-space-size:{:016x}", id.digest(d)),
                            json!({"what": "design space intersection size differs", "lib": ds, "model": want, "entry_bit": b, "case": id.detail(d)}),
                            Some(id.bytes),
                        );
                    } else if !want.is_empty() {
                        ctx.count("oracle:design-space-size-equal", 1);
                    }
                }
            }
            ent_keys(obs)
        }
    }
}

pub fn check_subset(ctx: &mut Ctx, id: &CaseId, what: &str, small: &BTreeSet<EntKey>, d_small: &Def, big: &BTreeSet<EntKey>, d_big: &Def) {
    ctx.count(&format!("oracle:{}", what), 1);
    if !small.is_subset(big) {
        let missing: Vec<String> = small.difference(big).map(|k| format!("{}:bit{}", hex8(&k.0), k.1)).collect();
        ctx.violation(
            &format!("{}:{:016x}", what, id.digest(d_small)),
            json!({"what": "offered set does not grow with the definition", "missing_in_larger": missing, "larger_def": def_json(d_big), "case": id.detail(d_small)}),
            Some(id.bytes),
        );
    }
}

// ------------------------------------------------------------------ selection

pub type LibSelect = Result<(Vec<String>, bool), String>;

pub fn lib_select(ctx: &mut Ctx, bytes: &[u8], def: &SubsetDefinition, what: &dyn Fn() -> String) -> Option<LibSelect> {
    let r = ctx.run_case(what, Some(bytes), &|| -> LibSelect {
        let font = FontRef::new(bytes).map_err(|e| format!("harness: font does not parse: {e}"))?;
        match PatchGroup::select_next_patches(font, def) {
            Ok(g) => Ok((g.uris().map(|s| s.to_string()).collect(), g.has_uris())),
            Err(e) => Err(format!("{e}")),
        }
    });
    match r {
        Ok(v) => Some(v),
        Err(p) => {
            ctx.judge_panic(&p, "select_next_patches", json!({"case": what()}), Some(bytes));
            None
        }
    }
}

/// Selection invariants for one (font, definition). Returns the group's uris on success.
pub fn check_selection(
    ctx: &mut Ctx,
    id: &CaseId,
    model: &Result<Vec<Cand>, &'static str>,
    d: &Def,
) -> Option<(Vec<String>, Selection)> {
    let lib_def = to_lib(d);
    let lib = lib_select(ctx, id.bytes, &lib_def, &|| format!("{}#{} select", id.stage, id.item))?;
    ctx.eval();
    let cands = match model {
        Err(why) => {
            if lib.is_ok() {
                ctx.violation(
                    &format!("select-malformed-accepted:{}:{:016x}", why, id.digest(d)),
                    json!({"what": "select_next_patches accepted a malformed table", "why": why, "case": id.detail(d)}),
                    Some(id.bytes),
                );
            } else {
                ctx.count("selection:malformed-rejected", 1);
            }
            return None;
        }
        Ok(c) => c,
    };
    let sel = expected_selection(id.font, cands);
    match (&lib, sel.must_err) {
        (Err(e), Some(_)) => {
            if e.starts_with("harness:") {
                ctx.inconclusive(e.clone());
            } else {
                ctx.count("selection:must-err-rejected", 1);
            }
            None
        }
        (Ok((uris, _)), Some(why)) => {
            ctx.violation(
                &format!("select-should-fail:{}:{:016x}", why, id.digest(d)),
                json!({"what": "select_next_patches must report an error", "why": why, "uris": uris, "case": id.detail(d)}),
                Some(id.bytes),
            );
            None
        }
        (Err(e), None) => {
            if e.starts_with("harness:") {
                ctx.inconclusive(e.clone());
                return None;
            }
            ctx.violation(
                &format!("select-unexpected-error:{:016x}", id.digest(d)),
                json!({"what": "select_next_patches failed on a well-formed font", "error": e, "case": id.detail(d)}),
                Some(id.bytes),
            );
            None
        }
        (Ok((uris, has)), None) => {
            ctx.count("selection:checked", 1);
            if !sel.full_best.is_empty() {
                ctx.count("selection:kind:full", 1);
                if cands.iter().filter(|c| c.fmt == Fmt::Full).count() > 1 {
                    ctx.count("selection:full-with-competitors", 1);
                }
            } else if sel.partial_best.iter().any(|p| p.is_some()) {
                ctx.count("selection:kind:partial", 1);
                for t in 0..2 {
                    if cands.iter().filter(|c| c.fmt == Fmt::Partial && c.table == t).count() > 1 {
                        ctx.count("selection:partial-with-competitors", 1);
                    }
                }
            } else if !cands.is_empty() {
                ctx.count("selection:kind:glyph-only", 1);
            } else {
                ctx.count("selection:kind:empty", 1);
            }
            let all_uris: Vec<&String> = cands.iter().filter_map(|c| c.uri.as_ref().ok()).collect();
            if all_uris.iter().collect::<BTreeSet<_>>().len() < all_uris.len() {
                ctx.count("selection:candidates-with-duplicate-uri", 1);
            }
            if *has != !uris.is_empty() {
                ctx.violation(
                    &format!("select:has-uris-inconsistent:{:016x}", id.digest(d)),
                    json!({"what": "has_uris() disagrees with uris()", "uris": uris, "has_uris": has, "case": id.detail(d)}),
                    Some(id.bytes),
                );
            }
            for (name, why) in check_group(cands, &sel, uris) {
                ctx.violation(
                    &format!("select:{}:{:016x}", name, id.digest(d)),
                    json!({"what": "selected group violates the grouping rules", "invariant": name, "explanation": why, "uris": uris,
                           "candidates": cands.iter().map(|c| format!("t{} e{} {:?} {:?} {:?}", c.table, c.idx, c.fmt, c.uri, c.info)).collect::<Vec<_>>(),
                           "case": id.detail(d)}),
                    Some(id.bytes),
                );
            }
            // Reference selection (documented algorithm): the group must EQUAL it, role by role.
            // `uris()` lists the invalidating choices first (IFT's, then IFTX's), then the non-invalidating ones.
            // Only tie accepted: several fully invalidating candidates with equal intersection AND equal entry
            // order (one per table) -- the specification leaves that choice open.
            let got: BTreeSet<String> = uris.iter().cloned().collect();
            let exact_ok = if sel.full_best.len() > 1 {
                got.len() == 1 && got.is_subset(&sel.full_best)
            } else if !sel.full_best.is_empty() {
                got == sel.exact
            } else {
                let k = sel.ref_invalidating.len();
                let glyph_ref: BTreeSet<&String> = sel.exact.iter().filter(|u| !sel.ref_invalidating.contains(u)).collect();
                uris.len() >= k
                    && uris[..k] == sel.ref_invalidating[..]
                    && uris[k..].iter().collect::<BTreeSet<_>>() == glyph_ref
                    && uris.len() - k == glyph_ref.len()
            };
            if sel.iftx_fallback {
                ctx.count("selection:iftx-best-shares-ift-uri:fallback-to-next-best", 1);
            }
            if sel.iftx_shadowed {
                ctx.count("selection:iftx-best-shares-ift-uri:no-other-candidate", 1);
            }
            if exact_ok {
                ctx.count("selection:exact-set-as-documented", 1);
            } else {
                ctx.violation(
                    &format!("select:group-differs-from-reference:{:016x}", id.digest(d)),
                    json!({"what": "selected group is not the one the documented selection algorithm yields (IFT: best partially invalidating; IFTX: best partially invalidating among URIs not already selected; then non-invalidating)",
                           "uris": uris, "reference_invalidating": sel.ref_invalidating, "reference_set": sel.exact,
                           "iftx_fallback_case": sel.iftx_fallback,
                           "candidates": cands.iter().map(|c| format!("t{} e{} {:?} {:?} {:?}", c.table, c.idx, c.fmt, c.uri, c.info)).collect::<Vec<_>>(),
                           "case": id.detail(d)}),
                    Some(id.bytes),
                );
            }
            Some((uris.clone(), sel))
        }
    }
}

// ------------------------------------------------------------------ extension loop

#[derive(Clone, Debug)]
enum Plan {
    Glyph { owner: usize },
    TableNoop { owner: usize },
    TableReplace { owner: usize, new_table: AbsTable },
    TableWrongCompat,
}

fn table_bytes(font_bytes: &[u8], which: usize) -> Option<Vec<u8>> {
    let f = FontRef::new(font_bytes).ok()?;
    f.table_data(Tag::new(if which == 0 { &IFT } else { &IFTX })).map(|d| d.as_bytes().to_vec())
}

type ApplyOut = Result<(Result<Vec<u8>, String>, Vec<(String, bool)>), String>;

/// select -> apply until nothing is offered any more.
pub fn extension_loop(ctx: &mut Ctx, stage: &str, item: usize, start: &AbsFont, d: &Def, rng: &mut Rng) {
    let mut font = start.clone();
    let mut bytes = font.build();
    let lib_def = to_lib(d);
    // uri -> Some(patch bytes) pending / None applied
    let mut patch_data: BTreeMap<String, Option<Vec<u8>>> = BTreeMap::new();
    let mut plans: BTreeMap<String, Plan> = BTreeMap::new();
    let bound = font.total_entries() + 1;
    let mut rounds = 0usize;
    let mut history: Vec<Value> = vec![];
    ctx.count("loop:started", 1);
    loop {
        let prep = prepare(&font);
        let snap = font.clone();
        let id = CaseId { stage, item, font: &snap, bytes: &bytes };
        let exact = font_exact(&font);
        if !exact {
            ctx.count("loop:skipped-model-not-exact", 1);
            return;
        }
        // applied-bit states reached through real applications
        let chk = check_intersection(ctx, &id, &prep, exact, d);
        if rounds > 0 {
            ctx.count("oracle:equality-after-apply", 1);
        }
        let model = chk.model;
        if model.is_err() {
            ctx.count("loop:skipped-malformed", 1);
            return;
        }
        let Some((uris, sel)) = check_selection(ctx, &id, &model, d) else {
            ctx.count("loop:ended:select-error", 1);
            return;
        };
        let cands = model.as_ref().unwrap();
        if uris.is_empty() {
            ctx.count("loop:ended:fixpoint", 1);
            ctx.count(&format!("loop:rounds-to-fixpoint:{}", rounds.min(9)), 1);
            return;
        }
        rounds += 1;
        if rounds > bound {
            ctx.violation(
                &format!("extension-not-terminating:{:016x}", id.digest(d)),
                json!({"what": "select/apply still offers patches after #entries+1 rounds", "bound": bound, "history": history, "case": id.detail(d)}),
                Some(&bytes),
            );
            return;
        }
        // which entry the library's first (invalidating) uri belongs to
        let next_inv: Option<(usize, usize, String)> = if !sel.full_best.is_empty() {
            cands
                .iter()
                .filter(|c| c.fmt == Fmt::Full && c.uri.as_ref().ok() == uris.first())
                .max_by(|a, b| a.info.cmp_priority(&b.info))
                .map(|c| (c.table, c.idx, uris[0].clone()))
        } else {
            sel.next_invalidating.clone()
        };
        // fetch patches for newly seen uris
        for u in &uris {
            if patch_data.contains_key(u) {
                continue;
            }
            let plan = if next_inv.as_ref().is_some_and(|n| &n.2 == u)
                || sel.partial_best.iter().any(|p| p.as_ref() == Some(u))
            {
                let (owner, idx) = match &next_inv {
                    Some(n) if &n.2 == u => (n.0, n.1),
                    _ => {
                        // the other table's partially invalidating choice
                        let c = cands.iter().filter(|c| c.fmt == Fmt::Partial && c.uri.as_ref() == Ok(u)).last();
                        match c {
                            Some(c) => (c.table, c.idx),
                            None => (0, 0),
                        }
                    }
                };
                match rng.usize(10) {
                    0 | 1 => Plan::TableNoop { owner },
                    2 if rng.chance(1, 3) => Plan::TableWrongCompat,
                    _ => {
                        let mut nt = font.table(owner).cloned().unwrap();
                        nt.mark(idx);
                        if rng.chance(1, 4) {
                            let mut c = nt.compat();
                            c[15] = c[15].wrapping_add(1);
                            c[0] ^= 0x55;
                            nt.set_compat(c);
                        }
                        Plan::TableReplace { owner, new_table: nt }
                    }
                }
            } else {
                Plan::Glyph { owner: sel.glyph_owner.get(u).copied().unwrap_or(0) }
            };
            let data = match &plan {
                Plan::Glyph { owner } => {
                    let c = font.table(*owner).map(|t| t.compat()).unwrap_or([0; 16]);
                    glyph_keyed_patch(&c, rng.chance(1, 5))
                }
                Plan::TableNoop { owner } => {
                    let c = font.table(*owner).map(|t| t.compat()).unwrap_or([0; 16]);
                    table_keyed_patch(&c, &[])
                }
                Plan::TableReplace { owner, new_table } => {
                    let c = font.table(*owner).map(|t| t.compat()).unwrap_or([0; 16]);
                    table_keyed_patch(&c, &[(if *owner == 0 { IFT } else { IFTX }, new_table.encode().0)])
                }
                Plan::TableWrongCompat => table_keyed_patch(&[0xAB; 16], &[]),
            };
            ctx.count(
                match &plan {
                    Plan::Glyph { .. } => "loop:patch-built:glyph-keyed",
                    Plan::TableNoop { .. } => "loop:patch-built:table-keyed-noop",
                    Plan::TableReplace { .. } => "loop:patch-built:table-keyed-replace",
                    Plan::TableWrongCompat => "loop:patch-built:table-keyed-wrong-compat",
                },
                1,
            );
            plans.insert(u.clone(), plan);
            patch_data.insert(u.clone(), Some(data));
        }
        let pending_before: BTreeSet<String> = patch_data.iter().filter(|(_, v)| v.is_some()).map(|(k, _)| k.clone()).collect();
        let label = || format!("{}#{} apply round {}", stage, item, rounds);
        let r = ctx.run_case(&label, Some(&bytes), &|| -> ApplyOut {
            let f = FontRef::new(&bytes).map_err(|e| format!("harness: font does not parse: {e}"))?;
            let g = PatchGroup::select_next_patches(f, &lib_def).map_err(|e| format!("select: {e}"))?;
            let mut pd: HashMap<String, UriStatus> = patch_data
                .iter()
                .map(|(k, v)| (k.clone(), match v {
                    Some(b) => UriStatus::Pending(b.clone()),
                    None => UriStatus::Applied,
                }))
                .collect();
            let res = g.apply_next_patches(&mut pd).map_err(|e| format!("{:?}", e));
            let st = pd.into_iter().map(|(k, v)| (k, v == UriStatus::Applied)).collect();
            Ok((res, st))
        });
        ctx.eval();
        let (res, statuses) = match r {
            Err(p) => {
                ctx.judge_panic(&p, "apply_next_patches", json!({"case": label()}), Some(&bytes));
                return;
            }
            Ok(Err(e)) => {
                ctx.inconclusive(format!("apply closure: {e}"));
                return;
            }
            Ok(Ok(x)) => x,
        };
        let newly: BTreeSet<String> =
            statuses.iter().filter(|(k, applied)| *applied && pending_before.contains(k)).map(|(k, _)| k.clone()).collect();
        history.push(json!({"round": rounds, "uris": uris, "result": res.as_ref().map(|b| b.len()).map_err(|e| e.clone()), "newly_applied": newly}));
        let new_bytes = match res {
            Err(e) => {
                // "or reports an error": allowed, the client stops
                let kind = e.split(['(', ' ']).next().unwrap_or("?").to_string();
                ctx.count(&format!("loop:ended:apply-error:{}", kind), 1);
                return;
            }
            Ok(b) => b,
        };
        ctx.count("loop:round-ok", 1);
        if newly.is_empty() {
            ctx.violation(
                &format!("round-applied-nothing-new:{:016x}", id.digest(d)),
                json!({"what": "a successful select/apply round applied no URI that was not applied before", "history": history, "case": id.detail(d)}),
                Some(&bytes),
            );
            return;
        }
        for u in &newly {
            patch_data.insert(u.clone(), None);
        }
        // bring the model to the new state
        let inv_uri = next_inv.as_ref().map(|n| n.2.clone()).filter(|u| pending_before.contains(u));
        let table_keyed_round = inv_uri.is_some();
        if let Some(u) = inv_uri {
            // a table keyed patch was applied (and only that one)
            ctx.count("loop:applied:table-keyed", 1);
            if newly.len() != 1 || !newly.contains(&u) {
                ctx.violation(
                    &format!("invalidating-not-applied-alone:{:016x}", id.digest(d)),
                    json!({"what": "an invalidating patch must be applied alone", "expected": u, "newly_applied": newly, "history": history, "case": id.detail(d)}),
                    Some(&bytes),
                );
                return;
            }
            match plans.get(&u) {
                Some(Plan::TableReplace { owner, new_table }) => {
                    let nt = new_table.clone();
                    *font.table_mut(*owner).unwrap() = nt;
                }
                Some(Plan::TableNoop { .. }) => {}
                _ => {
                    ctx.inconclusive("loop: applied a patch whose plan was not table keyed".to_string());
                    return;
                }
            }
        } else {
            ctx.count("loop:applied:glyph-keyed", 1);
            ctx.count("loop:applied:glyph-keyed-uris", newly.len() as u64);
            let mut marked_uris: BTreeSet<String> = BTreeSet::new();
            for c in cands {
                let Ok(u) = &c.uri else { continue };
                if !newly.contains(u) || c.fmt != Fmt::Glyph {
                    continue;
                }
                let Some(tb) = table_bytes(&new_bytes, c.table) else { continue };
                let set = tb.get(c.bit_index / 8).is_some_and(|b| b & (1 << (c.bit_index % 8)) != 0);
                if set {
                    font.table_mut(c.table).unwrap().mark(c.idx);
                    marked_uris.insert(u.clone());
                    ctx.count("loop:entry-marked-applied", 1);
                }
            }
            if marked_uris != newly {
                ctx.violation(
                    &format!("applied-uri-not-marked:{:016x}", id.digest(d)),
                    json!({"what": "a glyph keyed URI was applied but no offered entry with that URI had its application bit set",
                           "newly_applied": newly, "marked": marked_uris, "history": history, "case": id.detail(d)}),
                    Some(&bytes),
                );
                return;
            }
        }
        // the mapping tables of the new font must be exactly the model's
        for which in 0..2 {
            let want = font.table(which).map(|t| t.encode().0);
            let got = table_bytes(&new_bytes, which);
            if want != got {
                if table_keyed_round {
                    ctx.inconclusive(format!("loop: table keyed application left unexpected {} bytes", if which == 0 { "IFT" } else { "IFTX" }));
                } else {
                    ctx.violation(
                        &format!("application-bits-wrong:{:016x}", id.digest(d)),
                        json!({"what": "mapping table after glyph keyed application differs from old table + application bits of the applied entries",
                               "table": which, "want": want.map(|b| vf_core::hex(&b)), "got": got.map(|b| vf_core::hex(&b)), "history": history, "case": id.detail(d)}),
                        Some(&bytes),
                    );
                }
                return;
            }
        }
        bytes = new_bytes;
    }
}

/// The model claims the exact answer only for tables whose format-1 feature
/// records are sorted (as the specification requires).
pub fn font_exact(font: &AbsFont) -> bool {
    (0..2).all(|w| match font.table(w) {
        Some(AbsTable::F1(t)) => f1_sorted(t),
        _ => true,
    })
}
