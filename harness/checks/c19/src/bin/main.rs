fn main() {
    vf_core::main_with("C19", vf_c19::run, vf_c19::REPLAY);
}
