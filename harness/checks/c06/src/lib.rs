//! C06 — built font files are well-formed sfnt containers that return the
//! tables put in (see /verif/DESIGN.md §3 "C06").
//!
//! Oracle: an independent sfnt parser + checksum (module [`sfnt`], plain
//! big-endian arithmetic on byte slices, no read-fonts) AND
//! `read_fonts::FontRef`; both are applied to every built file and must agree
//! with the tag -> bytes model and with each other.
//!
//! Workload: seeded tag -> bytes maps (see [`gen_map`]), each built under >= 3
//! insertion orders (ascending, descending, random shuffles; owned / borrowed
//! data; cloned builders) and through add_raw / copy_missing_tables histories
//! against a second font (corpus font or another built font).
use serde_json::{json, Value};
use std::collections::{BTreeMap, BTreeSet};
use vf_core::{Args, Ctx, Digest, PanicPolicy, Rng};
use write_fonts::read::{FontRef, TableProvider};
use write_fonts::types::Tag;
use write_fonts::FontBuilder;

pub const REPLAY: Option<fn(&mut Ctx, &Args, &Value, Option<&[u8]>)> = Some(replay);

// ------------------------------------------------------------ independent sfnt reader

/// Independent sfnt reader: indexes bytes and shifts; shares no code with
/// read-fonts / write-fonts.
pub mod sfnt {
    #[derive(Clone, Debug, PartialEq, Eq)]
    pub struct Rec {
        pub tag: u32,
        pub checksum: u32,
        pub offset: u32,
        pub length: u32,
    }
    #[derive(Clone, Debug)]
    pub struct Sfnt {
        pub version: u32,
        pub num_tables: u16,
        pub search_range: u16,
        pub entry_selector: u16,
        pub range_shift: u16,
        pub recs: Vec<Rec>,
    }
    pub fn be16(b: &[u8], o: usize) -> Option<u16> {
        let x = b.get(o..o.checked_add(2)?)?;
        Some(((x[0] as u16) << 8) | x[1] as u16)
    }
    pub fn be32(b: &[u8], o: usize) -> Option<u32> {
        let x = b.get(o..o.checked_add(4)?)?;
        Some(((x[0] as u32) << 24) | ((x[1] as u32) << 16) | ((x[2] as u32) << 8) | x[3] as u32)
    }
    /// Sum of big-endian u32 words, the last partial word padded with zeros.
    /// Returns (sum mod 2^32, number of carries out of 32 bits).
    pub fn checksum(data: &[u8]) -> (u32, u64) {
        let mut acc: u64 = 0;
        let mut i = 0usize;
        while i < data.len() {
            let mut w: u64 = 0;
            for k in 0..4 {
                w <<= 8;
                if i + k < data.len() {
                    w |= data[i + k] as u64;
                }
            }
            acc += w;
            i += 4;
        }
        ((acc & 0xFFFF_FFFF) as u32, acc >> 32)
    }
    /// checksum of a head table: bytes 8..12 count as zero when len >= 12
    pub fn checksum_head(data: &[u8]) -> (u32, u64) {
        if data.len() >= 12 {
            let mut v = data.to_vec();
            v[8] = 0;
            v[9] = 0;
            v[10] = 0;
            v[11] = 0;
            checksum(&v)
        } else {
            checksum(data)
        }
    }
    pub fn parse(b: &[u8]) -> Result<Sfnt, String> {
        let version = be32(b, 0).ok_or("file shorter than 12 bytes")?;
        let num_tables = be16(b, 4).ok_or("file shorter than 12 bytes")?;
        let search_range = be16(b, 6).ok_or("file shorter than 12 bytes")?;
        let entry_selector = be16(b, 8).ok_or("file shorter than 12 bytes")?;
        let range_shift = be16(b, 10).ok_or("file shorter than 12 bytes")?;
        let mut recs = Vec::with_capacity(num_tables as usize);
        for i in 0..num_tables as usize {
            let o = 12 + 16 * i;
            let tag = be32(b, o).ok_or("directory truncated")?;
            let checksum = be32(b, o + 4).ok_or("directory truncated")?;
            let offset = be32(b, o + 8).ok_or("directory truncated")?;
            let length = be32(b, o + 12).ok_or("directory truncated")?;
            recs.push(Rec {
                tag,
                checksum,
                offset,
                length,
            });
        }
        Ok(Sfnt {
            version,
            num_tables,
            search_range,
            entry_selector,
            range_shift,
            recs,
        })
    }
    pub fn table<'a>(b: &'a [u8], r: &Rec) -> Option<&'a [u8]> {
        let s = r.offset as usize;
        let e = s.checked_add(r.length as usize)?;
        b.get(s..e)
    }
    /// (searchRange, entrySelector, rangeShift) per the OpenType spec for n >= 1
    pub fn search_fields(n: usize) -> (u32, u32, u32) {
        let mut es = 0u32;
        while (1usize << (es + 1)) <= n {
            es += 1;
        }
        let sr = (1u32 << es) * 16;
        (sr, es, (n as u32) * 16 - sr)
    }
}

// ------------------------------------------------------------ workload

const HEAD: u32 = u32::from_be_bytes(*b"head");
const CFF: u32 = u32::from_be_bytes(*b"CFF ");
const DSIG: u32 = u32::from_be_bytes(*b"DSIG");

const REC_TTF: [&[u8; 4]; 19] = [
    b"head", b"hhea", b"maxp", b"OS/2", b"hmtx", b"LTSH", b"VDMX", b"hdmx", b"cmap", b"fpgm", b"prep", b"cvt ", b"loca",
    b"glyf", b"kern", b"name", b"post", b"gasp", b"PCLT",
];

fn special_tags() -> &'static [u32] {
    static S: std::sync::OnceLock<Vec<u32>> = std::sync::OnceLock::new();
    S.get_or_init(special_tags_init)
}

fn special_tags_init() -> Vec<u32> {
    let mut v: Vec<u32> = REC_TTF.iter().map(|t| u32::from_be_bytes(**t)).collect();
    for t in [
        b"CFF ", b"DSIG", b"CFF2", b"GSUB", b"GPOS", b"GDEF", b"heac", b"heae", b"DSIF", b"DSIH", b"CFF!", b"CFF\0", b"Head",
        b"HEAD", b"OS/1", b"OS/3", b"glyg", b"post", b"posu", b"PCLU", b"    ", b"~~~~",
    ] {
        v.push(u32::from_be_bytes(*t));
    }
    // every table tag the OpenType, AAT and Graphite registries define: a builder may
    // special-case any of them (Apple's `bhed` is a `head` twin for bitmap-only fonts)
    for t in [
        b"avar", b"BASE", b"CBDT", b"CBLC", b"COLR", b"CPAL", b"cvar", b"EBDT", b"EBLC", b"EBSC", b"fvar", b"gvar", b"HVAR",
        b"JSTF", b"MATH", b"MERG", b"meta", b"MVAR", b"sbix", b"STAT", b"SVG ", b"vhea", b"vmtx", b"VORG", b"VVAR", b"acnt",
        b"ankr", b"bdat", b"bhed", b"bloc", b"bsln", b"fdsc", b"feat", b"fmtx", b"fond", b"gcid", b"just", b"kerx", b"lcar",
        b"ltag", b"mort", b"morx", b"opbd", b"prop", b"trak", b"xref", b"Zapf", b"Silf", b"Glat", b"Gloc", b"Feat", b"Sill",
        b"IFT ", b"IFTX", b"TSI0", b"TSI1", b"TSI5", b"Debg", b"FFTM", b"PfEd", b"BDF ", b"typ1", b"true", b"OTTO", b"ttcf",
        b"wOFF", b"wOF2",
    ] {
        v.push(u32::from_be_bytes(*t));
    }
    v.extend_from_slice(&[0, 1, 0xFFFF_FFFF, 0xFFFF_FFFE, 0x8000_0000, 0x7FFF_FFFF, 0x0000_0100, 0xFF00_0000]);
    v.sort_unstable();
    v.dedup();
    v
}

fn tag_str(t: u32) -> String {
    let b = t.to_be_bytes();
    if b.iter().all(|c| (0x20..0x7f).contains(c)) {
        String::from_utf8_lossy(&b).to_string()
    } else {
        format!("0x{:08X}", t)
    }
}

fn random_tag(rng: &mut Rng) -> u32 {
    match rng.below(4) {
        0 => rng.u32(),
        1 => {
            // printable ascii
            let mut b = [0u8; 4];
            for x in &mut b {
                *x = rng.range(0x20, 0x7e) as u8;
            }
            u32::from_be_bytes(b)
        }
        2 => {
            // shares a 3-byte prefix with a special tag
            let s = special_tags();
            let t = *rng.pick(s);
            (t & 0xFFFF_FF00) | rng.below(256) as u32
        }
        _ => {
            // dense cluster: makes neighbours in the sorted directory
            0x6161_6100 + rng.below(64) as u32
        }
    }
}

fn pick_len(rng: &mut Rng, tiny_only: bool) -> usize {
    if tiny_only {
        return rng.below(18) as usize;
    }
    match rng.below(100) {
        0..=29 => rng.below(18) as usize,
        30..=57 => {
            let k = if rng.chance(1, 4) { rng.range(1, 5000) } else { rng.range(1, 64) } as usize;
            let d = rng.below(4) as usize;
            if rng.bool() {
                4 * k + d
            } else {
                4 * k - d
            }
        }
        58..=63 => *rng.pick(&[65535usize, 65536, 65533, 65534, 65537, 65538, 65539, 65532]),
        64..=69 => rng.below(200 * 1024 + 1) as usize,
        _ => rng.below(300) as usize,
    }
}

/// Table contents; several kinds make the 32-bit word sum carry.
fn fill(rng: &mut Rng, len: usize) -> (Vec<u8>, &'static str) {
    match rng.below(8) {
        0 => (vec![0xFF; len], "ff"),
        1 => (vec![0; len], "zero"),
        2 => {
            let mut v = vec![0xFF; len];
            let t = len - (len % 4).min(len);
            for x in v[t..].iter_mut() {
                *x = rng.below(256) as u8;
            }
            (v, "ff-words-random-tail")
        }
        3 => {
            let mut v = vec![0u8; len];
            for (i, x) in v.iter_mut().enumerate() {
                if i % 4 == 0 {
                    *x = 0x80;
                }
            }
            (v, "0x80000000-words")
        }
        4 => {
            let mut v = rng.bytes(len);
            let t = len - (len % 4);
            for x in v[t..].iter_mut() {
                *x = 0xFF;
            }
            (v, "random-ff-tail")
        }
        5 => ((0..len).map(|i| (i as u8).wrapping_add(1)).collect(), "counting"),
        _ => (rng.bytes(len), "random"),
    }
}

struct Case {
    index: u64,
    map: BTreeMap<u32, Vec<u8>>,
    fills: BTreeSet<&'static str>,
    shape: &'static str,
}

/// Deterministic case `index` for seed `seed` (independent of the shard).
fn gen_map(seed: u64, index: u64, thorough: bool) -> Case {
    let mut rng = Rng::derive(seed, "c06-map", index);
    let specials = special_tags();
    // (the selector must not be a function of index % n_shards)
    let sel = (index / 16 + index % 16) % 16;
    let (n, shape): (usize, &'static str) = match sel {
        0 => (rng.below(4) as usize, "0-3"),
        1..=5 => (rng.range(1, 16) as usize, "small"),
        6..=9 => (rng.range(17, 64) as usize, "medium"),
        10 => (
            *rng.pick(&[1usize, 2, 3, 4, 5, 7, 8, 9, 15, 16, 17, 31, 32, 33, 63, 64, 65, 127, 128, 129, 255, 256, 257]),
            "pow2-boundary",
        ),
        11 => (specials.len(), "all-specials"),
        12 => (19 + rng.below(4) as usize, "recommended-ttf"),
        13 => (8 + rng.below(4) as usize, "recommended-cff"),
        14 => {
            if rng.chance(1, 4) {
                (*rng.pick(&[511usize, 512, 513, 1000, 2047, 2048, 4095]), "huge-count")
            } else {
                (rng.range(64, 80) as usize, "64+")
            }
        }
        _ => (rng.range(2, 40) as usize, "mixed"),
    };
    let tiny_only = n > 64;
    let mut tags: BTreeSet<u32> = BTreeSet::new();
    match shape {
        "all-specials" => tags.extend(specials.iter().copied()),
        "recommended-ttf" => {
            tags.extend(REC_TTF.iter().map(|t| u32::from_be_bytes(**t)));
            if rng.bool() {
                tags.insert(DSIG);
            }
        }
        "recommended-cff" => {
            for t in [b"head", b"hhea", b"maxp", b"OS/2", b"name", b"cmap", b"post", b"CFF "] {
                tags.insert(u32::from_be_bytes(*t));
            }
            if rng.bool() {
                tags.insert(DSIG);
            }
            if rng.bool() {
                // TTF-only recommended tags together with CFF
                tags.insert(u32::from_be_bytes(*b"glyf"));
                tags.insert(u32::from_be_bytes(*b"hmtx"));
            }
        }
        _ => {}
    }
    let p_special = *rng.pick(&[0u64, 3, 7, 10]);
    if n > 0 && tags.len() < n && rng.chance(6, 10) {
        tags.insert(HEAD);
    }
    let mut guard = 0;
    while tags.len() < n && guard < 1_000_000 {
        guard += 1;
        let t = if rng.chance(p_special, 10) { *rng.pick(specials) } else { random_tag(&mut rng) };
        tags.insert(t);
    }
    while tags.len() > n {
        let t = *tags.iter().nth(rng.usize(tags.len())).unwrap();
        tags.remove(&t);
    }
    let mut budget: usize = if thorough { 3 << 20 } else { 1 << 20 };
    let mut map = BTreeMap::new();
    let mut fills = BTreeSet::new();
    for t in tags {
        let mut len = if t == HEAD {
            match rng.below(10) {
                0 => rng.below(12) as usize,
                1 => 11,
                2 => 12,
                3 => 13,
                4 => *rng.pick(&[14usize, 15, 16, 53, 55]),
                5 | 6 => 54,
                _ => pick_len(&mut rng, tiny_only),
            }
        } else {
            pick_len(&mut rng, tiny_only)
        };
        if len > budget {
            len = rng.below(18) as usize;
        }
        budget -= len.min(budget);
        let (data, kind) = fill(&mut rng, len);
        fills.insert(kind);
        map.insert(t, data);
    }
    Case {
        index,
        map,
        fills,
        shape,
    }
}

fn map_digest(map: &BTreeMap<u32, Vec<u8>>) -> u64 {
    let mut d = Digest::new();
    for (t, v) in map {
        d.u32(*t);
        d.u64(v.len() as u64);
        d.bytes(v);
    }
    d.finish()
}

// ------------------------------------------------------------ oracle

struct Problem {
    kind: &'static str,
    detail: Value,
}

struct Observed {
    carries: u64,
    file_checksum_checked: bool,
    tight: bool,
    physical_order: Vec<u32>,
}

/// Check one built file against the model with the independent reader and
/// with FontRef.
fn check_output(model: &BTreeMap<u32, Vec<u8>>, out: &[u8]) -> (Vec<Problem>, Observed) {
    let mut ps: Vec<Problem> = vec![];
    let mut obs = Observed {
        carries: 0,
        file_checksum_checked: false,
        tight: true,
        physical_order: vec![],
    };
    macro_rules! bad {
        ($k:expr, $d:expr) => {
            ps.push(Problem { kind: $k, detail: $d })
        };
    }
    let n = model.len();
    // ---------------- independent reader
    let sf = match sfnt::parse(out) {
        Ok(s) => s,
        Err(e) => {
            bad!("reopen-failed-independent", json!({"error": e, "file_len": out.len()}));
            return (ps, obs);
        }
    };
    if ![0x0001_0000u32, 0x4F54_544F, 0x7472_7565].contains(&sf.version) {
        bad!("bad-sfnt-version", json!({"version": sf.version}));
    }
    if sf.num_tables as usize != n {
        bad!("num-tables", json!({"expected": n, "got": sf.num_tables}));
    }
    if n >= 1 {
        let (sr, es, rs) = sfnt::search_fields(n);
        if (sf.search_range as u32, sf.entry_selector as u32, sf.range_shift as u32) != (sr, es, rs) {
            bad!(
                "search-fields",
                json!({"n": n, "expected": [sr, es, rs], "got": [sf.search_range, sf.entry_selector, sf.range_shift]})
            );
        }
    }
    let got_tags: Vec<u32> = sf.recs.iter().map(|r| r.tag).collect();
    let want_tags: Vec<u32> = model.keys().copied().collect();
    if got_tags != want_tags {
        bad!(
            "tag-list",
            json!({"expected": want_tags.iter().map(|t| tag_str(*t)).collect::<Vec<_>>(), "got": got_tags.iter().map(|t| tag_str(*t)).collect::<Vec<_>>()})
        );
    }
    let header_len = 12 + 16 * sf.recs.len();
    let mut covered = vec![false; out.len()];
    for c in covered.iter_mut().take(header_len.min(out.len())) {
        *c = true;
    }
    let mut overlap = false;
    for r in &sf.recs {
        let t = tag_str(r.tag);
        if r.offset % 4 != 0 {
            bad!("misaligned-offset", json!({"tag": t, "offset": r.offset, "length": r.length}));
        }
        if (r.offset as usize) < header_len {
            bad!("offset-inside-directory", json!({"tag": t, "offset": r.offset}));
        }
        let Some(data) = sfnt::table(out, r) else {
            bad!("table-out-of-bounds", json!({"tag": t, "offset": r.offset, "length": r.length, "file_len": out.len()}));
            continue;
        };
        for c in covered[r.offset as usize..r.offset as usize + r.length as usize].iter_mut() {
            if *c {
                overlap = true;
            }
            *c = true;
        }
        let is_head = r.tag == HEAD;
        let (sum, carries) = if is_head { sfnt::checksum_head(data) } else { sfnt::checksum(data) };
        obs.carries += carries;
        if sum != r.checksum {
            bad!(
                "directory-checksum",
                json!({"tag": t, "length": r.length, "len_mod4": r.length % 4, "recorded": r.checksum, "recomputed": sum})
            );
        }
        if let Some(want) = model.get(&r.tag) {
            let same = if is_head && want.len() >= 12 {
                data.len() == want.len() && data[..8] == want[..8] && data[12..] == want[12..]
            } else {
                data == &want[..]
            };
            if !same {
                let first = data.iter().zip(want.iter()).position(|(a, b)| a != b);
                bad!(
                    "table-bytes",
                    json!({"tag": t, "expected_len": want.len(), "got_len": data.len(), "first_diff": first})
                );
            }
        }
    }
    // padding: every byte outside the directory and the table ranges is zero
    if let Some(p) = (0..out.len()).find(|i| !covered[*i] && out[*i] != 0) {
        bad!("nonzero-padding", json!({"at": p, "byte": out[p]}));
    }
    if out.len() % 4 != 0 {
        bad!("file-length-not-multiple-of-4", json!({"file_len": out.len()}));
    }
    // tightness (observation, not required by the property)
    let mut by_off: Vec<&sfnt::Rec> = sf.recs.iter().collect();
    by_off.sort_by_key(|r| (r.offset, r.length != 0, r.tag));
    let mut pos = header_len as u64;
    for r in &by_off {
        if r.offset as u64 != pos {
            obs.tight = false;
        }
        pos = r.offset as u64 + ((r.length as u64 + 3) & !3);
    }
    if pos != out.len() as u64 || overlap {
        obs.tight = false;
    }
    obs.physical_order = by_off.iter().filter(|r| r.length != 0).map(|r| r.tag).collect();
    // whole-file checksum
    let head_ok = model.get(&HEAD).map(|h| h.len() >= 12).unwrap_or(false);
    let (file_sum, _) = sfnt::checksum(out);
    if head_ok {
        obs.file_checksum_checked = true;
        if file_sum != 0xB1B0_AFBA {
            bad!("file-checksum", json!({"got": file_sum, "expected": 0xB1B0AFBAu32, "file_len": out.len()}));
        }
    }
    let lib_sum = write_fonts::read::tables::compute_checksum(out);
    if lib_sum != file_sum {
        bad!("checksum-oracles-disagree", json!({"independent": file_sum, "read_fonts": lib_sum}));
    }

    // ---------------- FontRef
    match FontRef::new(out) {
        Err(e) => bad!("reopen-failed-fontref", json!({"error": format!("{e}")})),
        Ok(font) => {
            let td = &font.table_directory;
            let recs = td.table_records();
            let ftags: Vec<u32> = recs.iter().map(|r| u32::from_be_bytes(r.tag().to_be_bytes())).collect();
            if ftags != want_tags {
                bad!("tag-list-fontref", json!({"expected_n": want_tags.len(), "got_n": ftags.len()}));
            }
            if (td.num_tables(), td.search_range(), td.entry_selector(), td.range_shift())
                != (sf.num_tables, sf.search_range, sf.entry_selector, sf.range_shift)
            {
                bad!("readers-disagree-header", json!({}));
            }
            for (i, r) in recs.iter().enumerate() {
                if let Some(m) = sf.recs.get(i) {
                    if (r.checksum(), r.offset(), r.length()) != (m.checksum, m.offset, m.length) {
                        bad!("readers-disagree-record", json!({"index": i}));
                    }
                }
            }
            for (t, want) in model {
                let tag = Tag::from_be_bytes(t.to_be_bytes());
                match font.table_data(tag) {
                    None => bad!("table_data-none", json!({"tag": tag_str(*t), "len": want.len()})),
                    Some(d) => {
                        let data = d.as_bytes();
                        let same = if *t == HEAD && want.len() >= 12 {
                            data.len() == want.len() && data[..8] == want[..8] && data[12..] == want[12..]
                        } else {
                            data == &want[..]
                        };
                        if !same {
                            bad!("table_data-bytes", json!({"tag": tag_str(*t), "expected_len": want.len(), "got_len": data.len()}));
                        }
                        if font.data_for_tag(tag).map(|d| d.as_bytes()) != Some(data) {
                            bad!("data_for_tag-differs", json!({"tag": tag_str(*t)}));
                        }
                    }
                }
                // neighbours that are absent must not be found
                for nb in [t.wrapping_sub(1), t.wrapping_add(1)] {
                    if !model.contains_key(&nb) && font.table_data(Tag::from_be_bytes(nb.to_be_bytes())).is_some() {
                        bad!("absent-tag-found", json!({"tag": tag_str(nb)}));
                    }
                }
            }
        }
    }
    (ps, obs)
}

// ------------------------------------------------------------ driver of one case

struct Reporter {
    per_kind: BTreeMap<&'static str, u32>,
}

impl Reporter {
    fn report(&mut self, ctx: &mut Ctx, case: u64, how: &str, p: Problem, out: Option<&[u8]>) {
        let c = self.per_kind.entry(p.kind).or_insert(0);
        *c += 1;
        ctx.count(&format!("problem:{}", p.kind), 1);
        if *c > 4 {
            return;
        }
        let sig = format!("{}:case={}:{}", p.kind, case, how);
        ctx.violation(&sig, json!({"case_index": case, "how": how, "problem": p.kind, "detail": p.detail}), out);
    }
}

fn t(tag: u32) -> Tag {
    Tag::from_be_bytes(tag.to_be_bytes())
}

fn build_in_order(map: &BTreeMap<u32, Vec<u8>>, order: &[u32], borrowed: bool, via_clone: bool) -> Vec<u8> {
    let mut b = FontBuilder::new();
    for tag in order {
        let d = &map[tag];
        if borrowed {
            b.add_raw(t(*tag), &d[..]);
        } else {
            b.add_raw(t(*tag), d.clone());
        }
    }
    if via_clone {
        let mut c = b.clone();
        drop(b);
        c.build()
    } else {
        b.build()
    }
}

struct Second {
    name: String,
    data: Vec<u8>,
    tables: Vec<(u32, Vec<u8>)>,
}

/// Parse a second font with the independent reader; usable as a
/// copy_missing_tables source only if its directory is sorted, unique and
/// every table is in bounds (what the binary search in FontRef presumes).
fn second_from_bytes(name: &str, data: &[u8]) -> Option<Second> {
    let sf = sfnt::parse(data).ok()?;
    if ![0x0001_0000u32, 0x4F54_544F, 0x7472_7565].contains(&sf.version) {
        return None;
    }
    let mut tables = vec![];
    let mut prev: Option<u32> = None;
    for r in &sf.recs {
        if let Some(p) = prev {
            if p >= r.tag {
                return None;
            }
        }
        prev = Some(r.tag);
        if r.offset == 0 {
            return None;
        }
        tables.push((r.tag, sfnt::table(data, r)?.to_vec()));
    }
    Some(Second {
        name: name.to_string(),
        data: data.to_vec(),
        tables,
    })
}

fn run_one(ctx: &mut Ctx, rep: &mut Reporter, case: &Case, corpus: &[vf_core::CorpusFont]) {
    let idx = case.index;
    let map = &case.map;
    let n = map.len();
    let mut rng = Rng::derive(ctx.seed, "c06-orders", idx);
    let tags: Vec<u32> = map.keys().copied().collect();

    // ---- evidence about the case
    ctx.count(&format!("shape:{}", case.shape), 1);
    ctx.label("ntables_reached", &format!("{:05}", n));
    for (tg, v) in map {
        ctx.count(&format!("len_mod4:{}", v.len() % 4), 1);
        ctx.count("tables_total", 1);
        if v.is_empty() {
            ctx.count("tables_empty", 1);
        }
        if v.len() >= 65535 {
            ctx.count("tables_ge_65535", 1);
        }
        if *tg == HEAD {
            ctx.count(if v.len() >= 12 { "head_ge_12" } else { "head_lt_12" }, 1);
            ctx.label("head_lengths", &format!("{:06}", v.len()));
        }
    }
    for f in &case.fills {
        ctx.count(&format!("fill:{}", f), 1);
    }
    if map.contains_key(&CFF) {
        ctx.count("maps_with_CFF", 1);
    }
    if map.contains_key(&DSIG) {
        ctx.count("maps_with_DSIG", 1);
    }
    if map.contains_key(&0) || map.contains_key(&0xFFFF_FFFF) {
        ctx.count("maps_with_extreme_tag", 1);
    }

    // ---- insertion orders
    let n_orders = if n <= 1 { 3 } else { 3 + rng.below(3) as usize };
    let mut orders: Vec<Vec<u32>> = vec![];
    orders.push(tags.clone());
    let mut r = tags.clone();
    r.reverse();
    orders.push(r);
    while orders.len() < n_orders {
        let mut o = tags.clone();
        rng.shuffle(&mut o);
        orders.push(o);
    }
    let mut first: Option<Vec<u8>> = None;
    let mut any_carry = false;
    let mut head_checked = false;
    for (oi, order) in orders.iter().enumerate() {
        let borrowed = rng.bool();
        let via_clone = rng.chance(1, 4);
        let how = format!("order{}{}{}", oi, if borrowed { "-borrowed" } else { "-owned" }, if via_clone { "-clone" } else { "" });
        let label = || format!("case {} {} n={}", idx, how, n);
        ctx.eval();
        ctx.count("builds", 1);
        let res = ctx.run_case(&label, None, &|| build_in_order(map, order, borrowed, via_clone));
        let out = match res {
            Ok(o) => o,
            Err(p) => {
                ctx.judge_panic(
                    &p,
                    "FontBuilder::build",
                    json!({"case_index": idx, "how": how, "n_tables": n}),
                    None,
                );
                continue;
            }
        };
        match &first {
            None => {
                let (ps, obs) = check_output(map, &out);
                ctx.count("outputs_fully_checked", 1);
                ctx.count("checksum_carries_observed", obs.carries);
                if obs.carries > 0 {
                    any_carry = true;
                    ctx.count("outputs_with_wrapping_sum", 1);
                }
                if obs.file_checksum_checked {
                    head_checked = true;
                    ctx.count("file_checksum_checked", 1);
                }
                ctx.count(if obs.tight { "layout_tight" } else { "layout_not_tight" }, 1);
                let mut d = Digest::new();
                for tg in obs.physical_order.iter().filter(|x| special_tags().contains(x)) {
                    d.u32(*tg);
                }
                ctx.distinct("physical_order_of_special_tags", d.finish());
                if n <= 6 {
                    ctx.sample_by_kind(
                        case.shape,
                        json!({"case_index": idx, "tables": map.iter().map(|(k, v)| json!([tag_str(*k), v.len()])).collect::<Vec<_>>(),
                               "file_len": out.len(), "physical_order": obs.physical_order.iter().map(|x| tag_str(*x)).collect::<Vec<_>>()}),
                    );
                }
                for p in ps {
                    rep.report(ctx, idx, &how, p, Some(&out));
                }
                first = Some(out);
            }
            Some(f) => {
                ctx.count("order_comparisons", 1);
                if *f != out {
                    let at = f.iter().zip(out.iter()).position(|(a, b)| a != b);
                    rep.report(
                        ctx,
                        idx,
                        &how,
                        Problem {
                            kind: "insertion-order-dependence",
                            detail: json!({"first_diff": at, "len_a": f.len(), "len_b": out.len(),
                                       "order": order.iter().map(|x| tag_str(*x)).collect::<Vec<_>>()}),
                        },
                        Some(&out),
                    );
                    // also say what is wrong with this one
                    let (ps, _) = check_output(map, &out);
                    for p in ps {
                        rep.report(ctx, idx, &how, p, Some(&out));
                    }
                }
            }
        }
    }

    // ---- non-triviality
    let unaligned = map.values().any(|v| v.len() % 4 != 0);
    if n >= 2 && unaligned && (head_checked || any_carry) {
        ctx.nontrivial(map_digest(map));
    }

    // ---- add_raw / copy_missing_tables histories
    let n_hist = if n > 300 { 1 } else { 2 };
    for h in 0..n_hist {
        let mut hr = Rng::derive(ctx.seed, "c06-history", idx * 8 + h);
        // the second font
        let second: Option<Second> = if hr.bool() && !corpus.is_empty() {
            let f = hr.pick(corpus);
            let s = second_from_bytes(&f.name, &f.data);
            if s.is_none() {
                ctx.count("second_font_unusable", 1);
            }
            s
        } else {
            // a built font sharing some tags with the map, with different data
            let mut m2: BTreeMap<u32, Vec<u8>> = BTreeMap::new();
            for tg in &tags {
                if hr.chance(1, 2) && m2.len() < 24 {
                    let len = pick_len(&mut hr, n > 64).min(5000);
                    m2.insert(*tg, fill(&mut hr, len).0);
                }
            }
            for _ in 0..hr.below(6) {
                let tg = if hr.bool() { *hr.pick(special_tags()) } else { random_tag(&mut hr) };
                let len = pick_len(&mut hr, false).min(5000);
                m2.entry(tg).or_insert_with(|| fill(&mut hr, len).0);
            }
            let order: Vec<u32> = m2.keys().copied().collect();
            match vf_core::guard(|| build_in_order(&m2, &order, false, false)) {
                Ok(bytes) => {
                    let mut s = second_from_bytes("built", &bytes);
                    if let Some(s) = &mut s {
                        s.name = format!("built({} tables)", m2.len());
                    } else {
                        ctx.count("second_font_unusable", 1);
                    }
                    s
                }
                Err(p) => {
                    ctx.judge_panic(&p, "FontBuilder::build (second font)", json!({"case_index": idx, "history": h}), None);
                    None
                }
            }
        };
        let Some(second) = second else { continue };
        // pre-copy subset
        let mut pre: Vec<u32> = tags.iter().copied().filter(|_| hr.chance(1, 2)).collect();
        hr.shuffle(&mut pre);
        let mut model: BTreeMap<u32, Vec<u8>> = BTreeMap::new();
        for tg in &pre {
            model.insert(*tg, map[tg].clone());
        }
        let mut conflicts = 0u64;
        for (tg, d) in &second.tables {
            if let Some(m) = model.get(tg) {
                if m != d {
                    conflicts += 1;
                }
            } else {
                model.insert(*tg, d.clone());
            }
        }
        let mut post: Vec<u32> = tags.iter().copied().filter(|tg| !model.contains_key(tg)).collect();
        hr.shuffle(&mut post);
        for tg in &post {
            model.insert(*tg, map[tg].clone());
        }
        // optionally a second copy from the font built above (everything in it
        // that is also in the model must be ignored)
        let third: Option<&Vec<u8>> = if hr.bool() { first.as_ref() } else { None };
        if let Some(f3) = third {
            if let Some(s3) = second_from_bytes("first-output", f3) {
                for (tg, d) in &s3.tables {
                    if let Some(m) = model.get(tg) {
                        if m != d {
                            conflicts += 1;
                        }
                    } else {
                        model.insert(*tg, d.clone());
                    }
                }
            }
        }
        if model.len() >= 4096 {
            continue;
        }
        let how = format!("history{}-vs-{}", h, second.name);
        let label = || format!("case {} {}", idx, how);
        ctx.eval();
        ctx.count("copy_histories", 1);
        ctx.count("copy_conflicting_tags", conflicts);
        ctx.count("copy_pre_tables", pre.len() as u64);
        ctx.count("copy_post_tables", post.len() as u64);
        if third.is_some() {
            ctx.count("copy_two_sources", 1);
        }
        let sdata = &second.data;
        let res = ctx.run_case(&label, None, &|| -> Option<Vec<u8>> {
            let f2 = FontRef::new(sdata).ok()?;
            let mut b = FontBuilder::new();
            for tg in &pre {
                b.add_raw(t(*tg), &map[tg][..]);
            }
            b.copy_missing_tables(f2);
            for tg in &post {
                b.add_raw(t(*tg), map[tg].clone());
            }
            if let Some(f3) = third {
                b.copy_missing_tables(FontRef::new(f3).ok()?);
            }
            Some(b.build())
        });
        match res {
            Err(p) => ctx.judge_panic(&p, "add_raw/copy_missing_tables/build", json!({"case_index": idx, "history": h, "second": second.name}), None),
            Ok(None) => {
                // FontRef refused the second font: for a corpus font that is not
                // this property's business; for a built font check_output has
                // already reported it.
                ctx.count("second_font_refused_by_fontref", 1);
            }
            Ok(Some(out)) => {
                let (ps, _) = check_output(&model, &out);
                // name the copy-specific failure precisely
                let mut overrode = vec![];
                if let Ok(sf) = sfnt::parse(&out) {
                    for r in &sf.recs {
                        if pre.contains(&r.tag) {
                            let got = sfnt::table(&out, r).unwrap_or(&[]);
                            let mine = &map[&r.tag];
                            let theirs = second.tables.iter().find(|(x, _)| *x == r.tag).map(|(_, d)| d);
                            let eq_mine = if r.tag == HEAD && mine.len() >= 12 {
                                got.len() == mine.len() && got[..8] == mine[..8] && got[12..] == mine[12..]
                            } else {
                                got == &mine[..]
                            };
                            let eq_theirs = theirs.map(|th| {
                                if r.tag == HEAD && th.len() >= 12 {
                                    got.len() == th.len() && got[..8] == th[..8] && got[12..] == th[12..]
                                } else {
                                    got == &th[..]
                                }
                            });
                            if !eq_mine && eq_theirs == Some(true) {
                                overrode.push(tag_str(r.tag));
                            }
                        }
                    }
                }
                if !overrode.is_empty() {
                    rep.report(
                        ctx,
                        idx,
                        &how,
                        Problem {
                            kind: "copy_missing_tables-overrode-present-table",
                            detail: json!({"tags": overrode, "second": second.name}),
                        },
                        Some(&out),
                    );
                }
                if conflicts > 0 && model.values().any(|v| v.len() % 4 != 0) {
                    let mut d = Digest::new();
                    d.u64(map_digest(&model));
                    d.str("history");
                    ctx.nontrivial(d.finish());
                }
                for p in ps {
                    rep.report(ctx, idx, &how, p, Some(&out));
                }
            }
        }
    }
}

fn n_cases(ctx: &Ctx) -> u64 {
    ctx.tier.pick(64_000, 800_000)
}

pub fn run(ctx: &mut Ctx, _args: &Args) {
    ctx.policy = PanicPolicy::Any;
    ctx.rule = "a tag->bytes map with >= 2 tables, at least one length not a multiple of 4, and either a head table >= 12 bytes \
                (whole-file checksum checked) or a table whose 32-bit word sum carried; or a copy_missing_tables history in which \
                the source font holds a different table under a tag already supplied. Digest = tags, lengths and contents of the map."
        .into();
    ctx.assumptions = vec![
        "fewer than 4096 tables (searchRange = 16*2^floor(log2 n) is not representable in 16 bits beyond; probed separately)".into(),
        "each tag is added once per builder (re-adding a tag is outside 'distinct tags'); build() is called once per builder".into(),
        "copy_missing_tables sources have a sorted, duplicate-free directory with in-bounds tables".into(),
        "the spec leaves searchRange/entrySelector/rangeShift undefined for 0 tables: not checked there".into(),
    ];
    let corpus: Vec<vf_core::CorpusFont> = vf_core::corpus_fonts().into_iter().filter(|f| f.data.len() < 400_000).collect();
    ctx.extra.insert("second_font_corpus_size".into(), json!(corpus.len()));
    let mut rep = Reporter {
        per_kind: BTreeMap::new(),
    };
    let total = n_cases(ctx);
    let thorough = ctx.tier.is_thorough();
    for i in 0..total {
        if !ctx.mine(i as usize) {
            continue;
        }
        let case = gen_map(ctx.seed, i, thorough);
        run_one(ctx, &mut rep, &case, &corpus);
    }
    // ---- probe of the table-count limit (shard 0 only)
    if ctx.shard.0 == 0 {
        probe_limit(ctx);
    }
}

/// 4095 tables is the largest count whose searchRange fits 16 bits; 4096 is
/// probed and reported under its own signature.
fn probe_limit(ctx: &mut Ctx) {
    for n in [4095usize, 4096] {
        let mut map = BTreeMap::new();
        for i in 0..n {
            map.insert(0x4100_0000u32 + i as u32 * 3, vec![i as u8; i % 7]);
        }
        let order: Vec<u32> = map.keys().rev().copied().collect();
        ctx.eval();
        let label = || format!("limit-probe n={}", n);
        match ctx.run_case(&label, None, &|| build_in_order(&map, &order, true, false)) {
            Ok(out) => {
                ctx.count(&format!("limit_probe_built:{}", n), 1);
                if n < 4096 {
                    let (ps, _) = check_output(&map, &out);
                    for p in ps {
                        let sig = format!("{}:limit-probe:n={}", p.kind, n);
                        ctx.violation(&sig, json!({"n": n, "detail": p.detail}), None);
                    }
                }
            }
            Err(p) => {
                ctx.count(&format!("limit_probe_panicked:{}", n), 1);
                if p.in_repo() {
                    let sig = format!("build-panics:n_tables={}", n);
                    ctx.violation(&sig, json!({"n_tables": n, "panic": {"file": p.file, "line": p.line, "msg": p.msg}}), None);
                } else {
                    ctx.inconclusive(format!("harness panic in limit probe {}:{}", p.file, p.line));
                }
            }
        }
    }
}

fn replay(ctx: &mut Ctx, _args: &Args, rec: &Value, _bytes: Option<&[u8]>) {
    ctx.policy = PanicPolicy::Any;
    ctx.rule = "replay of one recorded case".into();
    let corpus: Vec<vf_core::CorpusFont> = vf_core::corpus_fonts().into_iter().filter(|f| f.data.len() < 400_000).collect();
    let mut rep = Reporter {
        per_kind: BTreeMap::new(),
    };
    if let Some(i) = rec["detail"]["case_index"].as_u64() {
        let case = gen_map(ctx.seed, i, ctx.tier.is_thorough());
        run_one(ctx, &mut rep, &case, &corpus);
        ctx.nontrivial(1);
        ctx.nontrivial(2);
    } else {
        probe_limit(ctx);
    }
}
