fn main() {
    vf_core::main_with("C06", vf_c06::run, vf_c06::REPLAY);
}
