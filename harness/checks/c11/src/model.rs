//! Reference models for C11, written from the OpenType specification
//! (otvarcommonformats "Item variation store", "DeltaSetIndexMap";
//! otvaroverview "Coordinate scales and normalization", "Algorithm for
//! interpolation of instance values"; avar; hmtx). Nothing in here calls
//! into read-fonts / write-fonts / skrifa.

pub use crate::gvmodel::{axis_scalar, Frac, TentBits};

pub fn be16(b: &[u8], p: usize) -> Result<u16, String> {
    if p + 2 > b.len() {
        return Err(format!("read u16 at {} beyond {}", p, b.len()));
    }
    Ok(u16::from_be_bytes([b[p], b[p + 1]]))
}
pub fn be32(b: &[u8], p: usize) -> Result<u32, String> {
    if p + 4 > b.len() {
        return Err(format!("read u32 at {} beyond {}", p, b.len()));
    }
    Ok(u32::from_be_bytes([b[p], b[p + 1], b[p + 2], b[p + 3]]))
}

// ------------------------------------------------------------------ item variation store

#[derive(Clone, Debug)]
pub struct RawIvd {
    pub item_count: usize,
    pub region_indexes: Vec<u16>,
    pub rows: Vec<Vec<i32>>,
    pub long_words: bool,
    pub word_count: usize,
}

#[derive(Clone, Debug)]
pub struct RawIvs {
    pub axis_count: usize,
    pub regions: Vec<Vec<TentBits>>,
    /// None = NULL offset
    pub data: Vec<Option<RawIvd>>,
}

impl RawIvs {
    pub fn parse(b: &[u8]) -> Result<RawIvs, String> {
        let format = be16(b, 0)?;
        if format != 1 {
            return Err(format!("ItemVariationStore format {}", format));
        }
        let rl = be32(b, 2)? as usize;
        let n = be16(b, 6)? as usize;
        let axis_count = be16(b, rl)? as usize;
        let region_count = be16(b, rl + 2)? as usize;
        let mut regions = Vec::with_capacity(region_count);
        let mut p = rl + 4;
        for _ in 0..region_count {
            let mut r = Vec::with_capacity(axis_count);
            for _ in 0..axis_count {
                r.push((be16(b, p)? as i16, be16(b, p + 2)? as i16, be16(b, p + 4)? as i16));
                p += 6;
            }
            regions.push(r);
        }
        let mut data = Vec::with_capacity(n);
        for i in 0..n {
            let off = be32(b, 8 + 4 * i)? as usize;
            if off == 0 {
                data.push(None);
                continue;
            }
            let item_count = be16(b, off)? as usize;
            let wdc = be16(b, off + 2)?;
            let ric = be16(b, off + 4)? as usize;
            let long_words = wdc & 0x8000 != 0;
            let word_count = (wdc & 0x7fff) as usize;
            if word_count > ric {
                return Err(format!("subtable {}: wordDeltaCount {} > regionIndexCount {}", i, word_count, ric));
            }
            let mut region_indexes = Vec::with_capacity(ric);
            for k in 0..ric {
                let r = be16(b, off + 6 + 2 * k)?;
                if r as usize >= region_count {
                    return Err(format!("subtable {}: region index {} out of {}", i, r, region_count));
                }
                region_indexes.push(r);
            }
            let mut p = off + 6 + 2 * ric;
            let mut rows = Vec::with_capacity(item_count);
            for _ in 0..item_count {
                let mut row = Vec::with_capacity(ric);
                for k in 0..ric {
                    let v = if k < word_count {
                        if long_words {
                            let v = be32(b, p)? as i32;
                            p += 4;
                            v
                        } else {
                            let v = be16(b, p)? as i16 as i32;
                            p += 2;
                            v
                        }
                    } else if long_words {
                        let v = be16(b, p)? as i16 as i32;
                        p += 2;
                        v
                    } else {
                        let v = *b.get(p).ok_or("row byte beyond table")? as i8 as i32;
                        p += 1;
                        v
                    };
                    row.push(v);
                }
                rows.push(row);
            }
            data.push(Some(RawIvd { item_count, region_indexes, rows, long_words, word_count }));
        }
        Ok(RawIvs { axis_count, regions, data })
    }

    /// The (region tents, delta) pairs of one row; `None` if the index does
    /// not address a row.
    pub fn row(&self, outer: u16, inner: u16) -> Option<Vec<(&Vec<TentBits>, i32)>> {
        let d = self.data.get(outer as usize)?.as_ref()?;
        let row = d.rows.get(inner as usize)?;
        Some(d.region_indexes.iter().zip(row).map(|(r, v)| (&self.regions[*r as usize], *v)).collect())
    }
}

/// Exact region scalar of the spec as a fraction, or None when i128 would
/// overflow (not reachable with <= 6 axes).
pub fn region_scalar_exact(tents: &[TentBits], coords: &[i16]) -> (Frac, usize) {
    let mut s = Frac::int(1);
    let mut partial = 0usize;
    for (i, t) in tents.iter().enumerate() {
        let c = coords.get(i).copied().unwrap_or(0);
        if let Some(f) = axis_scalar(*t, c) {
            if f.is_zero() {
                return (Frac::int(0), partial);
            }
            if f.n != f.d {
                partial += 1;
                s = s * f;
            }
        }
    }
    (s, partial)
}

/// f64 version for many axes.
pub fn region_scalar_f64(tents: &[TentBits], coords: &[i16]) -> (f64, usize) {
    let mut s = 1.0f64;
    let mut partial = 0usize;
    for (i, t) in tents.iter().enumerate() {
        let c = coords.get(i).copied().unwrap_or(0);
        if let Some(f) = axis_scalar(*t, c) {
            if f.is_zero() {
                return (0.0, partial);
            }
            if f.n != f.d {
                partial += 1;
                s *= f.to_f64();
            }
        }
    }
    (s, partial)
}

/// Sum over regions of scalar x delta (f64; each scalar is a product of exact
/// 16-bit rationals) and the bound of the library's documented 16.16 scalar
/// rounding: sum |delta| * k / 2^17, k = number of partially active axes.
pub fn row_delta(row: &[(&Vec<TentBits>, i32)], coords: &[i16]) -> (f64, f64, f64) {
    let mut x = 0.0f64;
    let mut eps = 0.0f64;
    let mut abs_sum = 0.0f64;
    for (tents, d) in row {
        let (s, k) = region_scalar_f64(tents, coords);
        x += s * *d as f64;
        eps += (*d as f64).abs() * k as f64 / 131072.0;
        abs_sum += (*d as f64).abs();
    }
    (x, eps, abs_sum)
}

// ------------------------------------------------------------------ DeltaSetIndexMap

#[derive(Clone, Debug)]
pub struct RawDsim {
    pub format: u8,
    pub entry_size: usize,
    pub inner_bits: u32,
    pub entries: Vec<(u16, u16)>,
}

impl RawDsim {
    pub fn parse(b: &[u8]) -> Result<RawDsim, String> {
        let format = *b.first().ok_or("dsim: empty")?;
        let ef = *b.get(1).ok_or("dsim: truncated")?;
        let (count, mut p) = match format {
            0 => (be16(b, 2)? as usize, 4usize),
            1 => (be32(b, 2)? as usize, 6usize),
            f => return Err(format!("dsim format {}", f)),
        };
        let entry_size = ((ef & 0x30) >> 4) as usize + 1;
        let inner_bits = (ef & 0x0f) as u32 + 1;
        let mut entries = Vec::with_capacity(count);
        for _ in 0..count {
            let mut v: u32 = 0;
            for _ in 0..entry_size {
                v = (v << 8) | *b.get(p).ok_or("dsim: entry beyond table")? as u32;
                p += 1;
            }
            let outer = v >> inner_bits;
            let inner = v & ((1u32 << inner_bits) - 1);
            entries.push((outer as u16, inner as u16));
        }
        Ok(RawDsim { format, entry_size, inner_bits, entries })
    }
    /// Spec: an index >= mapCount uses the last entry.
    pub fn get(&self, i: u32) -> Option<(u16, u16)> {
        if self.entries.is_empty() {
            return None;
        }
        let k = (i as usize).min(self.entries.len() - 1);
        Some(self.entries[k])
    }
}

// ------------------------------------------------------------------ normalisation

/// Exact default normalisation of a user value (all in 16.16 bits).
/// Returns the exact rational normalised value (in units of 1.0).
pub fn normalize_exact(min: i64, def: i64, max: i64, v: i64) -> Frac {
    let v = v.clamp(min, max.max(min));
    if v < def {
        if def == min {
            return Frac::int(0);
        }
        Frac::new(-((def - v) as i128), (def - min) as i128)
    } else if v > def {
        if max == def {
            return Frac::int(0);
        }
        Frac::new((v - def) as i128, (max - def) as i128)
    } else {
        Frac::int(0)
    }
}

/// The 16.16 values within half an LSB of the exact value q (ties: both).
pub fn fixed_candidates(q: Frac) -> Vec<i64> {
    // q * 65536
    let n = q.n * 65536;
    let d = q.d;
    let fl = n.div_euclid(d);
    let rem = n.rem_euclid(d); // 0 <= rem < d
    let mut v = vec![];
    if rem * 2 <= d {
        v.push(fl as i64);
    }
    if rem * 2 >= d && rem != 0 {
        v.push(fl as i64 + 1);
    }
    v
}

/// Spec step 5: 16.16 -> 2.14 "add 0x00000002, shift right by 2".
pub fn fixed_to_f2dot14(c: i64) -> i64 {
    (c + 2) >> 2
}

/// Exact avar segment map application on a 16.16 normalised coordinate;
/// `map` = (from, to) in F2Dot14 bits, strictly increasing `from`.
/// Returns the exact rational result in units of 1.0.
pub fn avar_exact(map: &[(i16, i16)], c: i64) -> Frac {
    // coordinates in 16.16
    let pts: Vec<(i64, i64)> = map.iter().map(|(f, t)| (*f as i64 * 4, *t as i64 * 4)).collect();
    for (i, (f, t)) in pts.iter().enumerate() {
        if *f == c {
            return Frac::new(*t as i128, 65536);
        }
        if *f > c {
            if i == 0 {
                return Frac::new(c as i128, 65536);
            }
            let (pf, pt) = pts[i - 1];
            // pt + (t - pt) * (c - pf) / (f - pf)
            let num = pt as i128 * (f - pf) as i128 + (*t - pt) as i128 * (c - pf) as i128;
            return Frac::new(num, (f - pf) as i128 * 65536);
        }
    }
    Frac::new(c as i128, 65536)
}
