//! (a) VariationStoreBuilder: every delta set added is retrievable, through
//! the remapped index, from the COMPILED table with exactly the same
//! per-region deltas; (b) ItemVariationStore::compute_delta ==
//! sum(tent scalar x delta); DeltaSetIndexMap lookups.

use crate::model::{row_delta, RawDsim, RawIvs, TentBits};
use read_fonts::tables::variations::{DeltaSetIndex, DeltaSetIndexMap as RDsim, ItemVariationStore as RIvs};
use read_fonts::{FontData, FontRead};
use serde_json::json;
use std::collections::BTreeMap;
use vf_core::{guard, Ctx, Digest, Rng};
use write_fonts::tables::variations::ivs_builder::VariationStoreBuilder;
use write_fonts::tables::variations::{DeltaSetIndexMap as WDsim, RegionAxisCoordinates, VariationRegion};
use write_fonts::types::F2Dot14;

#[derive(Clone, Debug)]
pub struct StoreCase {
    pub n_axes: usize,
    pub regions: Vec<Vec<TentBits>>,
    /// each row: (region index, delta) in the order handed to the builder
    pub rows: Vec<Vec<(usize, i32)>>,
    pub direct: bool,
    pub class: &'static str,
    pub case: u64,
}

impl StoreCase {
    pub fn digest(&self) -> u64 {
        let mut d = Digest::new();
        d.dbg(&self.regions);
        d.u64(self.direct as u64);
        for r in &self.rows {
            d.dbg(r);
        }
        d.finish()
    }
    pub fn summary(&self) -> serde_json::Value {
        json!({"class": self.class, "case": self.case, "axes": self.n_axes, "regions": self.regions.len(), "rows": self.rows.len(), "mode": if self.direct {"implicit-indices"} else {"deduplicated"}})
    }
}

pub fn gen_tent(rng: &mut Rng, allow_malformed: bool) -> TentBits {
    if allow_malformed && rng.chance(1, 12) {
        // regions the spec says to ignore on this axis
        return match rng.below(3) {
            0 => (8192, 4096, 16384),      // start > peak
            1 => (0, 16384, 8192),         // peak > end
            _ => (-8192, 4096, 16384),     // straddles zero with non-zero peak
        };
    }
    let neg = rng.chance(1, 3);
    let p: i16 = if rng.chance(2, 3) { *rng.pick(&[16384i16, 16384, 8192, 1, 16383, 4096, 12288, 2]) } else { rng.range(1, 16384) as i16 };
    let s = match rng.below(4) {
        0 | 1 => 0,
        2 => p,
        _ => rng.range(0, p as i64) as i16,
    };
    let e = match rng.below(4) {
        0 | 1 => p,
        2 => 16384,
        _ => rng.range(p as i64, 16384) as i16,
    };
    if neg {
        (-e, -p, -s)
    } else {
        (s, p, e)
    }
}

pub fn gen_regions(rng: &mut Rng, n_axes: usize, n: usize, allow_malformed: bool) -> Vec<Vec<TentBits>> {
    let mut out: Vec<Vec<TentBits>> = vec![];
    let mut tries = 0;
    while out.len() < n && tries < n * 20 {
        tries += 1;
        let mut r = vec![(0i16, 0i16, 0i16); n_axes];
        let mut any = false;
        for t in r.iter_mut() {
            if n_axes == 1 || rng.chance(1, 2) {
                *t = gen_tent(rng, allow_malformed);
                any = true;
            }
        }
        if !any {
            let a = rng.usize(n_axes);
            r[a] = gen_tent(rng, false);
        }
        if !out.contains(&r) {
            out.push(r);
        }
    }
    out
}

fn value_of_random_kind(rng: &mut Rng, lo: u8, hi: u8) -> i32 {
    let k = rng.range(lo as i64, hi as i64) as u8;
    value_of_kind(rng, k)
}

fn value_of_kind(rng: &mut Rng, kind: u8) -> i32 {
    match kind {
        0 => 0,
        1 => *rng.pick(&[-128i32, -127, -1, 1, 2, 126, 127, 5, -17]),
        2 => *rng.pick(&[-32768i32, -32767, -129, 128, 129, 255, 256, 32766, 32767, 1000, -1000]),
        _ => *rng.pick(&[-2147483648i64 as i32, -32769, 32768, 65536, 2147483647, 100000, -100000]),
    }
}

pub fn gen_store_case(rng: &mut Rng, class: &'static str, case: u64, thorough: bool) -> StoreCase {
    let n_axes = *rng.pick(&[1usize, 1, 2, 2, 3, 4]);
    let (n_regions, n_rows, n_templates, max_kind): (usize, usize, usize, u8) = match class {
        "tiny" => (rng.range(1, 4) as usize, rng.range(1, 6) as usize, 6, 3),
        "small" => (rng.range(1, 10) as usize, rng.range(1, 60) as usize, 8, 3),
        "wide" => (rng.range(20, 40) as usize, rng.range(10, 300) as usize, 20, 2),
        "many-shapes" => (rng.range(6, 14) as usize, rng.range(100, 900) as usize, 150, 3),
        "many-rows" => (rng.range(1, 8) as usize, if thorough { rng.range(3000, 20000) as usize } else { rng.range(800, 3000) as usize }, 6, 3),
        "huge" => (2, 66_000, 1, 2),
        _ => (3, 10, 3, 2),
    };
    let regions = gen_regions(rng, n_axes, n_regions, true);
    let n_regions = regions.len();
    let direct = class != "huge" && rng.chance(1, 3);
    // shape templates: kind per region
    let templates: Vec<Vec<u8>> = (0..n_templates)
        .map(|_| {
            let density = *rng.pick(&[1u64, 2, 2, 3, 5]);
            (0..n_regions)
                .map(|_| if rng.chance(1, density) { *rng.pick(&[1u8, 1, 1, 2, 2, 3]).min(&max_kind) } else { 0 })
                .collect()
        })
        .collect();
    let mut rows: Vec<Vec<(usize, i32)>> = Vec::with_capacity(n_rows);
    for i in 0..n_rows {
        let r = rng.below(100);
        let mut row: Vec<(usize, i32)>;
        if class == "huge" {
            // distinct (i16, i8) rows
            row = vec![(0, (i as i32 / 250) - 130), (1, (i as i32 % 250) - 125)];
        } else if r < 12 && !rows.is_empty() {
            // exact duplicate of an earlier row
            row = rows[rng.usize(rows.len())].clone();
        } else if r < 30 && !rows.is_empty() {
            // equal to an earlier row up to one column
            row = rows[rng.usize(rows.len())].clone();
            if row.is_empty() || rng.bool() {
                let reg = rng.usize(n_regions);
                if let Some(e) = row.iter_mut().find(|e| e.0 == reg) {
                    e.1 = value_of_random_kind(rng, 0, max_kind);
                } else {
                    row.push((reg, value_of_random_kind(rng, 1, max_kind)));
                }
            } else {
                let k = rng.usize(row.len());
                row[k].1 = value_of_random_kind(rng, 0, max_kind);
            }
        } else if r < 36 {
            // all zero / empty
            row = if rng.bool() { vec![] } else { (0..n_regions.min(3)).map(|k| (k, 0)).collect() };
        } else {
            let t = rng.pick(&templates);
            row = vec![];
            for (reg, k) in t.iter().enumerate() {
                if *k > 0 {
                    // occasionally a smaller magnitude inside a wider column
                    let kk = if rng.chance(1, 6) { rng.range(0, *k as i64) as u8 } else { *k };
                    let v = if rng.chance(if class == "many-rows" || class == "wide" { 9 } else { 1 }, if class == "many-rows" || class == "wide" { 10 } else { 3 }) {
                        match kk {
                            0 => 0,
                            1 => rng.range(-128, 127) as i32,
                            2 => rng.range(-32768, 32767) as i32,
                            _ => rng.range(-2147483648, 2147483647) as i32,
                        }
                    } else {
                        value_of_kind(rng, kk)
                    };
                    row.push((reg, v));
                }
            }
        }
        if class != "huge" {
            rng.shuffle(&mut row);
        }
        rows.push(row);
    }
    StoreCase { n_axes, regions, rows, direct, class, case }
}

/// Stores in which ONE row shape holds more than 0xFFFF distinct delta sets (the
/// builder must split that encoding into several ItemVariationData subtables),
/// surrounded by cheaper shapes (sorted before it) and costlier shapes (sorted
/// after it) on disjoint regions, so that encodings exist on both sides of the
/// split one. Rows of the small shapes are added before, in the middle of and
/// after the big shape's rows. `variant` selects the size class:
/// 0: 66_000..70_000 rows, 1: exactly 65_536 / 65_537 (a one/two-row tail chunk),
/// 2: 65_535 (no split, control), 3 (thorough only): > 131_070 rows (two splits).
pub fn gen_huge_mixed_case(rng: &mut Rng, case: u64, variant: u32) -> StoreCase {
    let n_axes = *rng.pick(&[1usize, 2, 3]);
    // regions 0..3 belong to the big shape, 3.. to the small shapes
    let mut regions = gen_regions(rng, n_axes, 9, false);
    let mut guard_n = 0;
    while regions.len() < 9 && guard_n < 50 {
        guard_n += 1;
        for r in gen_regions(rng, n_axes, 9, false) {
            if regions.len() < 9 && !regions.contains(&r) {
                regions.push(r);
            }
        }
    }
    let n_regions = regions.len();
    let n_big: usize = match variant {
        0 => rng.range(66_000, 70_000) as usize,
        1 => *rng.pick(&[65_536usize, 65_537]),
        2 => 65_535,
        _ => rng.range(131_071, 133_000) as usize,
    };
    // big shape: columns on regions 0.. with the given magnitude kinds
    // (1 = i8, 2 = i16, 3 = i32); every variant can hold > 133_000 distinct rows
    let big_kinds: &[u8] = *rng.pick(&[&[2u8, 1][..], &[1, 2], &[2, 2], &[1, 1, 1], &[3], &[1, 3], &[2]]);
    let big_kinds: Vec<u8> = if big_kinds == [2] && n_big > 65_000 { vec![2, 1] } else { big_kinds.to_vec() };
    let big_row = |i: usize| -> Vec<(usize, i32)> {
        // a bijection from i to non-zero column values within each column's width class
        let mut rem = i as i64;
        let mut row = vec![];
        for (c, k) in big_kinds.iter().enumerate() {
            let (radix, lo, wide_from): (i64, i64, i64) = match k {
                1 => (250, -125, 0),
                2 => (60_000, -30_000, 200),
                _ => (4_000_000, -2_000_000, 40_000),
            };
            let d = rem % radix;
            rem /= radix;
            let mut v = lo + d;
            if v >= 0 {
                v += 1; // skip zero
            }
            // make sure the column really needs its width in the first rows
            if i == 0 {
                v = if wide_from == 0 { -125 } else { lo - wide_from };
            }
            row.push((c, v as i32));
        }
        row
    };
    // small shapes on disjoint regions: (regions, kind, rows)
    let mut small: Vec<(Vec<usize>, u8, usize)> = vec![];
    let avail: Vec<usize> = (big_kinds.len()..n_regions).collect();
    // one cheaper than anything the big shape can be (1 x i8 = row cost 1)
    if !avail.is_empty() {
        small.push((vec![avail[0]], 1, rng.range(150, 250) as usize));
    }
    // costlier ones
    let mut next = 1;
    let n_costly = rng.range(1, 3) as usize;
    for s in 0..n_costly {
        let width = match s {
            0 => 3,
            1 => 2,
            _ => 1,
        };
        if next + width > avail.len() {
            break;
        }
        let regs: Vec<usize> = avail[next..next + width].to_vec();
        next += width;
        // kind 3 (i32) makes a long-words subtable: row cost 4 per column
        // the first one is costlier than every possible big shape (<= 6 bytes / row)
        let kind = if s == 0 { if big_kinds.contains(&3) { 3 } else { *rng.pick(&[2u8, 3]) } } else { *rng.pick(&[2u8, 3, 3]) };
        small.push((regs, kind, rng.range(300, 900) as usize));
    }
    let mut small_rows: Vec<Vec<(usize, i32)>> = vec![];
    for (regs, kind, n) in &small {
        for i in 0..*n {
            let mut row = vec![];
            for (c, r) in regs.iter().enumerate() {
                let base: i64 = match kind {
                    1 => -120,
                    2 => -20_000,
                    _ => -1_000_000,
                };
                let step: i64 = match kind {
                    1 => 1,
                    2 => 37,
                    _ => 2_003,
                };
                let mut v = base + step * (i as i64) + c as i64 * 3;
                if *kind == 1 {
                    v = -120 + ((i as i64 + c as i64 * 7) % 240);
                }
                if v == 0 {
                    v = 1;
                }
                row.push((*r, v as i32));
            }
            if *kind == 1 && regs.len() == 1 {
                // only 240 distinct values: duplicates are merged by the builder, fine
            }
            small_rows.push(row);
        }
    }
    rng.shuffle(&mut small_rows);
    // positions at which the small rows are inserted: front, middle (around the
    // 0xFFFF boundary of the insertion order) and back
    let n_small = small_rows.len();
    let cut1 = n_small / 3;
    let cut2 = 2 * n_small / 3;
    let mut rows: Vec<Vec<(usize, i32)>> = Vec::with_capacity(n_big + n_small + 8);
    rows.extend(small_rows[..cut1].iter().cloned());
    let mid_at = if rng.bool() { 65_535usize.min(n_big) } else { rng.range(0, n_big as i64) as usize };
    // big rows in an order that is NOT the builder's sorted order
    let stride = *rng.pick(&[1usize, 7, 65_537, 40_009]);
    for k in 0..n_big {
        if k == mid_at {
            rows.extend(small_rows[cut1..cut2].iter().cloned());
        }
        let i = (k * stride) % n_big;
        let i = if gcd(stride, n_big) == 1 { i } else { k };
        rows.push(big_row(i));
    }
    rows.extend(small_rows[cut2..].iter().cloned());
    // a few exact duplicates of rows on both sides of the split and an empty row
    for _ in 0..6 {
        let k = rng.usize(rows.len());
        let r = rows[k].clone();
        rows.push(r);
    }
    rows.push(vec![]);
    StoreCase { n_axes, regions, rows, direct: false, class: "huge-mixed", case }
}

fn gcd(a: usize, b: usize) -> usize {
    if b == 0 {
        a
    } else {
        gcd(b, a % b)
    }
}

fn w_region(r: &[TentBits]) -> VariationRegion {
    VariationRegion::new(
        r.iter()
            .map(|&(s, p, e)| RegionAxisCoordinates::new(F2Dot14::from_bits(s), F2Dot14::from_bits(p), F2Dot14::from_bits(e)))
            .collect(),
    )
}

pub struct BuiltStore {
    pub bytes: Vec<u8>,
    /// per added row: (outer, inner)
    pub index: Vec<(u16, u16)>,
    pub store: write_fonts::tables::variations::ItemVariationStore,
}

fn canonical(row: &[(usize, i32)]) -> BTreeMap<usize, i64> {
    let mut m = BTreeMap::new();
    for (r, v) in row {
        if *v != 0 {
            m.insert(*r, *v as i64);
        }
    }
    m
}

fn viol(ctx: &mut Ctx, case: &StoreCase, kind: &str, row: usize, detail: serde_json::Value, bytes: Option<&[u8]>) {
    VIOL_CALLS.with(|c| c.set(c.get() + 1));
    let sig = format!("ivs:{}:{}:case{}:row{}", kind, case.class, case.case, row);
    let mut d = detail;
    d["case"] = case.summary();
    if case.rows.len() <= 12 && case.regions.len() <= 6 {
        d["regions_f2dot14_bits"] = json!(case.regions);
        d["rows_region_delta"] = json!(case.rows);
    }
    ctx.violation(&sig, d, bytes);
}

thread_local! {
    static VIOL_CALLS: std::cell::Cell<u64> = const { std::cell::Cell::new(0) };
}

fn ctx_violations_raw(_ctx: &Ctx) -> u64 {
    VIOL_CALLS.with(|c| c.get())
}

/// Build + compile + check retrieval. Returns the compiled store for (b).
pub fn check_store(ctx: &mut Ctx, case: &StoreCase) -> Option<BuiltStore> {
    ctx.eval();
    ctx.count("ivs_stores_built", 1);
    ctx.count(&format!("ivs_class:{}", case.class), 1);
    ctx.count(if case.direct { "ivs_mode_implicit_indices" } else { "ivs_mode_deduplicated" }, 1);
    let built = guard(|| {
        let mut b = if case.direct { VariationStoreBuilder::new_with_implicit_indices(case.n_axes as u16) } else { VariationStoreBuilder::new(case.n_axes as u16) };
        let mut ids = Vec::with_capacity(case.rows.len());
        for row in &case.rows {
            let deltas: Vec<(VariationRegion, i32)> = row.iter().map(|(r, v)| (w_region(&case.regions[*r]), *v)).collect();
            ids.push(b.add_deltas(deltas));
        }
        let (store, remap) = b.build();
        let index: Vec<Option<(u16, u16)>> = ids.iter().map(|id| remap.get(*id).map(|vi| (vi.delta_set_outer_index, vi.delta_set_inner_index))).collect();
        let bytes = write_fonts::dump_table(&store).map_err(|e| format!("{}", e));
        (ids, index, bytes, store)
    });
    let (ids, index, bytes, store) = match built {
        Err(p) => {
            ctx.judge_panic(&p, "VariationStoreBuilder add_deltas/build/dump", case.summary(), None);
            return None;
        }
        Ok(v) => v,
    };
    let bytes = match bytes {
        Ok(b) => b,
        Err(e) => {
            ctx.count("ivs_dump_rejected", 1);
            ctx.sample_by_kind("ivs_dump_rejected", json!({"error": e, "case": case.summary()}));
            return None;
        }
    };
    // ids: equal ids only for equal content (dedup mode), distinct in direct mode
    let mut by_id: BTreeMap<u32, BTreeMap<usize, i64>> = BTreeMap::new();
    for (i, id) in ids.iter().enumerate() {
        let c = canonical(&case.rows[i]);
        if let Some(prev) = by_id.get(id) {
            if *prev != c {
                viol(ctx, case, "temporary-id-collision", i, json!({"what": "two different delta sets received the same temporary id", "id": id}), Some(&bytes));
                return None;
            }
            if case.direct {
                viol(ctx, case, "temporary-id-reused-direct", i, json!({"what": "implicit-index mode returned an id twice", "id": id}), Some(&bytes));
                return None;
            }
            ctx.count("ivs_rows_deduplicated", 1);
        } else {
            by_id.insert(*id, c);
        }
    }
    let raw = match RawIvs::parse(&bytes) {
        Ok(r) => r,
        Err(e) => {
            viol(ctx, case, "undecodable", 0, json!({"what": "compiled ItemVariationStore cannot be decoded per spec", "error": e}), Some(&bytes));
            return None;
        }
    };
    if raw.axis_count != case.n_axes {
        viol(ctx, case, "axis-count", 0, json!({"what": "axis count differs", "got": raw.axis_count}), Some(&bytes));
        return None;
    }
    ctx.count("ivs_subtables", raw.data.len() as u64);
    for d in raw.data.iter().flatten() {
        ctx.label("ivs_subtable_word_format", if d.long_words { "i32+i16" } else { "i16+i8" });
        if d.item_count > 60000 {
            ctx.label("ivs_subtable_size_class", ">60000 rows");
        }
    }
    if raw.data.len() > 1 {
        ctx.count("ivs_stores_with_several_subtables", 1);
    }
    // an encoding split over several subtables (a full 0xFFFF-row subtable followed by
    // one with the same columns), and whether other encodings sit before / after it
    {
        let shapes: Vec<Option<(usize, Vec<u16>, bool)>> = raw.data.iter().map(|d| d.as_ref().map(|d| (d.item_count as usize, d.region_indexes.iter().map(|r| *r as u16).collect(), d.long_words))).collect();
        let mut split_at = None;
        for w in 0..shapes.len().saturating_sub(1) {
            if let (Some(a), Some(b)) = (&shapes[w], &shapes[w + 1]) {
                if a.0 == 0xFFFF && a.1 == b.1 && a.2 == b.2 {
                    split_at.get_or_insert(w);
                }
            }
        }
        if let Some(w) = split_at {
            ctx.count("ivs_stores_with_split_encoding", 1);
            let mut last = w + 1;
            while last + 1 < shapes.len() && shapes[last].as_ref().map(|s| s.0) == Some(0xFFFF) && shapes[last + 1].as_ref().map(|s| &s.1) == shapes[w].as_ref().map(|s| &s.1) {
                last += 1;
            }
            if last > w + 1 {
                ctx.count("ivs_stores_with_encoding_split_in_3_or_more", 1);
            }
            if w > 0 {
                ctx.count("ivs_split_encoding_preceded_by_other_encodings", 1);
            }
            if last + 1 < shapes.len() {
                ctx.count("ivs_split_encoding_followed_by_other_encodings", 1);
                ctx.count("ivs_subtables_after_a_split_encoding", (shapes.len() - last - 1) as u64);
            }
        }
    }
    if raw.regions.len() < case.regions.len() {
        ctx.count("ivs_stores_with_pruned_regions", 1);
    }
    let rf = match RIvs::read(FontData::new(&bytes)) {
        Ok(r) => r,
        Err(e) => {
            viol(ctx, case, "read-fonts-rejects", 0, json!({"what": "read-fonts cannot read the compiled store", "error": format!("{}", e)}), Some(&bytes));
            return None;
        }
    };
    let rf_regions: Vec<Vec<TentBits>> = match rf.variation_region_list() {
        Ok(l) => l
            .variation_regions()
            .iter()
            .map(|r| match r {
                Ok(r) => r.region_axes().iter().map(|a| (a.start_coord().to_bits(), a.peak_coord().to_bits(), a.end_coord().to_bits())).collect(),
                Err(_) => vec![],
            })
            .collect(),
        Err(_) => vec![],
    };
    let mut out_index = Vec::with_capacity(case.rows.len());
    let mut seen_slots: BTreeMap<(u16, u16), u32> = BTreeMap::new();
    let mut ok = true;
    let mut reported_before = ctx_violations_raw(ctx);
    let mut bad_rows = 0usize;
    for (i, row) in case.rows.iter().enumerate() {
        // a wrong remap can affect tens of thousands of rows: a dozen reports per store is enough
        let now = ctx_violations_raw(ctx);
        if now != reported_before {
            bad_rows += 1;
            reported_before = now;
        }
        if bad_rows >= 12 && case.rows.len() > 20_000 {
            ctx.count("ivs_rows_not_checked_after_12_reports", (case.rows.len() - i) as u64);
            break;
        }
        ctx.eval();
        let Some((outer, inner)) = index[i] else {
            viol(ctx, case, "no-remap-entry", i, json!({"what": "VariationIndexRemapping has no entry for a returned temporary id", "id": ids[i]}), Some(&bytes));
            ok = false;
            out_index.push((0, 0));
            continue;
        };
        out_index.push((outer, inner));
        if let Some(prev) = seen_slots.insert((outer, inner), ids[i]) {
            if prev != ids[i] {
                viol(ctx, case, "slot-shared-by-two-ids", i, json!({"what": "two temporary ids map to the same (outer, inner)", "ids": [prev, ids[i]], "slot": [outer, inner]}), Some(&bytes));
                ok = false;
                continue;
            }
        }
        let expected = canonical(row);
        // independent decode
        let Some(got) = raw.row(outer, inner) else {
            viol(ctx, case, "index-out-of-range", i, json!({"what": "remapped index does not address a row of the compiled table", "slot": [outer, inner]}), Some(&bytes));
            ok = false;
            continue;
        };
        let mut got_map: BTreeMap<usize, i64> = BTreeMap::new();
        let mut unknown_region = false;
        for (tents, v) in &got {
            if *v == 0 {
                continue;
            }
            match case.regions.iter().position(|r| r == *tents) {
                Some(k) => {
                    *got_map.entry(k).or_insert(0) += *v as i64;
                }
                None => unknown_region = true,
            }
        }
        if unknown_region || got_map != expected {
            viol(ctx, case, "row-differs", i,
                 json!({"what": "row read back from the compiled table differs from the delta set added", "slot": [outer, inner],
                        "got_region_delta": got_map, "expected_region_delta": expected, "unknown_region": unknown_region}), Some(&bytes));
            ok = false;
            continue;
        }
        // read-fonts view of the same row
        let rf_row: Result<Vec<(usize, i32)>, String> = (|| {
            let data = rf.item_variation_data().get(outer as usize).ok_or("outer out of range")?.map_err(|e| format!("{}", e))?;
            let idx = data.region_indexes();
            let vals: Vec<i32> = data.delta_set(inner).collect();
            if vals.len() != idx.len() {
                return Err(format!("delta_set yields {} values for {} regions", vals.len(), idx.len()));
            }
            Ok(idx.iter().zip(vals).map(|(r, v)| (r.get() as usize, v)).collect())
        })();
        match rf_row {
            Ok(r) => {
                let mut m: BTreeMap<usize, i64> = BTreeMap::new();
                let mut bad = false;
                for (ri, v) in r {
                    if v == 0 {
                        continue;
                    }
                    match rf_regions.get(ri).and_then(|t| case.regions.iter().position(|x| x == t)) {
                        Some(k) => *m.entry(k).or_insert(0) += v as i64,
                        None => bad = true,
                    }
                }
                if bad || m != expected {
                    viol(ctx, case, "read-fonts-row-differs", i, json!({"what": "row as read by read-fonts differs from the delta set added", "slot": [outer, inner], "got": m, "expected": expected}), Some(&bytes));
                    ok = false;
                    continue;
                }
            }
            Err(e) => {
                viol(ctx, case, "read-fonts-row-error", i, json!({"what": "read-fonts cannot read the row", "error": e, "slot": [outer, inner]}), Some(&bytes));
                ok = false;
                continue;
            }
        }
        ctx.count("ivs_rows_retrieved_exactly", 1);
        if !expected.is_empty() {
            ctx.count("ivs_rows_nonzero", 1);
        }
    }
    // non-trivial: the builder had something to decide
    let distinct_rows = by_id.len();
    if distinct_rows >= 2 && (raw.data.len() > 1 || distinct_rows < case.rows.len() || raw.regions.len() < case.regions.len() || raw.data.iter().flatten().any(|d| d.word_count > 0 && d.word_count < d.region_indexes.len())) {
        ctx.nontrivial(case.digest());
    }
    ctx.sample_by_kind(&format!("ivs-{}", case.class), json!({"case": case.summary(), "subtables": raw.data.iter().map(|d| d.as_ref().map(|d| json!({"rows": d.item_count, "regions": d.region_indexes.len(), "words": d.word_count, "long": d.long_words}))).collect::<Vec<_>>().iter().take(8).collect::<Vec<_>>(), "regions_kept": raw.regions.len()}));
    ok.then_some(BuiltStore { bytes, index: out_index, store })
}

// ------------------------------------------------------------------ (b) compute_delta

pub fn coord_candidates(regions: &[Vec<TentBits>], n_axes: usize) -> Vec<Vec<i16>> {
    let mut c: Vec<Vec<i16>> = vec![vec![0, 16384, -16384, 8192, -8192, 1, -1]; n_axes];
    for r in regions {
        for (a, &(s, p, e)) in r.iter().enumerate().take(n_axes) {
            for v in [s, p, e] {
                for d in [-1i32, 0, 1] {
                    c[a].push((v as i32 + d).clamp(-16384, 16384) as i16);
                }
            }
            c[a].push(((s as i32 + p as i32) / 2) as i16);
            c[a].push(((p as i32 + e as i32) / 2) as i16);
        }
    }
    for v in c.iter_mut() {
        v.sort_unstable();
        v.dedup();
    }
    c
}

pub fn gen_coords(rng: &mut Rng, cands: &[Vec<i16>]) -> Vec<i16> {
    cands.iter().map(|c| if rng.chance(1, 5) { rng.range(-16384, 16384) as i16 } else { *rng.pick(c) }).collect()
}

/// compute_delta / compute_float_delta on compiled bytes against the exact sum.
pub fn check_compute_delta(ctx: &mut Ctx, bytes: &[u8], id: &str, slots: &[(u16, u16)], n_locs: usize, rng: &mut Rng) {
    let Ok(raw) = RawIvs::parse(bytes) else {
        ctx.count("delta_store_undecodable", 1);
        return;
    };
    let Ok(rf) = RIvs::read(FontData::new(bytes)) else {
        ctx.count("delta_store_unreadable", 1);
        return;
    };
    let cands = coord_candidates(&raw.regions, raw.axis_count);
    for &(outer, inner) in slots {
        let Some(row) = raw.row(outer, inner) else { continue };
        for _ in 0..n_locs {
            let coords = gen_coords(rng, &cands);
            let (x, eps, abs_sum) = row_delta(&row, &coords);
            if abs_sum > 1.0e9 {
                // i32 result could wrap: outside any font's range
                ctx.count("delta_skipped_huge_magnitude", 1);
                continue;
            }
            ctx.eval();
            let fc: Vec<F2Dot14> = coords.iter().map(|b| F2Dot14::from_bits(*b)).collect();
            let fc2 = fc.clone();
            let rf2 = rf.clone();
            let r = guard(move || {
                let ix = DeltaSetIndex { outer, inner };
                let a = rf2.compute_delta(ix, &fc2);
                let b = rf2.compute_float_delta(ix, &fc2).map(|d| {
                    use read_fonts::tables::variations::FloatItemDeltaTarget;
                    // FWord target: value 0 + delta
                    read_fonts::types::FWord::new(0).apply_float_delta(d)
                });
                (a, b)
            });
            let (a, b) = match r {
                Err(p) => {
                    let saved = ctx.policy;
                    ctx.policy = vf_core::PanicPolicy::Totality;
                    ctx.judge_panic(&p, "ItemVariationStore::compute_delta", json!({"store": id, "slot": [outer, inner], "coords_f2dot14_bits": coords}), Some(bytes));
                    ctx.policy = saved;
                    continue;
                }
                Ok(v) => v,
            };
            match a {
                Ok(v) => {
                    // documented rounding: (accum + 0x8000) >> 16 = round half up
                    let err = (v as f64 - x).abs();
                    if err > 0.5 + eps + 1e-6 {
                        ctx.violation(
                            &format!("ivs-delta:compute_delta:{}:{}:{}", id, outer, inner),
                            json!({"what": "compute_delta differs from sum(tent scalar x delta) by more than the final rounding (0.5) + 16.16 scalar rounding bound",
                                   "got": v, "exact": x, "eps": eps, "coords_f2dot14_bits": coords,
                                   "row": row.iter().map(|(t, d)| json!({"tents": t, "delta": d})).collect::<Vec<_>>().iter().take(12).collect::<Vec<_>>()}),
                            Some(bytes),
                        );
                    }
                    ctx.count("delta_compute_delta_checked", 1);
                    if x != 0.0 && x.fract() != 0.0 {
                        ctx.count("delta_fractional_exact_values", 1);
                    }
                }
                Err(e) => {
                    ctx.violation(
                        &format!("ivs-delta:compute_delta-error:{}:{}:{}", id, outer, inner),
                        json!({"what": "compute_delta fails on a valid index", "error": format!("{}", e), "coords_f2dot14_bits": coords}),
                        Some(bytes),
                    );
                }
            }
            if let Ok(f) = b {
                // f32 scalars: relative 2^-23 per operation, a handful of operations per axis
                let tol = abs_sum * 16.0 / 8388608.0 + (x.abs() + 1.0) / 8388608.0 + 1e-4;
                if (f as f64 - x).abs() > tol {
                    ctx.violation(
                        &format!("ivs-delta:compute_float_delta:{}:{}:{}", id, outer, inner),
                        json!({"what": "compute_float_delta differs from sum(tent scalar x delta) beyond f32 precision", "got": f, "exact": x, "tol": tol, "coords_f2dot14_bits": coords}),
                        Some(bytes),
                    );
                }
                ctx.count("delta_compute_float_delta_checked", 1);
            }
            if x != 0.0 {
                let mut d = Digest::new();
                d.str(id);
                d.u64(outer as u64);
                d.u64(inner as u64);
                for c in &coords {
                    d.i64(*c as i64);
                }
                if eps > 0.0 {
                    let dg = d.finish();
                    if dg & 0xf == 0 {
                        ctx.nontrivial(dg);
                    }
                    ctx.count("delta_locations_with_partial_scalar", 1);
                }
            }
        }
    }
}

// ------------------------------------------------------------------ DeltaSetIndexMap

pub fn check_dsim(ctx: &mut Ctx, rng: &mut Rng, case: u64) {
    let n = match rng.below(10) {
        0 => 1,
        1..=6 => rng.range(1, 300) as usize,
        7 | 8 => rng.range(300, 5000) as usize,
        _ => rng.range(65530, 66000) as usize,
    };
    let outer_max = *rng.pick(&[0u32, 0, 1, 3, 255, 256, 4000, 65535]);
    let inner_max = *rng.pick(&[0u32, 1, 2, 127, 128, 255, 256, 1023, 1024, 32767, 32768, 65535]);
    let mut mapping: Vec<u32> = (0..n).map(|_| (rng.range(0, outer_max as i64) as u32) << 16 | rng.range(0, inner_max as i64) as u32).collect();
    // make sure the maxima occur, and sometimes a constant tail (the writer drops it)
    if n > 2 {
        mapping[0] = outer_max << 16 | inner_max;
        if rng.bool() {
            let tail = rng.range(1, (n / 2) as i64) as usize;
            let v = mapping[n - tail];
            for m in mapping.iter_mut().skip(n - tail) {
                *m = v;
            }
        }
    }
    ctx.eval();
    let m2 = mapping.clone();
    let built = guard(move || {
        let w: WDsim = m2.into_iter().collect();
        write_fonts::dump_table(&w).map_err(|e| format!("{}", e))
    });
    let bytes = match built {
        Err(p) => {
            ctx.judge_panic(&p, "DeltaSetIndexMap::from_iter/dump", json!({"n": n, "outer_max": outer_max, "inner_max": inner_max}), None);
            return;
        }
        Ok(Err(e)) => {
            ctx.count("dsim_dump_rejected", 1);
            ctx.sample_by_kind("dsim_rejected", json!({"error": e, "n": n}));
            return;
        }
        Ok(Ok(b)) => b,
    };
    ctx.count("dsim_built", 1);
    let sig = |k: &str| format!("dsim:{}:case{}", k, case);
    let raw = match RawDsim::parse(&bytes) {
        Ok(r) => r,
        Err(e) => {
            ctx.violation(&sig("undecodable"), json!({"what": "compiled DeltaSetIndexMap cannot be decoded per spec", "error": e, "n": n}), Some(&bytes));
            return;
        }
    };
    ctx.label("dsim_entry_formats", &format!("format{} size{} inner_bits{}", raw.format, raw.entry_size, raw.inner_bits));
    let rf = match RDsim::read(FontData::new(&bytes)) {
        Ok(r) => r,
        Err(e) => {
            ctx.violation(&sig("read-fonts-rejects"), json!({"what": "read-fonts cannot read the compiled map", "error": format!("{}", e)}), Some(&bytes));
            return;
        }
    };
    let mut probes: Vec<u32> = (0..n.min(400) as u32).collect();
    for _ in 0..100 {
        probes.push(rng.range(0, n as i64 + 10) as u32);
    }
    probes.extend_from_slice(&[n as u32 - 1, n as u32, n as u32 + 1, 70000, u32::MAX]);
    for i in probes {
        let want = mapping[(i as usize).min(n - 1)];
        let want = ((want >> 16) as u16, (want & 0xffff) as u16);
        let got_raw = raw.get(i);
        if got_raw != Some(want) {
            ctx.violation(&sig("entry-differs"), json!({"what": "entry decoded per spec differs from the mapping given to the writer", "index": i, "got": got_raw, "expected": want, "n": n, "map_count": raw.entries.len(), "inner_bits": raw.inner_bits, "entry_size": raw.entry_size}), Some(&bytes));
            return;
        }
        match rf.get(i) {
            Ok(ix) => {
                if (ix.outer, ix.inner) != want {
                    ctx.violation(&sig("read-fonts-entry-differs"), json!({"what": "DeltaSetIndexMap::get differs from the mapping given to the writer", "index": i, "got": [ix.outer, ix.inner], "expected": want, "inner_bits": raw.inner_bits, "entry_size": raw.entry_size}), Some(&bytes));
                    return;
                }
            }
            Err(e) => {
                ctx.violation(&sig("read-fonts-get-error"), json!({"what": "DeltaSetIndexMap::get fails", "index": i, "error": format!("{}", e)}), Some(&bytes));
                return;
            }
        }
        ctx.count("dsim_lookups_checked", 1);
    }
    if raw.entries.len() < n {
        ctx.count("dsim_with_truncated_tail", 1);
    }
    let mut d = Digest::new();
    d.dbg(&mapping);
    if n > 1 {
        ctx.nontrivial(d.finish());
    }
}
