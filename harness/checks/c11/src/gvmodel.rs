//! Reference models for C10, written from the OpenType specification only
//! (otvarcommonformats "Packed point numbers" / "Packed deltas" / "Tuple
//! variation store", gvar "Inferred deltas for un-referenced point numbers",
//! otvaroverview "Algorithm for interpolation of instance values").
//! Nothing in here calls into read-fonts / write-fonts / skrifa.

use std::ops::{Add, Div, Mul, Sub};

// ------------------------------------------------------------------ Frac

fn gcd(mut a: i128, mut b: i128) -> i128 {
    a = a.abs();
    b = b.abs();
    while b != 0 {
        let t = a % b;
        a = b;
        b = t;
    }
    a
}

/// Exact rational number (i128 / i128, denominator > 0, reduced).
#[derive(Clone, Copy, Debug, PartialEq, Eq)]
pub struct Frac {
    pub n: i128,
    pub d: i128,
}

impl Frac {
    pub fn new(n: i128, d: i128) -> Frac {
        assert!(d != 0, "harness: Frac with zero denominator");
        let g = gcd(n, d).max(1);
        let (mut n, mut d) = (n / g, d / g);
        if d < 0 {
            n = -n;
            d = -d;
        }
        Frac { n, d }
    }
    pub fn int(v: i64) -> Frac {
        Frac { n: v as i128, d: 1 }
    }
    pub fn to_f64(self) -> f64 {
        self.n as f64 / self.d as f64
    }
    pub fn is_zero(self) -> bool {
        self.n == 0
    }
}

impl From<i32> for Frac {
    fn from(v: i32) -> Frac {
        Frac::int(v as i64)
    }
}
impl Add for Frac {
    type Output = Frac;
    fn add(self, o: Frac) -> Frac {
        Frac::new(self.n * o.d + o.n * self.d, self.d * o.d)
    }
}
impl Sub for Frac {
    type Output = Frac;
    fn sub(self, o: Frac) -> Frac {
        Frac::new(self.n * o.d - o.n * self.d, self.d * o.d)
    }
}
impl Mul for Frac {
    type Output = Frac;
    fn mul(self, o: Frac) -> Frac {
        Frac::new(self.n * o.n, self.d * o.d)
    }
}
impl Div for Frac {
    type Output = Frac;
    fn div(self, o: Frac) -> Frac {
        Frac::new(self.n * o.d, self.d * o.n)
    }
}
impl PartialOrd for Frac {
    fn partial_cmp(&self, o: &Frac) -> Option<std::cmp::Ordering> {
        (self.n * o.d).partial_cmp(&(o.n * self.d))
    }
}

// ------------------------------------------------------------------ tent scalar

/// One axis of a region in F2Dot14 *bits* (start, peak, end).
pub type TentBits = (i16, i16, i16);

/// Region of a tuple variation header without intermediate tuples: the spec
/// defines start = min(peak, 0), end = max(peak, 0).
pub fn implied_tent(peak: i16) -> TentBits {
    (peak.min(0), peak, peak.max(0))
}

/// Per-axis scalar of the specification, exact. `None` = the axis is ignored
/// (contributes factor 1) because peak is 0 or the region is malformed.
pub fn axis_scalar(t: TentBits, coord: i16) -> Option<Frac> {
    let (s, p, e) = (t.0 as i64, t.1 as i64, t.2 as i64);
    let c = coord as i64;
    if s > p || p > e {
        return None;
    }
    if s < 0 && e > 0 && p != 0 {
        return None;
    }
    if p == 0 {
        return None;
    }
    if c < s || c > e {
        return Some(Frac::int(0));
    }
    if c == p {
        return Some(Frac::int(1));
    }
    if c < p {
        Some(Frac::new((c - s) as i128, (p - s) as i128))
    } else {
        Some(Frac::new((e - c) as i128, (e - p) as i128))
    }
}

/// Region scalar: product of the per-axis scalars. Returns the f64 value
/// (each factor is an exact rational of 16-bit integers; the product of at
/// most 6..64 such factors in f64 is accurate to ~1e-14 relative), the number
/// of axes contributing a factor strictly between 0 and 1, and whether the
/// scalar is exactly zero (decided in integer arithmetic).
pub fn region_scalar(tents: &[TentBits], coords: &[i16]) -> (f64, usize, bool) {
    let mut s = 1.0f64;
    let mut partial = 0usize;
    for (i, t) in tents.iter().enumerate() {
        let c = coords.get(i).copied().unwrap_or(0);
        if let Some(f) = axis_scalar(*t, c) {
            if f.is_zero() {
                return (0.0, partial, true);
            }
            if f.n != f.d {
                partial += 1;
                s *= f.to_f64();
            }
        }
    }
    (s, partial, false)
}

// ------------------------------------------------------------------ IUP inference

/// Specification inference of deltas for un-referenced points.
///
/// * `coords`: original coordinates of all points (phantom points included
///   or not: points not covered by `ends` are outside every contour and get
///   delta zero unless explicit).
/// * `ends`: inclusive end index of every contour, ascending.
/// * `explicit[i]`: the delta present for point i, if referenced.
pub fn infer<T>(coords: &[(i32, i32)], ends: &[usize], explicit: &[Option<(T, T)>]) -> Vec<(T, T)>
where
    T: Copy
        + PartialEq
        + From<i32>
        + Add<Output = T>
        + Sub<Output = T>
        + Mul<Output = T>
        + Div<Output = T>,
{
    let zero: T = T::from(0);
    let n = coords.len();
    let mut out: Vec<(T, T)> = (0..n)
        .map(|i| explicit[i].unwrap_or((zero, zero)))
        .collect();
    let mut start = 0usize;
    for &end in ends {
        if end < start || end >= n {
            break;
        }
        let idx: Vec<usize> = (start..=end).filter(|i| explicit[*i].is_some()).collect();
        if idx.is_empty() {
            // no referenced point in this contour: all zero
        } else if idx.len() == 1 {
            let d = explicit[idx[0]].unwrap();
            for o in out.iter_mut().take(end + 1).skip(start) {
                *o = d;
            }
        } else {
            let len = end - start + 1;
            for i in start..=end {
                if explicit[i].is_some() {
                    continue;
                }
                // nearest referenced point before / after, cyclically
                let mut p = i;
                loop {
                    p = if p == start { end } else { p - 1 };
                    if explicit[p].is_some() {
                        break;
                    }
                }
                let mut q = i;
                loop {
                    q = if q == end { start } else { q + 1 };
                    if explicit[q].is_some() {
                        break;
                    }
                }
                let _ = len;
                let dp = explicit[p].unwrap();
                let dq = explicit[q].unwrap();
                let x = infer_axis(coords[i].0, coords[p].0, coords[q].0, dp.0, dq.0);
                let y = infer_axis(coords[i].1, coords[p].1, coords[q].1, dp.1, dq.1);
                out[i] = (x, y);
            }
        }
        start = end + 1;
    }
    out
}

fn infer_axis<T>(c: i32, cp: i32, cq: i32, dp: T, dq: T) -> T
where
    T: Copy
        + PartialEq
        + From<i32>
        + Add<Output = T>
        + Sub<Output = T>
        + Mul<Output = T>
        + Div<Output = T>,
{
    if cp == cq {
        return if dp == dq { dp } else { T::from(0) };
    }
    let (lo_c, lo_d, hi_c, hi_d) = if cp < cq { (cp, dp, cq, dq) } else { (cq, dq, cp, dp) };
    if c <= lo_c {
        lo_d
    } else if c >= hi_c {
        hi_d
    } else {
        // c1 < c < c2 : d1 + (c - c1) / (c2 - c1) * (d2 - d1)
        lo_d + T::from(c - lo_c) * (hi_d - lo_d) / T::from(hi_c - lo_c)
    }
}

// ------------------------------------------------------------------ packed decoders

/// Packed point numbers. Returns (None = all points | Some(points), bytes used).
pub fn decode_packed_points(b: &[u8]) -> Result<(Option<Vec<u16>>, usize), String> {
    let mut pos = 0usize;
    let first = *b.first().ok_or("points: empty")?;
    pos += 1;
    let count: usize = if first & 0x80 != 0 {
        let second = *b.get(1).ok_or("points: truncated count")?;
        pos += 1;
        (((first & 0x7f) as usize) << 8) | second as usize
    } else {
        first as usize
    };
    if count == 0 {
        return Ok((None, pos));
    }
    let mut pts = Vec::with_capacity(count);
    let mut last: u32 = 0;
    while pts.len() < count {
        let ctrl = *b.get(pos).ok_or("points: truncated run header")?;
        pos += 1;
        let words = ctrl & 0x80 != 0;
        let run = (ctrl & 0x7f) as usize + 1;
        for _ in 0..run {
            let d: u32 = if words {
                let hi = *b.get(pos).ok_or("points: truncated word")? as u32;
                let lo = *b.get(pos + 1).ok_or("points: truncated word")? as u32;
                pos += 2;
                (hi << 8) | lo
            } else {
                let v = *b.get(pos).ok_or("points: truncated byte")? as u32;
                pos += 1;
                v
            };
            last += d;
            if last > 0xffff {
                return Err("points: point number exceeds u16".into());
            }
            pts.push(last as u16);
        }
        if pts.len() > count {
            return Err(format!("points: runs give {} points, count says {}", pts.len(), count));
        }
    }
    Ok((Some(pts), pos))
}

/// Packed deltas: decode exactly `count` values; returns bytes used and the
/// run structure (kind, len) seen.
pub fn decode_packed_deltas(b: &[u8], count: usize) -> Result<(Vec<i32>, usize, Vec<(u8, u8)>), String> {
    let mut out = Vec::with_capacity(count);
    let mut runs = vec![];
    let mut pos = 0usize;
    while out.len() < count {
        let ctrl = *b.get(pos).ok_or_else(|| format!("deltas: truncated run header at {} ({} of {} decoded)", pos, out.len(), count))?;
        pos += 1;
        let run = (ctrl & 0x3f) as usize + 1;
        let kind = ctrl >> 6; // 0: i8, 1: i16, 2: zero, 3: i32
        runs.push((kind, run as u8));
        for _ in 0..run {
            let v = match kind {
                2 => 0,
                0 => {
                    let v = *b.get(pos).ok_or("deltas: truncated i8")? as i8 as i32;
                    pos += 1;
                    v
                }
                1 => {
                    let hi = *b.get(pos).ok_or("deltas: truncated i16")?;
                    let lo = *b.get(pos + 1).ok_or("deltas: truncated i16")?;
                    pos += 2;
                    i16::from_be_bytes([hi, lo]) as i32
                }
                _ => {
                    if pos + 4 > b.len() {
                        return Err("deltas: truncated i32".into());
                    }
                    let v = i32::from_be_bytes([b[pos], b[pos + 1], b[pos + 2], b[pos + 3]]);
                    pos += 4;
                    v
                }
            };
            out.push(v);
        }
        if out.len() > count {
            return Err(format!("deltas: runs give {} values, expected {}", out.len(), count));
        }
    }
    Ok((out, pos, runs))
}

// ------------------------------------------------------------------ raw gvar parser

fn be16(b: &[u8], p: usize) -> Result<u16, String> {
    if p + 2 > b.len() {
        return Err(format!("read u16 at {} beyond {}", p, b.len()));
    }
    Ok(u16::from_be_bytes([b[p], b[p + 1]]))
}
fn be32(b: &[u8], p: usize) -> Result<u32, String> {
    if p + 4 > b.len() {
        return Err(format!("read u32 at {} beyond {}", p, b.len()));
    }
    Ok(u32::from_be_bytes([b[p], b[p + 1], b[p + 2], b[p + 3]]))
}

#[derive(Clone, Debug)]
pub struct RawGvar<'a> {
    pub data: &'a [u8],
    pub axis_count: usize,
    pub shared_tuples: Vec<Vec<i16>>,
    pub glyph_count: usize,
    pub long_offsets: bool,
    pub data_array: usize,
    pub offsets: Vec<usize>,
}

#[derive(Clone, Debug)]
pub struct RawTuple {
    pub tents: Vec<TentBits>,
    pub has_intermediate: bool,
    pub shared_tuple_index: Option<u16>,
    pub private_points: bool,
    /// None = deltas for all points
    pub points: Option<Vec<u16>>,
    pub dx: Vec<i32>,
    pub dy: Vec<i32>,
    pub x_runs: Vec<(u8, u8)>,
    pub y_runs: Vec<(u8, u8)>,
    pub data_size: usize,
    pub data_used: usize,
}

#[derive(Clone, Debug, Default)]
pub struct RawGlyphVar {
    pub shared_points_flag: bool,
    pub tuples: Vec<RawTuple>,
}

impl<'a> RawGvar<'a> {
    pub fn parse(b: &'a [u8]) -> Result<RawGvar<'a>, String> {
        let major = be16(b, 0)?;
        if major != 1 {
            return Err(format!("gvar major version {}", major));
        }
        let axis_count = be16(b, 4)? as usize;
        let shared_count = be16(b, 6)? as usize;
        let shared_off = be32(b, 8)? as usize;
        let glyph_count = be16(b, 12)? as usize;
        let flags = be16(b, 14)?;
        let data_array = be32(b, 16)? as usize;
        let long_offsets = flags & 1 != 0;
        let mut offsets = Vec::with_capacity(glyph_count + 1);
        for i in 0..=glyph_count {
            let o = if long_offsets {
                be32(b, 20 + 4 * i)? as usize
            } else {
                be16(b, 20 + 2 * i)? as usize * 2
            };
            offsets.push(o);
        }
        let mut shared_tuples = vec![];
        for t in 0..shared_count {
            let mut v = vec![];
            for a in 0..axis_count {
                v.push(be16(b, shared_off + 2 * (t * axis_count + a))? as i16);
            }
            shared_tuples.push(v);
        }
        Ok(RawGvar {
            data: b,
            axis_count,
            shared_tuples,
            glyph_count,
            long_offsets,
            data_array,
            offsets,
        })
    }

    /// Decode the variation data of one glyph. `n_points` is the number of
    /// points of the glyph including the four phantom points.
    pub fn glyph(&self, gid: usize, n_points: usize) -> Result<RawGlyphVar, String> {
        if gid >= self.glyph_count {
            return Ok(RawGlyphVar::default());
        }
        let (s, e) = (self.offsets[gid], self.offsets[gid + 1]);
        if e < s {
            return Err(format!("glyph {} offsets decrease {}..{}", gid, s, e));
        }
        if e == s {
            return Ok(RawGlyphVar::default());
        }
        let (s, e) = (self.data_array + s, self.data_array + e);
        if e > self.data.len() {
            return Err(format!("glyph {} data {}..{} beyond table {}", gid, s, e, self.data.len()));
        }
        let g = &self.data[s..e];
        let tvc = be16(g, 0)?;
        let count = (tvc & 0x0fff) as usize;
        let shared_points_flag = tvc & 0x8000 != 0;
        let data_off = be16(g, 2)? as usize;
        let mut hp = 4usize;
        let mut dp = data_off;
        if dp > g.len() {
            return Err("serialized data offset beyond glyph data".into());
        }
        let shared_points: Option<Option<Vec<u16>>> = if shared_points_flag {
            let (pts, used) = decode_packed_points(&g[dp..])?;
            dp += used;
            Some(pts)
        } else {
            None
        };
        let mut tuples = vec![];
        for ti in 0..count {
            let size = be16(g, hp)? as usize;
            let tidx = be16(g, hp + 2)?;
            hp += 4;
            let embedded = tidx & 0x8000 != 0;
            let inter = tidx & 0x4000 != 0;
            let private = tidx & 0x2000 != 0;
            let mut peak = vec![];
            let shared_tuple_index;
            if embedded {
                for a in 0..self.axis_count {
                    peak.push(be16(g, hp + 2 * a)? as i16);
                }
                hp += 2 * self.axis_count;
                shared_tuple_index = None;
            } else {
                let i = tidx & 0x0fff;
                peak = self
                    .shared_tuples
                    .get(i as usize)
                    .cloned()
                    .ok_or_else(|| format!("tuple {}: shared tuple index {} out of {}", ti, i, self.shared_tuples.len()))?;
                shared_tuple_index = Some(i);
            }
            let tents: Vec<TentBits> = if inter {
                let mut st = vec![];
                let mut en = vec![];
                for a in 0..self.axis_count {
                    st.push(be16(g, hp + 2 * a)? as i16);
                }
                hp += 2 * self.axis_count;
                for a in 0..self.axis_count {
                    en.push(be16(g, hp + 2 * a)? as i16);
                }
                hp += 2 * self.axis_count;
                (0..self.axis_count).map(|a| (st[a], peak[a], en[a])).collect()
            } else {
                peak.iter().map(|p| implied_tent(*p)).collect()
            };
            if hp > data_off {
                return Err("tuple headers overlap serialized data".into());
            }
            if dp + size > g.len() {
                return Err(format!("tuple {} data {}+{} beyond glyph data {}", ti, dp, size, g.len()));
            }
            let td = &g[dp..dp + size];
            let mut used = 0usize;
            let points: Option<Vec<u16>> = if private {
                let (pts, u) = decode_packed_points(td)?;
                used += u;
                pts
            } else {
                match &shared_points {
                    Some(p) => p.clone(),
                    None => {
                        // Neither private nor shared point numbers: the spec
                        // gives no point set. Treat as all points, flagged by
                        // the caller through `private_points`/`shared_points_flag`.
                        None
                    }
                }
            };
            let n = points.as_ref().map(|p| p.len()).unwrap_or(n_points);
            let (dx, u1, x_runs) = decode_packed_deltas(&td[used..], n)?;
            used += u1;
            let (dy, u2, y_runs) = decode_packed_deltas(&td[used..], n)?;
            used += u2;
            tuples.push(RawTuple {
                tents,
                has_intermediate: inter,
                shared_tuple_index,
                private_points: private,
                points,
                dx,
                dy,
                x_runs,
                y_runs,
                data_size: size,
                data_used: used,
            });
            dp += size;
        }
        Ok(RawGlyphVar { shared_points_flag, tuples })
    }
}

impl RawTuple {
    /// Explicit deltas as a per-point option vector.
    pub fn explicit(&self, n_points: usize) -> Result<Vec<Option<(i32, i32)>>, String> {
        let mut v = vec![None; n_points];
        match &self.points {
            None => {
                if self.dx.len() != n_points {
                    return Err("all-points tuple with wrong delta count".into());
                }
                for i in 0..n_points {
                    v[i] = Some((self.dx[i], self.dy[i]));
                }
            }
            Some(pts) => {
                for (k, p) in pts.iter().enumerate() {
                    let p = *p as usize;
                    if p >= n_points {
                        // point numbers beyond the glyph are ignored
                        continue;
                    }
                    v[p] = Some((self.dx[k], self.dy[k]));
                }
            }
        }
        Ok(v)
    }
}
