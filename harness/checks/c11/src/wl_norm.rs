//! (c) axis normalisation: fvar default normalisation + avar segment maps,
//! through read-fonts (`VariationAxisRecord::normalize`, `SegmentMaps::apply`,
//! `Fvar::user_to_normalized`) and skrifa (`Axis::normalize`,
//! `AxisCollection::location`), against exact rational arithmetic with the
//! spec's 16.16 -> 2.14 conversion.

use crate::model::{avar_exact, fixed_candidates, fixed_to_f2dot14, normalize_exact, Frac};
use read_fonts::{FontRef, TableProvider};
use serde_json::json;
use skrifa::MetadataProvider;
use vf_core::{guard, Ctx, Digest, Rng};
use write_fonts::tables::avar::{Avar, AxisValueMap, SegmentMaps};
use write_fonts::tables::fvar::{AxisInstanceArrays, Fvar, VariationAxisRecord};
use write_fonts::types::{F2Dot14, Fixed, NameId, Tag};
use write_fonts::FontBuilder;

#[derive(Clone, Debug)]
pub struct AxisSpec {
    /// 16.16 bits
    pub min: i32,
    pub def: i32,
    pub max: i32,
    /// avar map (from, to) in F2Dot14 bits; empty = no mapping
    pub map: Vec<(i16, i16)>,
}

fn fx(v: f64) -> i32 {
    (v * 65536.0).round() as i32
}

pub fn gen_axis(rng: &mut Rng) -> AxisSpec {
    let kind = rng.below(12);
    let (min, def, max): (i32, i32, i32) = match kind {
        0 => (fx(100.0), fx(400.0), fx(900.0)),
        1 => (fx(1.0), fx(400.0), fx(1000.0)),
        2 => (fx(-15.0), fx(0.0), fx(0.0)),            // default == max
        3 => (fx(0.0), fx(0.0), fx(1.0)),              // min == default
        4 => (fx(12.5), fx(12.5), fx(12.5)),           // all equal
        5 => (fx(75.0), fx(100.0), fx(125.0)),
        6 => (0, 1, 2),                                 // one LSB apart
        7 => (fx(-1.0), fx(0.0), fx(1.0)),
        8 => {
            // random moderate, fractional
            let a = rng.range(-(2000 << 16), 2000 << 16) as i32;
            let b = a + rng.range(0, 1000 << 16) as i32;
            let c = b + rng.range(0, 1000 << 16) as i32;
            (a, b, c)
        }
        9 => {
            let d = rng.range(-100, 100) as i32 * 65536;
            (d - rng.range(0, 3) as i32, d, d + rng.range(0, 3) as i32)
        }
        10 => (fx(8.0), fx(14.0), fx(144.0)),
        _ => {
            // spans up to 32767 (the largest the 16.16 differences hold)
            let a = rng.range(-16000, 0) as i32 * 65536;
            let b = rng.range(0, 500) as i32 * 65536;
            let c = b + rng.range(0, 16000) as i32 * 65536;
            (a, b, c)
        }
    };
    let map = if rng.chance(1, 2) { vec![] } else { gen_segment_map(rng) };
    AxisSpec { min, def, max, map }
}

/// Valid segment map: contains (-1,-1), (0,0), (1,1); `from` strictly
/// increasing, `to` non-decreasing.
pub fn gen_segment_map(rng: &mut Rng) -> Vec<(i16, i16)> {
    let mut pts: Vec<(i16, i16)> = vec![(-16384, -16384), (0, 0), (16384, 16384)];
    let extra = rng.range(0, 8) as usize;
    for _ in 0..extra {
        let f = match rng.below(6) {
            0 => *rng.pick(&[-16383i16, -1, 1, 16383, 8192, -8192]),
            _ => rng.range(-16383, 16383) as i16,
        };
        if pts.iter().any(|p| p.0 == f) {
            continue;
        }
        pts.push((f, 0));
    }
    pts.sort_unstable();
    // assign non-decreasing `to` values between the fixed anchors
    let n = pts.len();
    for i in 0..n {
        let f = pts[i].0;
        if f == -16384 || f == 0 || f == 16384 {
            pts[i].1 = f;
            continue;
        }
        let lo = pts[i - 1].1;
        let hi: i16 = if f < 0 { 0 } else { 16384 };
        // slope families relative to the previous point: flat, jump to the
        // cap, exactly 1 (a translated copy of the identity line when the
        // previous point is off it), exactly 2, exactly 1/2, or arbitrary.
        let run = f as i64 - pts[i - 1].0 as i64;
        let with_slope = |num: i64, den: i64| -> Option<i16> {
            let t = lo as i64 + run * num / den;
            (t >= lo as i64 && t <= hi as i64).then_some(t as i16)
        };
        pts[i].1 = match rng.below(8) {
            0 => lo,
            1 => hi,
            2 | 3 => with_slope(1, 1).unwrap_or(hi),
            4 => with_slope(2, 1).unwrap_or(hi),
            5 => with_slope(1, 2).unwrap_or(lo),
            _ => rng.range(lo as i64, hi as i64) as i16,
        };
    }
    pts
}

pub fn build_axes_font(axes: &[AxisSpec], with_avar: bool) -> Result<Vec<u8>, String> {
    let recs: Vec<VariationAxisRecord> = axes
        .iter()
        .enumerate()
        .map(|(a, s)| {
            VariationAxisRecord::new(
                Tag::new(&[b'A', b'X', b'0' + (a / 10) as u8, b'0' + (a % 10) as u8]),
                Fixed::from_bits(s.min),
                Fixed::from_bits(s.def),
                Fixed::from_bits(s.max),
                0,
                NameId::new(256 + a as u16),
            )
        })
        .collect();
    let fvar = Fvar::new(AxisInstanceArrays::new(recs, vec![]));
    let mut fb = FontBuilder::new();
    fb.add_table(&fvar).map_err(|e| format!("fvar: {}", e))?;
    if with_avar {
        let maps: Vec<SegmentMaps> = axes
            .iter()
            .map(|s| SegmentMaps::new(s.map.iter().map(|(f, t)| AxisValueMap::new(F2Dot14::from_bits(*f), F2Dot14::from_bits(*t))).collect()))
            .collect();
        fb.add_table(&Avar::new(maps)).map_err(|e| format!("avar: {}", e))?;
    }
    // head/maxp so that the file is a plausible font
    let head = write_fonts::tables::head::Head { units_per_em: 1000, ..Default::default() };
    fb.add_table(&head).map_err(|e| format!("head: {}", e))?;
    Ok(fb.build())
}

/// User values (16.16 bits, exactly representable in f32) to probe an axis.
fn probe_values(rng: &mut Rng, s: &AxisSpec, n_grid: usize) -> Vec<i32> {
    let mut v: Vec<i64> = vec![s.min as i64, s.def as i64, s.max as i64];
    for b in [s.min as i64, s.def as i64, s.max as i64] {
        for d in [-65536i64, -256, 256, 65536] {
            v.push(b + d);
        }
    }
    v.push(s.min as i64 - (1000 << 16));
    v.push(s.max as i64 + (1000 << 16));
    // dense grid across [min, max] and a little beyond
    let lo = s.min as i64 - 3 * 65536;
    let hi = s.max as i64 + 3 * 65536;
    for k in 0..=n_grid as i64 {
        v.push(lo + (hi - lo) * k / n_grid as i64);
    }
    for _ in 0..n_grid / 4 {
        v.push(rng.range(lo, hi));
    }
    // user values that hit avar `from` points exactly or nearly
    for (f, _) in &s.map {
        let nf = *f as i64; // normalised 2.14
        let u = if nf < 0 { s.def as i64 + (s.def as i64 - s.min as i64) * nf / 16384 } else { s.def as i64 + (s.max as i64 - s.def as i64) * nf / 16384 };
        v.push(u);
        v.push(u + 256);
        v.push(u - 256);
    }
    // f32-exact: keep 24 significant bits (drop low bits when large)
    let mut out: Vec<i32> = v
        .into_iter()
        .map(|x| x.clamp(-(32767 << 16), 32767 << 16))
        .map(|x| {
            let m = x.unsigned_abs();
            let bits = 64 - m.leading_zeros() as i64;
            if bits > 24 {
                let sh = bits - 24;
                ((x >> sh) << sh) as i32
            } else {
                x as i32
            }
        })
        .collect();
    out.sort_unstable();
    out.dedup();
    out
}

pub fn check_axes_case(ctx: &mut Ctx, rng: &mut Rng, case: u64) {
    let n_axes = rng.range(1, 4) as usize;
    let axes: Vec<AxisSpec> = (0..n_axes).map(|_| gen_axis(rng)).collect();
    let with_avar = axes.iter().any(|a| !a.map.is_empty());
    // an avar table needs a map for every axis: identity for the others
    let axes: Vec<AxisSpec> = axes
        .into_iter()
        .map(|mut a| {
            if with_avar && a.map.is_empty() {
                a.map = if rng.bool() { vec![(-16384, -16384), (0, 0), (16384, 16384)] } else { vec![] };
            }
            a
        })
        .collect();
    let font = match guard(|| build_axes_font(&axes, with_avar)) {
        Ok(Ok(f)) => f,
        Ok(Err(e)) => {
            ctx.count("norm_font_build_failed", 1);
            ctx.sample_by_kind("norm_build_failed", json!({"error": e}));
            return;
        }
        Err(p) => {
            ctx.judge_panic(&p, "building fvar/avar", json!({"axes": format!("{:?}", axes)}), None);
            return;
        }
    };
    ctx.count("norm_fonts_built", 1);
    let Ok(fr) = FontRef::new(&font) else {
        ctx.count("norm_font_unreadable", 1);
        return;
    };
    let Ok(fvar) = fr.fvar() else {
        ctx.violation(&format!("norm:fvar-unreadable:case{}", case), json!({"axes": format!("{:?}", axes)}), Some(&font));
        return;
    };
    let avar = fr.avar().ok();
    let sk_axes = fr.axes();
    let Ok(recs) = fvar.axes() else { return };
    for (ai, s) in axes.iter().enumerate() {
        let Some(rec) = recs.get(ai) else { continue };
        let Some(sk) = sk_axes.get(ai) else { continue };
        let span_too_large = (s.max as i64 - s.def as i64) > i32::MAX as i64 || (s.def as i64 - s.min as i64) > i32::MAX as i64;
        let class = if s.min == s.def && s.def == s.max {
            "min=default=max"
        } else if s.min == s.def {
            "min=default"
        } else if s.def == s.max {
            "default=max"
        } else {
            "regular"
        };
        ctx.count(&format!("norm_axis_class:{}", class), 1);
        let values = probe_values(rng, s, ctx.tier.pick(96, 400));
        let seg = avar.as_ref().and_then(|a| a.axis_segment_maps().get(ai).and_then(|m| m.ok()));
        let mut prev: Option<(i32, i64, i64)> = None;
        for &v in &values {
            ctx.eval();
            let q = normalize_exact(s.min as i64, s.def as i64, s.max as i64, v as i64);
            let cands = fixed_candidates(q);
            // --- read-fonts default normalisation (16.16)
            let rec2 = *rec;
            let got = match guard(move || rec2.normalize(Fixed::from_bits(v)).to_bits()) {
                Ok(g) => g as i64,
                Err(p) => {
                    let saved = ctx.policy;
                    ctx.policy = vf_core::PanicPolicy::Totality;
                    ctx.judge_panic(&p, "VariationAxisRecord::normalize", json!({"axis": format!("{:?}", s), "value_16_16": v}), Some(&font));
                    ctx.policy = saved;
                    continue;
                }
            };
            let sig_base = format!("norm:{}:case{}:axis{}", class, case, ai);
            if !cands.contains(&got) {
                ctx.violation(
                    &format!("{}:default-normalisation", if span_too_large { "norm:span-exceeds-16.16".to_string() } else { sig_base.clone() }),
                    json!({"what": "VariationAxisRecord::normalize differs from (v-default)/(max-default) resp. -(default-v)/(default-min) rounded to 16.16",
                           "axis_min_def_max_16_16": [s.min, s.def, s.max], "value_16_16": v, "got_16_16": got, "exact": q.to_f64(), "accepted_16_16": cands}),
                    Some(&font),
                );
                break;
            }
            ctx.count("norm_default_normalisation_checked", 1);
            // anchor points
            if v == s.def && got != 0 {
                ctx.violation(&format!("{}:default-not-zero", sig_base), json!({"got": got}), Some(&font));
            }
            if class == "regular" {
                if v <= s.min && got != -65536 {
                    ctx.violation(&format!("{}:min-not-minus-one", sig_base), json!({"value": v, "got": got, "axis": [s.min, s.def, s.max]}), Some(&font));
                }
                if v >= s.max && got != 65536 {
                    ctx.violation(&format!("{}:max-not-plus-one", sig_base), json!({"value": v, "got": got, "axis": [s.min, s.def, s.max]}), Some(&font));
                }
            }
            // --- skrifa Axis::normalize (2.14, no avar)
            let vf = v as f32 / 65536.0; // exact by construction
            let sk2 = sk.clone();
            if let Ok(n) = guard(move || sk2.normalize(vf).to_bits()) {
                let acc: Vec<i64> = cands.iter().map(|c| fixed_to_f2dot14(*c)).collect();
                if !acc.contains(&(n as i64)) {
                    ctx.violation(
                        &format!("{}:skrifa-axis-normalize", sig_base),
                        json!({"what": "skrifa Axis::normalize differs from the spec value converted to 2.14", "value": vf, "got_2_14": n, "accepted_2_14": acc}),
                        Some(&font),
                    );
                    break;
                }
                ctx.count("norm_skrifa_axis_normalize_checked", 1);
            }
            // --- avar
            let mut final_acc: Vec<i64> = vec![];
            if let Some(seg) = &seg {
                let seg2 = seg.clone();
                let mapped = match guard(move || seg2.apply(Fixed::from_bits(got as i32)).to_bits()) {
                    Ok(m) => m as i64,
                    Err(p) => {
                        let saved = ctx.policy;
                        ctx.policy = vf_core::PanicPolicy::Totality;
                        ctx.judge_panic(&p, "SegmentMaps::apply", json!({"map": s.map, "coord_16_16": got}), Some(&font));
                        ctx.policy = saved;
                        continue;
                    }
                };
                let qm = if s.map.is_empty() { Frac::new(got as i128, 65536) } else { avar_exact(&s.map, got) };
                let mc = fixed_candidates(qm);
                if !mc.contains(&mapped) {
                    ctx.violation(
                        &format!("{}:segment-map", sig_base),
                        json!({"what": "SegmentMaps::apply differs from linear interpolation between the surrounding map points (rounded to 16.16)",
                               "map_f2dot14_bits": s.map, "coord_16_16": got, "got_16_16": mapped, "exact": qm.to_f64(), "accepted_16_16": mc}),
                        Some(&font),
                    );
                    break;
                }
                ctx.count("norm_segment_map_checked", 1);
                for c in &cands {
                    let qm = if s.map.is_empty() { Frac::new(*c as i128, 65536) } else { avar_exact(&s.map, *c) };
                    for m in fixed_candidates(qm) {
                        final_acc.push(fixed_to_f2dot14(m));
                    }
                }
            } else {
                for c in &cands {
                    final_acc.push(fixed_to_f2dot14(*c));
                }
            }
            // --- skrifa AxisCollection::location (default normalisation + avar, 2.14)
            let tag = sk.tag();
            let sk_axes2 = sk_axes.clone();
            let loc = guard(move || sk_axes2.location([(tag, vf)]).coords().iter().map(|c| c.to_bits()).collect::<Vec<i16>>());
            let Ok(loc) = loc else { continue };
            let got_loc = loc.get(ai).copied().unwrap_or(0) as i64;
            if !final_acc.contains(&got_loc) {
                ctx.violation(
                    &format!("{}:location", sig_base),
                    json!({"what": "AxisCollection::location differs from default normalisation + segment map + 2.14 conversion", "value": vf,
                           "got_2_14": got_loc, "accepted_2_14": final_acc, "axis_min_def_max_16_16": [s.min, s.def, s.max], "map_f2dot14_bits": s.map}),
                    Some(&font),
                );
                break;
            }
            ctx.count("norm_location_checked", 1);
            // --- monotone
            if let Some((pv, pg, pl)) = prev {
                if v > pv && (got < pg || got_loc < pl) {
                    ctx.violation(
                        &format!("{}:not-monotone", sig_base),
                        json!({"what": "normalisation is not monotone non-decreasing", "values_16_16": [pv, v], "normalized_16_16": [pg, got], "location_2_14": [pl, got_loc]}),
                        Some(&font),
                    );
                    break;
                }
            }
            prev = Some((v, got, got_loc));
            if class == "regular" && v > s.min && v < s.max && v != s.def {
                let mut d = Digest::new();
                d.i64(s.min as i64);
                d.i64(s.def as i64);
                d.i64(s.max as i64);
                d.dbg(&s.map);
                d.i64(v as i64);
                let dg = d.finish();
                ctx.count("norm_values_strictly_inside_regular_axis", 1);
                if dg & 0x1f == 0 {
                    ctx.nontrivial(dg);
                }
            }
        }
        if !s.map.is_empty() {
            ctx.count("norm_axes_with_segment_map", 1);
            ctx.distinct("norm_segment_map_sizes", s.map.len() as u64);
        }
    }
    ctx.sample_by_kind("norm-axes", json!({"axes": axes.iter().map(|a| json!({"min_def_max_16_16": [a.min, a.def, a.max], "avar_map_f2dot14_bits": a.map})).collect::<Vec<_>>()}));
}

/// Axis whose span exceeds what a 16.16 difference can hold.
pub fn probe_large_span(ctx: &mut Ctx) {
    let s = AxisSpec { min: -30000 << 16, def: 20000 << 16, max: 30000 << 16, map: vec![] };
    let Ok(Ok(font)) = guard(|| build_axes_font(&[s.clone()], false)) else { return };
    let Ok(fr) = FontRef::new(&font) else { return };
    let Ok(fvar) = fr.fvar() else { return };
    let Ok(recs) = fvar.axes() else { return };
    let rec = recs[0];
    for v in [-30000i32 << 16, -5000 << 16, 0, 10000 << 16, 20000 << 16, 25000 << 16, 30000 << 16] {
        ctx.eval();
        let q = normalize_exact(s.min as i64, s.def as i64, s.max as i64, v as i64);
        let cands = fixed_candidates(q);
        let got = match guard(move || rec.normalize(Fixed::from_bits(v)).to_bits()) {
            Ok(g) => g as i64,
            Err(p) => {
                let saved = ctx.policy;
                ctx.policy = vf_core::PanicPolicy::Totality;
                ctx.judge_panic(&p, "VariationAxisRecord::normalize (large span)", json!({"value_16_16": v}), Some(&font));
                ctx.policy = saved;
                continue;
            }
        };
        ctx.count("norm_large_span_probes", 1);
        if !cands.contains(&got) {
            ctx.violation(
                "norm:span-exceeds-16.16:default-normalisation",
                json!({"what": "axis with default - min (or max - default) >= 32768: the 16.16 difference saturates and values between min and default normalise non-linearly",
                       "axis_min_def_max": [-30000, 20000, 30000], "value": v >> 16, "got": got as f64 / 65536.0, "exact": q.to_f64()}),
                Some(&font),
            );
        }
    }
}
