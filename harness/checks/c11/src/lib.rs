//! C11 — variation stores, metric deltas and axis normalisation compute
//! specified values. See /verif/DESIGN.md §3 "C11".
//!
//! (a) VariationStoreBuilder: every delta set added is retrievable through the
//!     remapped index from the COMPILED table (independent decoder and
//!     read-fonts) with exactly the same per-region deltas;
//! (b) ItemVariationStore::compute_delta / compute_float_delta == sum of spec
//!     tent scalar x delta; DeltaSetIndexMap lookups;
//! (c) fvar/avar normalisation (read-fonts and skrifa) against exact rationals;
//!     (c') histories of 2-4 calls that reuse ONE output buffer (subsets of the
//!     axes, duplicate / unknown tags, empty settings, short / long buffers,
//!     Location / LocationRef / NamedInstance / filter paths): only the LAST
//!     call's settings may show, an axis without a setting is 0;
//! (d) skrifa GlyphMetrics advance / lsb == hmtx + integer HVAR (or gvar
//!     phantom point) delta.
use serde_json::json;
use vf_core::{Args, Ctx, PanicPolicy, Rng};

pub mod gvmodel;
pub mod model;
pub mod wl_hist;
pub mod wl_metrics;
pub mod wl_norm;
pub mod wl_store;

pub const REPLAY: Option<fn(&mut Ctx, &Args, &serde_json::Value, Option<&[u8]>)> = None;

pub fn run(ctx: &mut Ctx, _args: &Args) {
    ctx.policy = PanicPolicy::Any;
    ctx.rule = "distinct cases (digest of the input; the per-location / per-value kinds keep every 16th resp. 32nd digest, full counts are in events.delta_locations_with_partial_scalar, norm_values_strictly_inside_regular_axis, metrics_nonzero_delta_with_partial_scalar) where: a store case has >= 2 distinct delta sets and the builder merged duplicates, split into several subtables, pruned regions or mixed word sizes; \
                or a (row, location) has a non-zero exact delta with a partially active region; or a user coordinate lies strictly inside a regular axis (not at min/default/max); or a history of normalisation calls on one reused buffer in which a later call omits an axis that an earlier call had moved off its default; \
                or a (glyph, location) has a non-zero metric delta with a partially active region; or a DeltaSetIndexMap has > 1 entry"
        .into();
    ctx.assumptions = vec![
        "delta sets handed to the builder do not name the same region twice".into(),
        "compute_delta: documented rounding (accum + 0x8000) >> 16; tolerance 0.5 + sum|delta|*k/2^17 (k = partially active axes; the library rounds each tent scalar to 16.16 once per axis)".into(),
        "compute_float_delta: f32 scalars, tolerance 16 ulp(f32) * sum|delta|".into(),
        "rows with sum|delta| > 1e9 are not evaluated through compute_delta (i32 result range)".into(),
        "normalisation: each stage may round to the nearest 16.16 value either way on ties (spec leaves the rounding open); 16.16 -> 2.14 as the spec prescribes ((x + 2) >> 2)".into(),
        "histories: an axis without a setting in the LAST call must be exactly 0, entries beyond the axis count exactly 0, a repeated tag takes the last value, unknown tags are ignored (the doc comments of Fvar::user_to_normalized / AxisCollection::location_to_slice); a setting applies to every axis carrying its tag".into(),
        "axes satisfy min <= default <= max and spans < 32768 (the span-overflow probe is separate); segment maps valid: contain -1/0/+1, `from` strictly increasing, `to` non-decreasing".into(),
        "metrics: advance/lsb must equal base + integer within 0.5 + eps of the exact delta (the library rounds the summed delta to nearest)".into(),
    ];
    let thorough = ctx.tier.is_thorough();

    // (a) + (b)
    let classes: [(&'static str, usize, usize); 6] = [
        ("tiny", 80_000, 1_500_000),
        ("small", 50_000, 1_000_000),
        ("wide", 3_000, 60_000),
        ("many-shapes", 480, 8_000),
        ("many-rows", 320, 4_000),
        ("huge", 0, 8),
    ];
    let mut item = 0usize;
    for (class, q, t) in classes {
        let n = ctx.tier.pick(q, t);
        for i in 0..n {
            item += 1;
            if !ctx.mine(item) {
                continue;
            }
            let mut rng = Rng::derive(ctx.seed, &format!("c11-store-{}", class), i as u64);
            let case = wl_store::gen_store_case(&mut rng, class, i as u64, thorough);
            let Some(built) = wl_store::check_store(ctx, &case) else { continue };
            // (b) on a sample of rows
            let mut slots = built.index.clone();
            slots.sort_unstable();
            slots.dedup();
            if slots.len() > 24 {
                rng.shuffle(&mut slots);
                slots.truncate(24);
            }
            let id = format!("{}-{}", class, i);
            wl_store::check_compute_delta(ctx, &built.bytes, &id, &slots, ctx.tier.pick(6, 12), &mut rng);
        }
    }

    // (a) stores in which one row shape holds more than 0xFFFF distinct delta sets (that
    // encoding is split over several subtables) with cheaper and costlier shapes around
    // it. One work item (= one shard) per store; spread so that they do not land on
    // neighbouring shards.
    let variants: &[u32] = ctx.tier.pick(&[0u32, 1, 0][..], &[0, 1, 0, 2, 3, 0, 1, 3][..]);
    for (k, variant) in variants.iter().enumerate() {
        item += 1;
        let slot = (k * 5 + 3) % ctx.shard.1.max(1);
        if ctx.shard.0 != slot {
            continue;
        }
        let mut rng = Rng::derive(ctx.seed, "c11-store-huge-mixed", k as u64);
        let case = wl_store::gen_huge_mixed_case(&mut rng, k as u64, *variant);
        let Some(built) = wl_store::check_store(ctx, &case) else { continue };
        // (b) on rows from every subtable, in particular those after the split
        let mut slots = built.index.clone();
        slots.sort_unstable();
        slots.dedup();
        let mut pick: Vec<(u16, u16)> = vec![];
        let mut per_outer: std::collections::BTreeMap<u16, usize> = Default::default();
        rng.shuffle(&mut slots);
        for s in slots {
            let c = per_outer.entry(s.0).or_insert(0);
            if *c < 6 {
                *c += 1;
                pick.push(s);
            }
        }
        let id = format!("huge-mixed-{}", k);
        wl_store::check_compute_delta(ctx, &built.bytes, &id, &pick, ctx.tier.pick(4, 8), &mut rng);
    }

    // DeltaSetIndexMap
    let n = ctx.tier.pick(12_000usize, 250_000);
    for i in 0..n {
        item += 1;
        if !ctx.mine(item) {
            continue;
        }
        let mut rng = Rng::derive(ctx.seed, "c11-dsim", i as u64);
        wl_store::check_dsim(ctx, &mut rng, i as u64);
    }

    // (c)
    if ctx.mine(0) {
        wl_norm::probe_large_span(ctx);
    }
    let n = ctx.tier.pick(40_000usize, 1_000_000);
    for i in 0..n {
        item += 1;
        if !ctx.mine(item) {
            continue;
        }
        let mut rng = Rng::derive(ctx.seed, "c11-norm", i as u64);
        wl_norm::check_axes_case(ctx, &mut rng, i as u64);
    }

    // (c') histories: one caller-owned buffer reused across several calls
    let n = ctx.tier.pick(120_000usize, 2_000_000);
    for i in 0..n {
        item += 1;
        if !ctx.mine(item) {
            continue;
        }
        let mut rng = Rng::derive(ctx.seed, "c11-norm-history", i as u64);
        wl_hist::check_history_case(ctx, &mut rng, i as u64);
    }

    // (d) built fonts
    let n = ctx.tier.pick(30_000usize, 600_000);
    for i in 0..n {
        item += 1;
        if !ctx.mine(item) {
            continue;
        }
        let mut rng = Rng::derive(ctx.seed, "c11-metrics", i as u64);
        wl_metrics::check_built_metrics(ctx, &mut rng, i as u64);
    }

    // (b) + (d) corpus fonts
    for f in vf_core::corpus_fonts() {
        let Ok(font) = read_fonts::FontRef::new(&f.data) else { continue };
        use read_fonts::TableProvider;
        if font.fvar().is_err() {
            continue;
        }
        let ng = font.maxp().map(|m| m.num_glyphs()).unwrap_or(0) as usize;
        ctx.label("corpus_variable_fonts", &f.name);
        let per = ctx.tier.pick(600usize, 20_000);
        let step = (ng / per).max(1);
        let gids: Vec<u32> = (0..ng).step_by(step).map(|g| g as u32).collect();
        for chunk in gids.chunks(8) {
            item += 1;
            if !ctx.mine(item) {
                continue;
            }
            let mut rng = Rng::derive(ctx.seed, &f.name, chunk[0] as u64);
            wl_metrics::check_corpus_metrics(ctx, &f.name, &f.data, chunk, &mut rng);
        }
        // compute_delta on the font's own HVAR / MVAR stores
        item += 1;
        if ctx.mine(item) {
            let mut rng = Rng::derive(ctx.seed, &f.name, 0xde17a);
            for tag in [b"HVAR", b"MVAR", b"VVAR"] {
                let Some(t) = font.data_for_tag(read_fonts::types::Tag::new(tag)) else { continue };
                let b = t.as_bytes();
                // HVAR/VVAR: store offset at 4; MVAR: u16 at 10
                let off = if tag == b"MVAR" { model::be16(b, 10).map(|v| v as usize) } else { model::be32(b, 4).map(|v| v as usize) };
                let Ok(off) = off else { continue };
                let Some(sb) = b.get(off..) else { continue };
                let Ok(raw) = model::RawIvs::parse(sb) else {
                    ctx.count("corpus_store_undecodable", 1);
                    continue;
                };
                let mut slots = vec![];
                for (o, d) in raw.data.iter().enumerate() {
                    if let Some(d) = d {
                        for i in 0..d.item_count.min(40) {
                            slots.push((o as u16, i as u16));
                        }
                    }
                }
                ctx.label("corpus_stores_evaluated", &format!("{}:{}", f.name, String::from_utf8_lossy(tag)));
                wl_store::check_compute_delta(ctx, sb, &format!("{}:{}", f.name, String::from_utf8_lossy(tag)), &slots, ctx.tier.pick(8, 24), &mut rng);
            }
        }
    }
    let _ = json!({});
}
