//! (d) skrifa GlyphMetrics::advance_width / left_side_bearing at a location
//! == hmtx base + integer delta from HVAR (direct or through index maps), or
//! from the gvar phantom points when there is no HVAR.

use crate::gvmodel::RawGvar;
use crate::model::{be16, be32, row_delta, RawDsim, RawIvs, TentBits};
use crate::wl_store::{coord_candidates, gen_coords, gen_regions};
use read_fonts::tables::glyf::Glyph;
use read_fonts::{FontRef, TableProvider};
use serde_json::json;
use skrifa::instance::{LocationRef, Size};
use skrifa::prelude::NormalizedCoord;
use skrifa::{GlyphId, MetadataProvider};
use vf_core::{guard, Ctx, Digest, Rng};
use write_fonts::tables::glyf::{Contour, GlyfLocaBuilder, SimpleGlyph};
use write_fonts::tables::gvar::{GlyphDelta, GlyphDeltas, GlyphVariations, Gvar, Tent};
use write_fonts::tables::variations::ivs_builder::VariationStoreBuilder;
use write_fonts::tables::variations::{DeltaSetIndexMap as WDsim, RegionAxisCoordinates, VariationRegion};
use write_fonts::tables::{fvar, head, hhea, hmtx, hvar, loca, maxp};
use write_fonts::types::{F2Dot14, Fixed, NameId, Tag};
use write_fonts::FontBuilder;

/// hmtx per spec: numberOfHMetrics long records, then lsb-only records.
pub struct RawHmtx {
    pub long: Vec<(u16, i16)>,
    pub lsbs: Vec<i16>,
}

impl RawHmtx {
    pub fn parse(hmtx: &[u8], n_long: usize, n_glyphs: usize) -> Result<RawHmtx, String> {
        let mut long = vec![];
        for i in 0..n_long {
            long.push((be16(hmtx, 4 * i)?, be16(hmtx, 4 * i + 2)? as i16));
        }
        let mut lsbs = vec![];
        for i in 0..n_glyphs.saturating_sub(n_long) {
            match be16(hmtx, 4 * n_long + 2 * i) {
                Ok(v) => lsbs.push(v as i16),
                Err(_) => break,
            }
        }
        Ok(RawHmtx { long, lsbs })
    }
    pub fn advance(&self, gid: usize) -> Option<i32> {
        self.long.get(gid).or(self.long.last()).map(|m| m.0 as i32)
    }
    pub fn lsb(&self, gid: usize) -> Option<i32> {
        if gid < self.long.len() {
            Some(self.long[gid].1 as i32)
        } else {
            self.lsbs.get(gid - self.long.len()).map(|v| *v as i32)
        }
    }
}

pub struct RawHvar {
    pub ivs: RawIvs,
    pub adv: Option<RawDsim>,
    pub lsb: Option<RawDsim>,
}

impl RawHvar {
    pub fn parse(b: &[u8]) -> Result<RawHvar, String> {
        let ivs_off = be32(b, 4)? as usize;
        let adv_off = be32(b, 8)? as usize;
        let lsb_off = be32(b, 12)? as usize;
        let ivs = RawIvs::parse(b.get(ivs_off..).ok_or("ivs offset")?)?;
        let adv = if adv_off != 0 { Some(RawDsim::parse(b.get(adv_off..).ok_or("adv map offset")?)?) } else { None };
        let lsb = if lsb_off != 0 { Some(RawDsim::parse(b.get(lsb_off..).ok_or("lsb map offset")?)?) } else { None };
        Ok(RawHvar { ivs, adv, lsb })
    }
}

fn w_region(r: &[TentBits]) -> VariationRegion {
    VariationRegion::new(
        r.iter()
            .map(|&(s, p, e)| RegionAxisCoordinates::new(F2Dot14::from_bits(s), F2Dot14::from_bits(p), F2Dot14::from_bits(e)))
            .collect(),
    )
}

fn axis_records(n: usize) -> Vec<fvar::VariationAxisRecord> {
    (0..n)
        .map(|a| {
            fvar::VariationAxisRecord::new(
                Tag::new(&[b'A', b'X', b'0' + (a / 10) as u8, b'0' + (a % 10) as u8]),
                Fixed::from_i32(-100),
                Fixed::from_i32(0),
                Fixed::from_i32(100),
                0,
                NameId::new(256 + a as u16),
            )
        })
        .collect()
}

#[derive(Clone, Debug)]
pub struct MetricsFontSpec {
    pub n_axes: usize,
    pub n_glyphs: usize,
    pub n_long: usize,
    pub advances: Vec<u16>,
    pub lsbs: Vec<i16>,
    pub regions: Vec<Vec<TentBits>>,
    /// per glyph advance deltas (region idx, delta)
    pub adv_rows: Vec<Vec<(usize, i32)>>,
    pub lsb_rows: Option<Vec<Vec<(usize, i32)>>>,
    pub mode: &'static str, // "hvar-direct" | "hvar-mapped" | "gvar"
}

pub fn gen_metrics_font(rng: &mut Rng) -> MetricsFontSpec {
    let n_axes = rng.range(1, 3) as usize;
    let n_glyphs = *rng.pick(&[1usize, 2, 3, 5, 17, 40, 130, 300]);
    let n_long = match rng.below(4) {
        0 => n_glyphs,
        1 => 1,
        _ => rng.range(1, n_glyphs as i64) as usize,
    };
    let mode = *rng.pick(&["hvar-direct", "hvar-mapped", "hvar-mapped", "gvar"]);
    let n_regions = rng.range(1, 5) as usize;
    let regions = gen_regions(rng, n_axes, n_regions, false);
    let gen_rows = |rng: &mut Rng| -> Vec<Vec<(usize, i32)>> {
        (0..n_glyphs)
            .map(|_| {
                let mut row = vec![];
                for r in 0..regions.len() {
                    if rng.chance(2, 3) {
                        row.push((r, *rng.pick(&[-300i32, -129, -128, -17, -1, 1, 3, 50, 127, 128, 255, 700, 1001])));
                    }
                }
                if rng.chance(1, 8) {
                    row.clear();
                }
                row
            })
            .collect()
    };
    let adv_rows = gen_rows(rng);
    let lsb_rows = if mode == "hvar-direct" { None } else if rng.chance(2, 3) || mode == "gvar" { Some(gen_rows(rng)) } else { None };
    MetricsFontSpec {
        n_axes,
        n_glyphs,
        n_long,
        advances: (0..n_long).map(|_| rng.range(400, 2000) as u16).collect(),
        lsbs: (0..n_glyphs).map(|_| rng.range(-200, 200) as i16).collect(),
        regions,
        adv_rows,
        lsb_rows,
        mode,
    }
}

pub fn build_metrics_font(spec: &MetricsFontSpec) -> Result<Vec<u8>, String> {
    let mut fb = FontBuilder::new();
    let head_t = head::Head { units_per_em: 1000, ..Default::default() };
    let long: Vec<hmtx::LongMetric> = (0..spec.n_long).map(|i| hmtx::LongMetric::new(spec.advances[i], spec.lsbs[i])).collect();
    let hmtx_t = hmtx::Hmtx::new(long, spec.lsbs[spec.n_long..].to_vec());
    let hhea_t = hhea::Hhea { number_of_h_metrics: spec.n_long as u16, ..Default::default() };
    let maxp_t = maxp::Maxp { num_glyphs: spec.n_glyphs as u16, ..Default::default() };
    let fvar_t = fvar::Fvar::new(fvar::AxisInstanceArrays::new(axis_records(spec.n_axes), vec![]));
    let mut head_t = head_t;
    match spec.mode {
        "hvar-direct" => {
            let mut b = VariationStoreBuilder::new_with_implicit_indices(spec.n_axes as u16);
            for row in &spec.adv_rows {
                b.add_deltas(row.iter().map(|(r, v)| (w_region(&spec.regions[*r]), *v)).collect::<Vec<_>>());
            }
            let (store, _) = b.build();
            fb.add_table(&hvar::Hvar::new(store, None, None, None)).map_err(|e| format!("HVAR: {}", e))?;
        }
        "hvar-mapped" => {
            let mut b = VariationStoreBuilder::new(spec.n_axes as u16);
            let adv_ids: Vec<u32> = spec.adv_rows.iter().map(|row| b.add_deltas(row.iter().map(|(r, v)| (w_region(&spec.regions[*r]), *v)).collect::<Vec<_>>())).collect();
            let lsb_ids: Option<Vec<u32>> = spec
                .lsb_rows
                .as_ref()
                .map(|rows| rows.iter().map(|row| b.add_deltas(row.iter().map(|(r, v)| (w_region(&spec.regions[*r]), *v)).collect::<Vec<_>>())).collect());
            let (store, remap) = b.build();
            let to_map = |ids: &[u32]| -> Result<WDsim, String> {
                let mut v = vec![];
                for id in ids {
                    let vi = remap.get(*id).ok_or("missing remap entry")?;
                    v.push(((vi.delta_set_outer_index as u32) << 16) | vi.delta_set_inner_index as u32);
                }
                Ok(v.into_iter().collect())
            };
            let adv_map = to_map(&adv_ids)?;
            let lsb_map = match &lsb_ids {
                Some(ids) => Some(to_map(ids)?),
                None => None,
            };
            fb.add_table(&hvar::Hvar::new(store, Some(adv_map), lsb_map, None)).map_err(|e| format!("HVAR: {}", e))?;
        }
        _ => {
            // glyf + gvar with phantom point deltas only on phantom points 0/1
            let mut gb = GlyfLocaBuilder::new();
            let mut vars = vec![];
            for gid in 0..spec.n_glyphs {
                let pts = vec![
                    read_fonts::tables::glyf::CurvePoint::on_curve(spec.lsbs[gid], 0),
                    read_fonts::tables::glyf::CurvePoint::on_curve(spec.lsbs[gid] + 100, 0),
                    read_fonts::tables::glyf::CurvePoint::on_curve(spec.lsbs[gid] + 50, 80),
                ];
                let mut sg = SimpleGlyph { bbox: Default::default(), contours: vec![Contour::from(pts)], instructions: vec![] };
                sg.recompute_bounding_box();
                gb.add_glyph(&sg).map_err(|e| format!("glyf: {}", e))?;
                // one tuple per region used by this glyph
                let mut tv = vec![];
                for (ri, region) in spec.regions.iter().enumerate() {
                    let adv = spec.adv_rows[gid].iter().find(|e| e.0 == ri).map(|e| e.1).unwrap_or(0);
                    let lsb = spec.lsb_rows.as_ref().and_then(|r| r[gid].iter().find(|e| e.0 == ri).map(|e| e.1)).unwrap_or(0);
                    if adv == 0 && lsb == 0 {
                        continue;
                    }
                    let tents: Vec<Tent> = region.iter().map(|&(s, p, e)| Tent::new(F2Dot14::from_bits(p), Some((F2Dot14::from_bits(s), F2Dot14::from_bits(e))))).collect();
                    // points 0..3 move with the lsb; phantom 0 = lsb delta, phantom 1 = lsb + advance delta
                    let sparse = gid % 2 == 1;
                    let mut deltas = vec![
                        GlyphDelta::new(lsb as i16, 0, !sparse),
                        GlyphDelta::new(lsb as i16, 0, !sparse),
                        GlyphDelta::new(lsb as i16, 0, !sparse),
                        GlyphDelta::required(lsb as i16, 0),
                        GlyphDelta::required((lsb + adv) as i16, 0),
                        GlyphDelta::new(0, 0, !sparse),
                        GlyphDelta::new(0, 0, !sparse),
                    ];
                    if sparse {
                        deltas[0].required = true;
                    }
                    tv.push(GlyphDeltas::new(tents, deltas));
                }
                vars.push(GlyphVariations::new(GlyphId::new(gid as u32), tv));
            }
            let (glyf, loca_t, fmt) = gb.build();
            head_t.index_to_loc_format = match fmt {
                loca::LocaFormat::Short => 0,
                loca::LocaFormat::Long => 1,
            };
            let gvar = Gvar::new(vars, spec.n_axes as u16).map_err(|e| format!("gvar: {}", e))?;
            fb.add_table(&glyf).map_err(|e| format!("glyf: {}", e))?;
            fb.add_table(&loca_t).map_err(|e| format!("loca: {}", e))?;
            fb.add_table(&gvar).map_err(|e| format!("gvar: {}", e))?;
        }
    }
    fb.add_table(&head_t).map_err(|e| format!("head: {}", e))?;
    fb.add_table(&hmtx_t).map_err(|e| format!("hmtx: {}", e))?;
    fb.add_table(&hhea_t).map_err(|e| format!("hhea: {}", e))?;
    fb.add_table(&maxp_t).map_err(|e| format!("maxp: {}", e))?;
    fb.add_table(&fvar_t).map_err(|e| format!("fvar: {}", e))?;
    Ok(fb.build())
}

/// Exact expected (advance delta, lsb delta) of a harness-built font.
fn spec_delta(spec: &MetricsFontSpec, rows: &[Vec<(usize, i32)>], gid: usize, coords: &[i16]) -> (f64, f64) {
    let row: Vec<(&Vec<TentBits>, i32)> = rows[gid].iter().map(|(r, v)| (&spec.regions[*r], *v)).collect();
    let (x, eps, _) = row_delta(&row, coords);
    (x, eps)
}

pub fn check_built_metrics(ctx: &mut Ctx, rng: &mut Rng, case: u64) {
    let spec = gen_metrics_font(rng);
    let font = match guard(|| build_metrics_font(&spec)) {
        Ok(Ok(f)) => f,
        Ok(Err(e)) => {
            ctx.count("metrics_font_build_failed", 1);
            ctx.sample_by_kind("metrics_build_failed", json!({"error": e, "mode": spec.mode}));
            return;
        }
        Err(p) => {
            ctx.judge_panic(&p, "building metrics font", json!({"mode": spec.mode, "glyphs": spec.n_glyphs}), None);
            return;
        }
    };
    ctx.count(&format!("metrics_fonts_built:{}", spec.mode), 1);
    let Ok(fr) = FontRef::new(&font) else { return };
    let cands = coord_candidates(&spec.regions, spec.n_axes);
    let n_locs = ctx.tier.pick(10, 30);
    let mut gids: Vec<usize> = (0..spec.n_glyphs).collect();
    if gids.len() > 40 {
        rng.shuffle(&mut gids);
        gids.truncate(36);
        gids.extend_from_slice(&[0, spec.n_long.saturating_sub(1), spec.n_long.min(spec.n_glyphs - 1), spec.n_glyphs - 1]);
    }
    for _ in 0..n_locs {
        let coords = gen_coords(rng, &cands);
        let nc: Vec<NormalizedCoord> = coords.iter().map(|b| NormalizedCoord::from_bits(*b)).collect();
        let gm = fr.glyph_metrics(Size::unscaled(), LocationRef::new(&nc));
        for &gid in &gids {
            ctx.eval();
            let base_adv = spec.advances[gid.min(spec.n_long - 1)] as f64;
            let base_lsb = spec.lsbs[gid] as f64;
            let (xa, mut ea) = spec_delta(&spec, &spec.adv_rows, gid, &coords);
            if spec.mode == "gvar" {
                // the advance delta is the difference of two phantom point
                // deltas (lsb + adv and lsb), each scaled and rounded to 16.16
                if let Some(rows) = &spec.lsb_rows {
                    let (_, el) = spec_delta(&spec, rows, gid, &coords);
                    ea += 2.0 * el;
                }
                ea += spec.regions.len() as f64 * 2.0 / 65536.0;
            }
            let gm2 = gm.clone();
            let got = guard(move || (gm2.advance_width(GlyphId::new(gid as u32)), gm2.left_side_bearing(GlyphId::new(gid as u32))));
            let (adv, lsb) = match got {
                Ok(v) => v,
                Err(p) => {
                    let saved = ctx.policy;
                    ctx.policy = vf_core::PanicPolicy::Totality;
                    ctx.judge_panic(&p, "GlyphMetrics::advance_width/left_side_bearing", json!({"mode": spec.mode, "gid": gid, "coords": coords}), Some(&font));
                    ctx.policy = saved;
                    continue;
                }
            };
            let beyond = gid >= spec.n_long;
            let sig = |k: &str| format!("metrics:{}:{}:case{}:g{}", k, spec.mode, case, gid);
            match adv {
                Some(a) => {
                    let d = a as f64 - base_adv;
                    // integer, and the rounded exact delta (0.5 + 16.16 scalar bound; for
                    // gvar two roundings are not involved: one difference is rounded)
                    if d.fract() != 0.0 || (d - xa).abs() > 0.5 + ea + 1e-6 {
                        ctx.violation(
                            &sig("advance"),
                            json!({"what": "advance_width differs from hmtx advance + integer (rounded) delta", "got": a, "base": base_adv, "exact_delta": xa, "eps": ea,
                                   "beyond_number_of_h_metrics": beyond, "coords_f2dot14_bits": coords, "n_long": spec.n_long, "n_glyphs": spec.n_glyphs}),
                            Some(&font),
                        );
                    }
                    ctx.count("metrics_advance_checked", 1);
                    if beyond {
                        ctx.count("metrics_advance_checked_beyond_long_metrics", 1);
                    }
                }
                None => {
                    ctx.violation(&sig("advance-none"), json!({"what": "advance_width is None for a valid glyph id"}), Some(&font));
                }
            }
            if let Some(rows) = &spec.lsb_rows {
                let (xl, mut el) = spec_delta(&spec, rows, gid, &coords);
                if spec.mode == "gvar" {
                    el += spec.regions.len() as f64 / 65536.0;
                }
                match lsb {
                    Some(l) => {
                        let d = l as f64 - base_lsb;
                        if d.fract() != 0.0 || (d - xl).abs() > 0.5 + el + 1e-6 {
                            ctx.violation(
                                &sig("lsb"),
                                json!({"what": "left_side_bearing differs from hmtx lsb + integer (rounded) delta", "got": l, "base": base_lsb, "exact_delta": xl, "eps": el,
                                       "beyond_number_of_h_metrics": beyond, "coords_f2dot14_bits": coords, "n_long": spec.n_long}),
                                Some(&font),
                            );
                        }
                        ctx.count("metrics_lsb_checked", 1);
                    }
                    None => {
                        ctx.violation(&sig("lsb-none"), json!({"what": "left_side_bearing is None for a valid glyph id"}), Some(&font));
                    }
                }
            } else if let Some(l) = lsb {
                // no lsb deltas in the font: the base value
                if l as f64 != base_lsb && spec.mode != "gvar" {
                    ctx.violation(&sig("lsb-base"), json!({"what": "left_side_bearing without lsb variation data differs from hmtx", "got": l, "base": base_lsb, "beyond": beyond}), Some(&font));
                }
                ctx.count("metrics_lsb_base_checked", 1);
            }
            if xa != 0.0 && ea > 0.0 {
                let mut d = Digest::new();
                d.str(spec.mode);
                d.u64(case);
                d.u64(gid as u64);
                d.dbg(&coords);
                let dg = d.finish();
                ctx.count("metrics_nonzero_delta_with_partial_scalar", 1);
                if dg & 0xf == 0 {
                    ctx.nontrivial(dg);
                }
            }
        }
    }
    ctx.sample_by_kind(&format!("metrics-{}", spec.mode), json!({"glyphs": spec.n_glyphs, "number_of_h_metrics": spec.n_long, "axes": spec.n_axes, "regions": spec.regions.len(), "lsb_deltas": spec.lsb_rows.is_some()}));
}

/// Corpus fonts: reference from the font's own HVAR (or gvar) and hmtx bytes.
pub fn check_corpus_metrics(ctx: &mut Ctx, name: &str, data: &[u8], gids: &[u32], rng: &mut Rng) {
    let Ok(fr) = FontRef::new(data) else { return };
    let (Ok(hhea_t), Ok(maxp_t), Some(hmtx_b)) = (fr.hhea(), fr.maxp(), fr.data_for_tag(Tag::new(b"hmtx"))) else { return };
    let n_glyphs = maxp_t.num_glyphs() as usize;
    let Ok(hm) = RawHmtx::parse(hmtx_b.as_bytes(), hhea_t.number_of_h_metrics() as usize, n_glyphs) else { return };
    let hvar_b = fr.data_for_tag(Tag::new(b"HVAR"));
    let gvar_b = fr.data_for_tag(Tag::new(b"gvar"));
    let n_locs = ctx.tier.pick(6, 16);
    if let Some(hv) = hvar_b {
        let Ok(raw) = RawHvar::parse(hv.as_bytes()) else {
            ctx.count("metrics_corpus_hvar_undecodable", 1);
            return;
        };
        ctx.label("metrics_corpus_hvar_fonts", name);
        let cands = coord_candidates(&raw.ivs.regions, raw.ivs.axis_count);
        for _ in 0..n_locs {
            let coords = gen_coords(rng, &cands);
            let nc: Vec<NormalizedCoord> = coords.iter().map(|b| NormalizedCoord::from_bits(*b)).collect();
            let gm = fr.glyph_metrics(Size::unscaled(), LocationRef::new(&nc));
            for &gid in gids {
                ctx.eval();
                let slot = match &raw.adv {
                    Some(m) => m.get(gid),
                    None => Some((0u16, gid as u16)),
                };
                let (x, eps) = match slot.and_then(|(o, i)| raw.ivs.row(o, i)) {
                    Some(row) => {
                        let (x, eps, _) = row_delta(&row, &coords);
                        (x, eps)
                    }
                    None => (0.0, 0.0),
                };
                let Some(base) = hm.advance(gid as usize) else { continue };
                let gm2 = gm.clone();
                let Ok(Some(a)) = guard(move || gm2.advance_width(GlyphId::new(gid))) else {
                    ctx.count("metrics_corpus_advance_unavailable", 1);
                    continue;
                };
                let d = a as f64 - base as f64;
                if d.fract() != 0.0 || (d - x).abs() > 0.5 + eps + 1e-6 {
                    ctx.violation(
                        &format!("metrics:corpus-advance:{}:g{}", name, gid),
                        json!({"what": "advance_width differs from hmtx advance + rounded HVAR delta", "got": a, "base": base, "exact_delta": x, "eps": eps, "coords_f2dot14_bits": coords, "slot": slot}),
                        None,
                    );
                }
                ctx.count("metrics_corpus_hvar_advance_checked", 1);
                if let Some(lm) = &raw.lsb {
                    if let (Some((o, i)), Some(bl)) = (lm.get(gid), hm.lsb(gid as usize)) {
                        if let Some(row) = raw.ivs.row(o, i) {
                            let (x, eps, _) = row_delta(&row, &coords);
                            let gm3 = gm.clone();
                            if let Ok(Some(l)) = guard(move || gm3.left_side_bearing(GlyphId::new(gid))) {
                                let d = l as f64 - bl as f64;
                                if d.fract() != 0.0 || (d - x).abs() > 0.5 + eps + 1e-6 {
                                    ctx.violation(
                                        &format!("metrics:corpus-lsb:{}:g{}", name, gid),
                                        json!({"what": "left_side_bearing differs from hmtx lsb + rounded HVAR delta", "got": l, "base": bl, "exact_delta": x, "eps": eps, "coords_f2dot14_bits": coords}),
                                        None,
                                    );
                                }
                                ctx.count("metrics_corpus_hvar_lsb_checked", 1);
                            }
                        }
                    }
                }
                if x != 0.0 {
                    let mut dg = Digest::new();
                    dg.str(name);
                    dg.u64(gid as u64);
                    dg.dbg(&coords);
                    ctx.nontrivial(dg.finish());
                }
            }
        }
    } else if let Some(gv) = gvar_b {
        let Ok(raw) = RawGvar::parse(gv.as_bytes()) else { return };
        let (Ok(glyf), Ok(loca)) = (fr.glyf(), fr.loca(None)) else { return };
        ctx.label("metrics_corpus_gvar_fonts", name);
        for &gid in gids {
            let Ok(Some(Glyph::Simple(g))) = loca.get_glyf(GlyphId::new(gid), &glyf) else {
                ctx.count("metrics_corpus_gvar_non_simple_skipped", 1);
                continue;
            };
            let np = g.num_points();
            let Ok(var) = raw.glyph(gid as usize, np + 4) else { continue };
            let regions: Vec<Vec<TentBits>> = var.tuples.iter().map(|t| t.tents.clone()).collect();
            let cands = coord_candidates(&regions, raw.axis_count);
            for _ in 0..n_locs {
                let coords = gen_coords(rng, &cands);
                ctx.eval();
                let mut d0 = 0.0f64;
                let mut d1 = 0.0f64;
                let mut eps = 0.0f64;
                for t in &var.tuples {
                    let (s, k) = crate::model::region_scalar_f64(&t.tents, &coords);
                    if s == 0.0 {
                        continue;
                    }
                    let Ok(ex) = t.explicit(np + 4) else { continue };
                    let p0 = ex[np].map(|d| d.0).unwrap_or(0) as f64;
                    let p1 = ex[np + 1].map(|d| d.0).unwrap_or(0) as f64;
                    d0 += s * p0;
                    d1 += s * p1;
                    eps += (p0.abs() + p1.abs()) * k as f64 / 131072.0 + 2.0 / 65536.0;
                }
                let nc: Vec<NormalizedCoord> = coords.iter().map(|b| NormalizedCoord::from_bits(*b)).collect();
                let gm = fr.glyph_metrics(Size::unscaled(), LocationRef::new(&nc));
                let (Some(ba), Some(bl)) = (hm.advance(gid as usize), hm.lsb(gid as usize)) else { continue };
                let Ok((Some(a), Some(l))) = guard(move || (gm.advance_width(GlyphId::new(gid)), gm.left_side_bearing(GlyphId::new(gid)))) else { continue };
                let da = a as f64 - ba as f64;
                let dl = l as f64 - bl as f64;
                if (da - (d1 - d0)).abs() > 0.5 + eps || (dl - d0).abs() > 0.5 + eps || da.fract() != 0.0 {
                    ctx.violation(
                        &format!("metrics:corpus-gvar:{}:g{}", name, gid),
                        json!({"what": "advance/lsb differ from hmtx + rounded gvar phantom point deltas", "advance": a, "lsb": l, "base": [ba, bl], "exact_phantom_dx": [d0, d1], "eps": eps, "coords_f2dot14_bits": coords}),
                        None,
                    );
                }
                ctx.count("metrics_corpus_gvar_checked", 1);
                if d1 != 0.0 || d0 != 0.0 {
                    let mut dg = Digest::new();
                    dg.str(name);
                    dg.u64(gid as u64);
                    dg.dbg(&coords);
                    ctx.nontrivial(dg.finish());
                }
            }
        }
    }
}
