//! (c') HISTORIES of the normalisation APIs: the same caller-owned output
//! buffer is handed to several calls in a row, with different subsets of the
//! axes, shuffled order, duplicate tags, unknown tags, empty settings and
//! buffers shorter / longer than the axis count.
//!
//! Specified behaviour (doc comments of `Fvar::user_to_normalized`,
//! `AxisCollection::location` / `location_to_slice` / `filter`,
//! `LocationRef`): tags that match no axis are ignored; values are clamped;
//! when a tag is given more than once the LAST one is used; an axis without
//! a setting is set to 0 (its default); if the slice is shorter than the axis
//! count the axes beyond it are ignored; if it is longer the excess entries
//! are zero. Nothing of an EARLIER call may survive: the oracle is the exact
//! per-axis model of wl_norm applied to the settings of the last call only.
//! A setting applies to every axis that carries its tag (the library's
//! documented support for repeated axis tags).

use crate::model::{avar_exact, fixed_candidates, fixed_to_f2dot14, normalize_exact, Frac};
use crate::wl_norm::{gen_axis, AxisSpec};
use read_fonts::{FontRef, TableProvider};
use serde_json::{json, Value};
use skrifa::instance::{Location, LocationRef};
use skrifa::setting::VariationSetting;
use skrifa::MetadataProvider;
use vf_core::{guard, Ctx, Digest, Rng};
use write_fonts::tables::avar::{Avar, AxisValueMap, SegmentMaps};
use write_fonts::tables::fvar::{AxisInstanceArrays, Fvar, InstanceRecord, VariationAxisRecord};
use write_fonts::types::{F2Dot14, Fixed, NameId, Tag};
use write_fonts::FontBuilder;

fn axis_tag(a: usize) -> Tag {
    Tag::new(&[b'A', b'X', b'0' + (a / 10) as u8, b'0' + (a % 10) as u8])
}

fn build_font(axes: &[AxisSpec], tags: &[Tag], with_avar: bool, instances: &[Vec<i32>]) -> Result<Vec<u8>, String> {
    let recs: Vec<VariationAxisRecord> = axes
        .iter()
        .enumerate()
        .map(|(a, s)| VariationAxisRecord::new(tags[a], Fixed::from_bits(s.min), Fixed::from_bits(s.def), Fixed::from_bits(s.max), 0, NameId::new(256 + a as u16)))
        .collect();
    let inst: Vec<InstanceRecord> = instances
        .iter()
        .enumerate()
        .map(|(i, c)| InstanceRecord {
            subfamily_name_id: NameId::new(300 + i as u16),
            flags: 0,
            coordinates: c.iter().map(|v| Fixed::from_bits(*v)).collect(),
            post_script_name_id: None,
        })
        .collect();
    let fvar = Fvar::new(AxisInstanceArrays::new(recs, inst));
    let mut fb = FontBuilder::new();
    fb.add_table(&fvar).map_err(|e| format!("fvar: {}", e))?;
    if with_avar {
        let maps: Vec<SegmentMaps> = axes
            .iter()
            .map(|s| SegmentMaps::new(s.map.iter().map(|(f, t)| AxisValueMap::new(F2Dot14::from_bits(*f), F2Dot14::from_bits(*t))).collect()))
            .collect();
        fb.add_table(&Avar::new(maps)).map_err(|e| format!("avar: {}", e))?;
    }
    let head = write_fonts::tables::head::Head { units_per_em: 1000, ..Default::default() };
    fb.add_table(&head).map_err(|e| format!("head: {}", e))?;
    Ok(fb.build())
}

/// keep 24 significant bits so that the 16.16 value is exact as f32
fn f32_exact(x: i64) -> i32 {
    let x = x.clamp(-(32767 << 16), 32767 << 16);
    let m = x.unsigned_abs();
    let bits = 64 - m.leading_zeros() as i64;
    if bits > 24 {
        let sh = bits - 24;
        ((x >> sh) << sh) as i32
    } else {
        x as i32
    }
}

/// A user value (16.16 bits) for axis `s`; mostly values that do NOT
/// normalise to 0 so that a value left over from an earlier call shows.
fn draw_value(rng: &mut Rng, s: &AxisSpec) -> i32 {
    let (min, def, max) = (s.min as i64, s.def as i64, s.max as i64);
    let v = match rng.below(10) {
        0 => min,
        1 => max,
        2 => def,
        3 => min - rng.range(1, 5 << 16),
        4 => max + rng.range(1, 5 << 16),
        5 => (min + def) / 2,
        6 => (max + def) / 2,
        _ => rng.range(min - 65536, max + 65536),
    };
    f32_exact(v)
}

/// The 2.14 values accepted for axis `s` at user value `v` (same stages and
/// rounding freedom as wl_norm::check_axes_case).
fn accepted(s: &AxisSpec, with_avar: bool, v: i32) -> Vec<i64> {
    let q = normalize_exact(s.min as i64, s.def as i64, s.max as i64, v as i64);
    let cands = fixed_candidates(q);
    let mut acc = vec![];
    for c in &cands {
        if with_avar {
            let qm = if s.map.is_empty() { Frac::new(*c as i128, 65536) } else { avar_exact(&s.map, *c) };
            for m in fixed_candidates(qm) {
                acc.push(fixed_to_f2dot14(m));
            }
        } else {
            acc.push(fixed_to_f2dot14(*c));
        }
    }
    acc.sort_unstable();
    acc.dedup();
    acc
}

#[derive(Clone, Debug)]
struct Call {
    api: &'static str,
    /// (tag, 16.16 value) in call order
    settings: Vec<(Tag, i32)>,
}

fn draw_settings(rng: &mut Rng, axes: &[AxisSpec], tags: &[Tag], stats: &mut (bool, bool, bool, bool)) -> Vec<(Tag, i32)> {
    let n = axes.len();
    let mode = rng.below(8);
    let mut v: Vec<(Tag, i32)> = vec![];
    match mode {
        0 => {} // empty
        1 => {
            // every axis
            for a in 0..n {
                v.push((tags[a], draw_value(rng, &axes[a])));
            }
        }
        2 => {
            // exactly one axis
            let a = rng.usize(n);
            v.push((tags[a], draw_value(rng, &axes[a])));
        }
        3 => {
            // all but one
            let skip = rng.usize(n);
            for a in 0..n {
                if a != skip {
                    v.push((tags[a], draw_value(rng, &axes[a])));
                }
            }
        }
        _ => {
            let p = rng.range(1, 9) as u64;
            for a in 0..n {
                if rng.chance(p, 10) {
                    v.push((tags[a], draw_value(rng, &axes[a])));
                }
            }
        }
    }
    stats.0 |= v.is_empty();
    // duplicates: the last one wins
    if !v.is_empty() && rng.chance(2, 5) {
        for _ in 0..rng.range(1, 3) {
            let k = rng.usize(v.len());
            let tag = v[k].0;
            let a = tags.iter().position(|t| *t == tag).unwrap_or(0);
            let dup = (tag, draw_value(rng, &axes[a]));
            let at = rng.usize(v.len() + 1);
            v.insert(at, dup);
            stats.1 = true;
        }
    }
    // unknown tags, also ones that differ from a real tag in case / one byte only
    if rng.chance(2, 5) {
        for _ in 0..rng.range(1, 3) {
            let t = match rng.below(4) {
                0 => Tag::new(b"ZZZZ"),
                1 => Tag::new(b"ax00"),
                2 => Tag::new(&[b'A', b'X', b'9', b'0' + rng.below(10) as u8]),
                _ => Tag::new(b"wght"),
            };
            if tags.contains(&t) {
                continue;
            }
            let at = rng.usize(v.len() + 1);
            v.insert(at, (t, f32_exact(rng.range(-(1000 << 16), 1000 << 16))));
            stats.2 = true;
        }
    }
    if rng.bool() {
        rng.shuffle(&mut v);
        stats.3 = true;
    }
    v
}

/// last-wins model: per axis the value of the last setting that carries its tag
fn last_values(n: usize, tags: &[Tag], settings: &[(Tag, i32)]) -> Vec<Option<i32>> {
    (0..n).map(|a| settings.iter().rev().find(|s| s.0 == tags[a]).map(|s| s.1)).collect()
}

fn tag_str(t: &Tag) -> String {
    t.to_string()
}

fn settings_json(s: &[(Tag, i32)]) -> Value {
    Value::Array(s.iter().map(|(t, v)| json!([tag_str(t), v])).collect())
}

pub fn check_history_case(ctx: &mut Ctx, rng: &mut Rng, case: u64) {
    // ---- the font
    let n_axes = match rng.below(10) {
        0 => 1,
        1..=6 => rng.range(2, 5) as usize,
        7 | 8 => rng.range(6, 8) as usize,
        _ => rng.range(9, 12) as usize, // beyond Location's inline storage
    };
    let mut axes: Vec<AxisSpec> = (0..n_axes).map(|_| gen_axis(rng)).collect();
    let with_avar = rng.chance(1, 3);
    if !with_avar {
        for a in axes.iter_mut() {
            a.map.clear();
        }
    }
    let mut tags: Vec<Tag> = (0..n_axes).map(axis_tag).collect();
    let dup_axis_tags = n_axes >= 2 && rng.chance(1, 12);
    if dup_axis_tags {
        let a = rng.usize(n_axes);
        let b = (a + 1 + rng.usize(n_axes - 1)) % n_axes;
        tags[b] = tags[a];
    }
    let n_inst = if dup_axis_tags { 0 } else { rng.below(3) as usize };
    let instances: Vec<Vec<i32>> = (0..n_inst).map(|_| axes.iter().map(|s| draw_value(rng, s)).collect()).collect();
    let font = match guard(|| build_font(&axes, &tags, with_avar, &instances)) {
        Ok(Ok(f)) => f,
        Ok(Err(e)) => {
            ctx.count("hist_font_build_failed", 1);
            ctx.sample_by_kind("hist_build_failed", json!({"error": e}));
            return;
        }
        Err(p) => {
            ctx.judge_panic(&p, "building fvar/avar (history)", json!({"axes": format!("{:?}", axes)}), None);
            return;
        }
    };
    let Ok(fr) = FontRef::new(&font) else {
        ctx.count("hist_font_unreadable", 1);
        return;
    };
    let Ok(fvar) = fr.fvar() else {
        ctx.count("hist_font_unreadable", 1);
        return;
    };
    let avar = fr.avar().ok();
    if with_avar != avar.is_some() {
        ctx.count("hist_font_unreadable", 1);
        return;
    }
    let sk_axes = fr.axes();
    ctx.count("hist_fonts_built", 1);

    // ---- the reused buffers
    let len = match rng.below(10) {
        0 => 0,
        1 => n_axes - 1,
        2 => rng.usize(n_axes),
        3 => n_axes + 1,
        4 => n_axes + rng.range(2, 9) as usize,
        _ => n_axes,
    };
    let len_class = if len < n_axes { "shorter" } else if len > n_axes { "longer" } else { "equal" };
    let dirty = rng.chance(2, 3);
    let junk = |rng: &mut Rng| F2Dot14::from_bits(*rng.pick(&[16384i16, -16384, 1, -1, 8192, 12345, -7777]));
    let mut buf: Vec<F2Dot14> = (0..len).map(|_| if dirty { junk(rng) } else { F2Dot14::ZERO }).collect();
    let mut loc = Location::new(len);
    if dirty {
        for c in loc.coords_mut() {
            *c = junk(rng);
        }
    }

    // ---- the history
    let n_calls = rng.range(2, 4) as usize;
    let mut stats = (false, false, false, false);
    let mut history: Vec<Call> = vec![];
    let mut prev_set: Vec<bool> = vec![false; n_axes]; // axes that received a non-zero value in the buffer used
    let mut prev_set_loc: Vec<bool> = vec![false; n_axes];
    let mut omitted_after_set = false;
    for step in 0..n_calls {
        let api: &'static str = *rng.pick(&["location_to_slice", "location_to_slice", "user_to_normalized", "location_to_slice(Location)", "location"]);
        let settings = draw_settings(rng, &axes, &tags, &mut stats);
        history.push(Call { api, settings: settings.clone() });
        let want = last_values(n_axes, &tags, &settings);
        let sk_settings: Vec<VariationSetting> = settings.iter().map(|(t, v)| VariationSetting::new(*t, *v as f32 / 65536.0)).collect();
        ctx.eval();
        ctx.count(&format!("hist_calls:{}", api), 1);
        // run the call
        let got: Vec<i16> = match api {
            "location_to_slice" => {
                let r = guard(|| {
                    let mut b = buf.clone();
                    sk_axes.location_to_slice(sk_settings.iter().copied(), &mut b);
                    b
                });
                match r {
                    Ok(b) => {
                        buf = b;
                        buf.iter().map(|c| c.to_bits()).collect()
                    }
                    Err(p) => {
                        ctx.judge_panic(&p, "AxisCollection::location_to_slice", json!({"case": case, "step": step, "settings": settings_json(&settings), "buffer_len": len}), Some(&font));
                        return;
                    }
                }
            }
            "user_to_normalized" => {
                let fixed: Vec<(Tag, Fixed)> = settings.iter().map(|(t, v)| (*t, Fixed::from_bits(*v))).collect();
                let r = guard(|| {
                    let mut b = buf.clone();
                    fvar.user_to_normalized(avar.as_ref(), fixed.iter().copied(), &mut b);
                    b
                });
                match r {
                    Ok(b) => {
                        buf = b;
                        buf.iter().map(|c| c.to_bits()).collect()
                    }
                    Err(p) => {
                        ctx.judge_panic(&p, "Fvar::user_to_normalized", json!({"case": case, "step": step, "settings": settings_json(&settings), "buffer_len": len}), Some(&font));
                        return;
                    }
                }
            }
            "location_to_slice(Location)" => {
                let r = guard(|| {
                    let mut l = loc.clone();
                    sk_axes.location_to_slice(sk_settings.iter().copied(), l.coords_mut());
                    l
                });
                match r {
                    Ok(l) => {
                        loc = l;
                        loc.coords().iter().map(|c| c.to_bits()).collect()
                    }
                    Err(p) => {
                        ctx.judge_panic(&p, "AxisCollection::location_to_slice on Location::coords_mut", json!({"case": case, "step": step, "settings": settings_json(&settings), "buffer_len": len}), Some(&font));
                        return;
                    }
                }
            }
            _ => {
                let r = guard(|| sk_axes.location(sk_settings.iter().copied()));
                match r {
                    Ok(l) => l.coords().iter().map(|c| c.to_bits()).collect(),
                    Err(p) => {
                        ctx.judge_panic(&p, "AxisCollection::location", json!({"case": case, "step": step, "settings": settings_json(&settings)}), Some(&font));
                        return;
                    }
                }
            }
        };
        let expect_len = if api == "location" { n_axes } else { len };
        let sig = |what: &str, a: usize| format!("norm-history:{}:case{}:step{}:{}:axis{}", what, case, step, api, a);
        let detail = |what: &str, a: usize, got_v: i64, acc: &[i64], history: &[Call]| {
            json!({"what": what, "axis_index": a, "got_2_14": got_v, "accepted_2_14": acc, "n_axes": n_axes, "buffer_len": expect_len,
                   "axis_tags": tags.iter().map(tag_str).collect::<Vec<_>>(),
                   "axes_min_def_max_16_16": axes.iter().map(|s| json!([s.min, s.def, s.max])).collect::<Vec<_>>(),
                   "avar": with_avar, "buffer_initially_dirty": dirty,
                   "history": history.iter().map(|c| json!({"api": c.api, "settings_tag_value_16_16": settings_json(&c.settings)})).collect::<Vec<_>>()})
        };
        if got.len() != expect_len {
            ctx.violation(&sig("length", 0), detail("the output has a different length than the buffer / the axis count", 0, got.len() as i64, &[expect_len as i64], &history), Some(&font));
            return;
        }
        let mut scratch = vec![false; n_axes];
        let tracked: &mut Vec<bool> = match api {
            "location_to_slice(Location)" => &mut prev_set_loc,
            "location" => &mut scratch,
            _ => &mut prev_set,
        };
        for i in 0..expect_len {
            let g = got[i] as i64;
            if i >= n_axes {
                if g != 0 {
                    ctx.violation(&sig("excess-entry-not-zero", i), detail("an entry beyond the axis count is not zero", i, g, &[0], &history), Some(&font));
                    return;
                }
                ctx.count("hist_excess_entries_checked", 1);
                continue;
            }
            let acc = match want[i] {
                Some(v) => accepted(&axes[i], with_avar, v),
                None => vec![0],
            };
            if !acc.contains(&g) {
                let what = if want[i].is_none() {
                    "an axis WITHOUT a setting in this call does not normalise to 0 (its default)"
                } else {
                    "an axis does not carry the normalised value of the LAST setting with its tag"
                };
                ctx.violation(&sig(if want[i].is_none() { "omitted-axis-not-default" } else { "wrong-value" }, i), detail(what, i, g, &acc, &history), Some(&font));
                return;
            }
            if want[i].is_none() {
                ctx.count("hist_omitted_axes_checked", 1);
                if tracked[i] {
                    ctx.count("hist_omitted_axes_that_held_a_nonzero_value_from_an_earlier_call", 1);
                    omitted_after_set = true;
                }
            } else {
                ctx.count("hist_set_axes_checked", 1);
            }
            tracked[i] = g != 0;
        }
        // LocationRef construction paths: views of the same coordinates
        {
            let src: Vec<F2Dot14> = got.iter().map(|b| F2Dot14::from_bits(*b)).collect();
            let l2 = {
                let mut l = Location::new(src.len());
                l.coords_mut().copy_from_slice(&src);
                l
            };
            let r1 = LocationRef::new(&src);
            let r2 = LocationRef::from(&src[..]);
            let r3 = LocationRef::from(&l2);
            let all_zero = src.iter().all(|c| c.to_bits() == 0);
            for (k, r) in [r1, r2, r3].iter().enumerate() {
                let same = r.coords().len() == src.len() && r.coords().iter().zip(&src).all(|(a, b)| a.to_bits() == b.to_bits());
                let iter_same = r.into_iter().map(|c| c.to_bits()).eq(src.iter().map(|c| c.to_bits()));
                if !same || !iter_same || r.is_default() != all_zero {
                    ctx.violation(
                        &format!("norm-history:locationref-path{}:case{}:step{}", k, case, step),
                        json!({"what": "LocationRef does not present the coordinates it was constructed from (or is_default disagrees with all-zero)",
                               "coords_2_14": got, "path": (["LocationRef::new", "From<&[NormalizedCoord]>", "From<&Location>"][k])}),
                        Some(&font),
                    );
                    return;
                }
            }
            ctx.count("hist_locationref_views_checked", 3);
        }
        // AxisCollection::filter on the same settings: one entry per axis that has a setting, last value, clamped
        {
            let r = guard(|| sk_axes.filter(sk_settings.iter().copied()).collect::<Vec<VariationSetting>>());
            if let Ok(f) = r {
                let want_axes: Vec<usize> = (0..n_axes).filter(|a| want[*a].is_some()).collect();
                let mut ok = f.len() == want_axes.len();
                if ok {
                    for (e, a) in f.iter().zip(&want_axes) {
                        let s = &axes[*a];
                        let exact = |x: i32| f32_exact(x as i64) == x;
                        if e.selector != tags[*a] {
                            ok = false;
                            break;
                        }
                        if exact(s.min) && exact(s.max) && s.min <= s.max {
                            let v = want[*a].unwrap_or(0).clamp(s.min, s.max);
                            if e.value != v as f32 / 65536.0 {
                                ok = false;
                                break;
                            }
                        }
                    }
                }
                if !ok {
                    ctx.violation(
                        &format!("norm-history:filter:case{}:step{}", case, step),
                        json!({"what": "AxisCollection::filter: expected one setting per axis that has a matching selector (axis order), with the LAST value given, clamped to the axis range",
                               "settings_tag_value_16_16": settings_json(&settings), "axis_tags": tags.iter().map(tag_str).collect::<Vec<_>>(),
                               "axes_min_def_max_16_16": axes.iter().map(|s| json!([s.min, s.def, s.max])).collect::<Vec<_>>(),
                               "got": f.iter().map(|e| json!([tag_str(&e.selector), e.value])).collect::<Vec<_>>()}),
                        Some(&font),
                    );
                    return;
                }
                ctx.count("hist_filter_checked", 1);
            }
        }
    }

    // ---- named instances into the (dirty) reused buffer
    if n_inst > 0 {
        let insts = fr.named_instances();
        for (ii, coords) in instances.iter().enumerate() {
            let Some(inst) = insts.get(ii) else { continue };
            ctx.eval();
            let into_buf = rng.bool();
            let r = guard(|| {
                if into_buf {
                    let mut b = buf.clone();
                    inst.location_to_slice(&mut b);
                    b
                } else {
                    inst.location().coords().to_vec()
                }
            });
            let Ok(b) = r else { continue };
            let expect_len = if into_buf { len } else { n_axes };
            let mut bad: Option<(usize, i64, Vec<i64>)> = None;
            if b.len() != expect_len {
                bad = Some((0, b.len() as i64, vec![expect_len as i64]));
            } else {
                for (i, c) in b.iter().enumerate() {
                    let acc = if i < n_axes { accepted(&axes[i], with_avar, coords[i]) } else { vec![0] };
                    if !acc.contains(&(c.to_bits() as i64)) {
                        bad = Some((i, c.to_bits() as i64, acc));
                        break;
                    }
                }
            }
            if let Some((i, g, acc)) = bad {
                ctx.violation(
                    &format!("norm-history:named-instance:case{}:instance{}:axis{}", case, ii, i),
                    json!({"what": "NamedInstance::location(_to_slice) differs from normalising the instance's user coordinates", "axis_index": i, "got_2_14": g, "accepted_2_14": acc,
                           "instance_coords_16_16": coords, "axes_min_def_max_16_16": axes.iter().map(|s| json!([s.min, s.def, s.max])).collect::<Vec<_>>(), "into_reused_buffer": into_buf, "buffer_len": len}),
                    Some(&font),
                );
                return;
            }
            if into_buf {
                buf = b;
            }
            ctx.count("hist_named_instance_locations_checked", 1);
        }
    }

    // ---- evidence
    ctx.count(&format!("hist_buffer_len:{}", len_class), 1);
    if dirty {
        ctx.count("hist_buffer_initially_dirty", 1);
    }
    if stats.0 {
        ctx.count("hist_histories_with_empty_settings", 1);
    }
    if stats.1 {
        ctx.count("hist_histories_with_duplicate_tags", 1);
    }
    if stats.2 {
        ctx.count("hist_histories_with_unknown_tags", 1);
    }
    if stats.3 {
        ctx.count("hist_histories_with_shuffled_order", 1);
    }
    if dup_axis_tags {
        ctx.count("hist_fonts_with_repeated_axis_tag", 1);
    }
    if n_axes > 8 {
        ctx.count("hist_fonts_with_more_than_8_axes", 1);
    }
    ctx.count("hist_histories", 1);
    ctx.distinct("hist_history_lengths", history.len() as u64);
    if omitted_after_set {
        // non-trivial: a later call omitted an axis that an earlier call on the same buffer had moved off its default
        let mut d = Digest::new();
        d.str("hist");
        for s in &axes {
            d.i64(s.min as i64);
            d.i64(s.def as i64);
            d.i64(s.max as i64);
        }
        for c in &history {
            d.str(c.api);
            for (t, v) in &c.settings {
                d.str(&tag_str(t));
                d.i64(*v as i64);
            }
        }
        ctx.nontrivial(d.finish());
        ctx.count("hist_histories_where_a_later_call_omits_an_axis_set_earlier", 1);
        ctx.sample_by_kind(
            "norm-history",
            json!({"n_axes": n_axes, "buffer_len": len, "avar": with_avar,
                   "history": history.iter().map(|c| json!({"api": c.api, "settings_tag_value_16_16": settings_json(&c.settings)})).collect::<Vec<_>>()}),
        );
    }
}
