fn main() {
    vf_core::main_with("C11", vf_c11::run, vf_c11::REPLAY);
}
