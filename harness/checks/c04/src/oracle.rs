//! The round-trip oracle for one typed value.

use read_fonts::ReadError;
use serde::{de::DeserializeOwned, Serialize};
use serde_json::Value;
use crate::mutate::{get_mut, Step};
use vf_core::{guard, PanicInfo};
use write_fonts::{dump_table, error::Error, validate::Validate, FontWrite};

/// One difference between the written value and the re-read value.
#[derive(Clone, Debug)]
pub struct Diff {
    /// field path with array indices erased (`.a.b[].c`)
    pub path: String,
    /// concrete path
    pub cpath: Vec<Step>,
    pub kind: DiffKind,
    pub written: String,
    pub read: String,
}

#[derive(Clone, Copy, Debug, PartialEq, Eq)]
pub enum DiffKind {
    /// written non-null, read null
    SomeToNull,
    /// written null, read non-null
    NullToSome,
    /// array read back longer than written
    ArrayLonger,
    /// array read back shorter than written
    ArrayShorter,
    /// enum variant / object key set changed
    Variant,
    /// scalar differs
    Scalar,
}

impl DiffKind {
    pub fn as_str(&self) -> &'static str {
        match self {
            DiffKind::SomeToNull => "some->null",
            DiffKind::NullToSome => "null->some",
            DiffKind::ArrayLonger => "array-longer",
            DiffKind::ArrayShorter => "array-shorter",
            DiffKind::Variant => "variant",
            DiffKind::Scalar => "scalar",
        }
    }
}

/// `String::truncate` that never splits a character.
pub fn safe_truncate(s: &mut String, max: usize) {
    if s.len() > max {
        let mut e = max;
        while !s.is_char_boundary(e) {
            e -= 1;
        }
        s.truncate(e);
    }
}

fn short(v: &Value) -> String {
    let s = v.to_string();
    if s.len() > 120 {
        let mut e = 120;
        while !s.is_char_boundary(e) {
            e -= 1;
        }
        format!("{}…", &s[..e])
    } else {
        s
    }
}

pub fn diff_values(a: &Value, b: &Value, path: &mut String, cpath: &mut Vec<Step>, out: &mut Vec<Diff>) {
    if out.len() >= 12 || a == b {
        return;
    }
    let mk = |kind: DiffKind, path: &String, cpath: &Vec<Step>, w: String, r: String| Diff { path: path.clone(), cpath: cpath.clone(), kind, written: w, read: r };
    match (a, b) {
        (Value::Object(ma), Value::Object(mb)) => {
            let same_keys = ma.len() == mb.len() && ma.keys().all(|k| mb.contains_key(k));
            if !same_keys {
                out.push(mk(DiffKind::Variant, path, cpath, short(a), short(b)));
                return;
            }
            for (k, va) in ma {
                let l = path.len();
                path.push('.');
                path.push_str(k);
                cpath.push(Step::Key(k.clone()));
                diff_values(va, &mb[k], path, cpath, out);
                cpath.pop();
                path.truncate(l);
            }
        }
        (Value::Array(xa), Value::Array(xb)) => {
            if xa.len() != xb.len() {
                let kind = if xb.len() > xa.len() { DiffKind::ArrayLonger } else { DiffKind::ArrayShorter };
                out.push(mk(kind, path, cpath, format!("len {}", xa.len()), format!("len {}", xb.len())));
            }
            let l = path.len();
            path.push_str("[]");
            for (i, (va, vb)) in xa.iter().zip(xb.iter()).enumerate() {
                cpath.push(Step::Idx(i));
                diff_values(va, vb, path, cpath, out);
                cpath.pop();
                if out.len() >= 12 {
                    break;
                }
            }
            path.truncate(l);
        }
        (Value::Null, _) => out.push(mk(DiffKind::NullToSome, path, cpath, short(a), short(b))),
        (_, Value::Null) => out.push(mk(DiffKind::SomeToNull, path, cpath, short(a), short(b))),
        _ => out.push(mk(DiffKind::Scalar, path, cpath, short(a), short(b))),
    }
}

pub enum Outcome {
    /// JSON is not a value of the type
    DeserRejected,
    /// `validate()` rejected the value
    ValidateRejected(String),
    /// a panic in library code; `stage` says where
    Panic { stage: &'static str, info: PanicInfo, bytes: Option<Vec<u8>> },
    /// no packing found (legal outcome for oversized graphs)
    PackingFailed,
    /// compiled bytes cannot be read back
    ReadError { bytes: Vec<u8>, err: String, written: Value },
    /// the value has no consistent read arguments
    NotApplicable,
    Done(Box<Done>),
}

pub struct Done {
    pub bytes: Vec<u8>,
    /// canonical JSON of the written value
    pub written: Value,
    /// `to_owned(read(bytes)) == v`
    pub equal: bool,
    pub diffs: Vec<Diff>,
    /// `dump(to_owned(read(bytes))) == bytes`; None if the second dump failed
    pub redump: Result<bool, String>,
    /// the re-read value no longer validates (only meaningful if !equal)
    pub reread_invalid: Option<String>,
    /// third generation differs from second (read(dump(v2)) != v2)
    pub second_gen_unstable: bool,
    /// Some(true): all conditional fields that read back as None were proven
    /// unneeded (value without them validates and compiles to the same bytes)
    pub gated_fields_proven_unneeded: Option<bool>,
}

/// Reads compiled bytes back into the owned type, with read arguments derived
/// from the written value; `None` = no consistent read arguments exist for this
/// value (e.g. sbix strikes of different lengths).
pub type Reader<T> = fn(&[u8], &T) -> Option<Result<T, ReadError>>;

pub fn check_typed<T>(json: &Value, read: Reader<T>) -> Outcome
where
    T: FontWrite + Validate + Serialize + DeserializeOwned + PartialEq + std::fmt::Debug,
{
    let v: T = match T::deserialize(json) {
        Ok(v) => v,
        Err(_) => return Outcome::DeserRejected,
    };
    match guard(|| v.validate()) {
        Err(p) => return Outcome::Panic { stage: "validate", info: p, bytes: None },
        Ok(Err(e)) => {
            let mut s = format!("{:?}", e);
            crate::oracle::safe_truncate(&mut s, 200);
            return Outcome::ValidateRejected(s);
        }
        Ok(Ok(())) => {}
    }
    let bytes = match guard(|| dump_table(&v)) {
        Err(p) => return Outcome::Panic { stage: "dump", info: p, bytes: None },
        Ok(Err(Error::PackingFailed(_))) => return Outcome::PackingFailed,
        Ok(Err(Error::ValidationFailed(e))) => {
            let mut s = format!("{:?}", e);
            crate::oracle::safe_truncate(&mut s, 200);
            return Outcome::ValidateRejected(s);
        }
        Ok(Ok(b)) => b,
    };
    let v2 = match guard(|| read(&bytes, &v)) {
        Err(p) => return Outcome::Panic { stage: "read", info: p, bytes: Some(bytes) },
        Ok(None) => return Outcome::NotApplicable,
        Ok(Some(Err(e))) => return Outcome::ReadError { bytes, err: format!("{}", e), written: serde_json::to_value(&v).unwrap_or(Value::Null) },
        Ok(Some(Ok(v2))) => v2,
    };
    let equal = v2 == v;
    let written = serde_json::to_value(&v).unwrap_or(Value::Null);
    let mut diffs = vec![];
    let mut reread_invalid = None;
    let mut gated_fields_proven_unneeded = None;
    if !equal {
        let j2 = serde_json::to_value(&v2).unwrap_or(Value::Null);
        let mut p = String::new();
        let mut cp = vec![];
        diff_values(&written, &j2, &mut p, &mut cp, &mut diffs);
        if diffs.is_empty() {
            // PartialEq says different, JSON says equal: report as a scalar diff at root
            diffs.push(Diff { path: "<eq>".into(), cpath: vec![], kind: DiffKind::Scalar, written: "json-equal".into(), read: "json-equal".into() });
        }
        // Conditional fields (Option<..>, not offset markers) that were written
        // as Some and read back as None: legitimate only if the value with
        // those fields set to None still validates (the validator's own
        // version/flag gate says "not required") and compiles to the very
        // same bytes.
        let gated: Vec<&Diff> = diffs.iter().filter(|d| d.kind == DiffKind::SomeToNull && !d.path.ends_with(".obj")).collect();
        if !gated.is_empty() {
            let mut j = written.clone();
            let mut ok = true;
            for d in &gated {
                match get_mut(&mut j, &d.cpath) {
                    Some(slot) => *slot = Value::Null,
                    None => ok = false,
                }
            }
            if ok {
                ok = match T::deserialize(&j) {
                    Ok(vn) => matches!(guard(|| vn.validate().is_ok() && dump_table(&vn).map(|b| b == bytes).unwrap_or(false)), Ok(true)),
                    Err(_) => false,
                };
            }
            gated_fields_proven_unneeded = Some(ok);
        }
        if let Ok(Err(e)) = guard(|| v2.validate()) {
            let mut s = format!("{:?}", e);
            crate::oracle::safe_truncate(&mut s, 200);
            reread_invalid = Some(s);
        }
    }
    let mut second_gen_unstable = false;
    let redump = match guard(|| dump_table(&v2)) {
        Err(p) => return Outcome::Panic { stage: "redump", info: p, bytes: Some(bytes) },
        Ok(Err(e)) => {
            let mut s = format!("{}", e);
            crate::oracle::safe_truncate(&mut s, 200);
            Err(s)
        }
        Ok(Ok(b2)) => {
            if !equal && b2 == bytes {
                // nothing more to learn: same bytes read back the same
            } else if !equal {
                // the normalised value must itself be a fixed point
                if let Ok(Some(Ok(v3))) = guard(|| read(&b2, &v2)) {
                    second_gen_unstable = v3 != v2;
                }
            }
            Ok(b2 == bytes)
        }
    };
    Outcome::Done(Box::new(Done { bytes, written, equal, diffs, redump, reread_invalid, second_gen_unstable, gated_fields_proven_unneeded }))
}

/// Does `json` deserialise into T and serialise back to exactly `json`?
pub fn matches_exact<T>(json: &Value) -> bool
where
    T: Serialize + DeserializeOwned,
{
    match T::deserialize(json) {
        Ok(v) => serde_json::to_value(&v).map(|j| &j == json).unwrap_or(false),
        Err(_) => false,
    }
}
