//! Type-specific parts: direct read-side checks, hand-written tables that do
//! not go through the serde pipeline, and the allow-list of explained
//! normalisations.

use crate::oracle::Diff;
use crate::registry::Entry;
use read_fonts::{FontRef, TableProvider};
use serde_json::{json, Value};
use vf_core::{guard, Ctx};

/// Type-specific explained normalisations (see lib.rs `explain`).
pub fn explain(_type_name: &str, _d: &Diff) -> Option<&'static str> {
    None
}

/// Read-side check for the known defect class: an array getter must not
/// yield more elements than its count field says were written.
pub fn direct_read_checks(ctx: &mut Ctx, font: &FontRef, origin: &str) {
    if let Ok(Ok(avar)) = guard(|| font.avar()) {
        ctx.eval();
        let written = avar.axis_count() as usize;
        let r = guard(|| avar.axis_segment_maps().iter().take(written + 64).filter(|m| m.is_ok()).count());
        if let Ok(read) = r {
            ctx.count("direct:avar_segment_map_counts_checked", 1);
            ctx.label("direct:avar_versions", &format!("{}", avar.version()));
            if read != written {
                ctx.violation(
                    "varlen-overread:Avar:axis_segment_maps",
                    json!({"font": origin, "axis_count": written, "maps_yielded_by_getter": read, "version": format!("{}", avar.version())}),
                    None,
                );
            }
        }
    }
}

/// Stand-alone subtables from font-test-data (the spec's worked examples and
/// the IFT fixtures): (registered type name, bytes, origin).
pub fn extra_byte_seeds() -> Vec<(&'static str, Vec<u8>, &'static str)> {
    use font_test_data::{gdef, gpos, gsub, ift, layout};
    let mut v: Vec<(&'static str, Vec<u8>, &'static str)> = vec![
        ("ScriptList", layout::SCRIPTS.to_vec(), "td:SCRIPTS"),
        ("Script", layout::SCRIPTS_AND_LANGUAGES.to_vec(), "td:SCRIPTS_AND_LANGUAGES"),
        ("FeatureList", layout::FEATURELIST_AND_FEATURE.to_vec(), "td:FEATURELIST_AND_FEATURE"),
        ("SinglePosFormat1", gpos::SINGLEPOSFORMAT1.to_vec(), "td:SINGLEPOSFORMAT1"),
        ("SinglePosFormat2", gpos::SINGLEPOSFORMAT2.to_vec(), "td:SINGLEPOSFORMAT2"),
        ("PairPosFormat1", gpos::PAIRPOSFORMAT1.to_vec(), "td:PAIRPOSFORMAT1"),
        ("PairPosFormat2", gpos::PAIRPOSFORMAT2.to_vec(), "td:PAIRPOSFORMAT2"),
        ("CursivePosFormat1", gpos::CURSIVEPOSFORMAT1.to_vec(), "td:CURSIVEPOSFORMAT1"),
        ("MarkBasePosFormat1", gpos::MARKBASEPOSFORMAT1.to_vec(), "td:MARKBASEPOSFORMAT1"),
        ("MarkLigPosFormat1", gpos::MARKLIGPOSFORMAT1.to_vec(), "td:MARKLIGPOSFORMAT1"),
        ("MarkMarkPosFormat1", gpos::MARKMARKPOSFORMAT1.to_vec(), "td:MARKMARKPOSFORMAT1"),
        ("SequenceContextFormat1", gpos::CONTEXTUALPOSFORMAT1.to_vec(), "td:CONTEXTUALPOSFORMAT1"),
        ("SequenceContextFormat2", gpos::CONTEXTUALPOSFORMAT2.to_vec(), "td:CONTEXTUALPOSFORMAT2"),
        ("SequenceContextFormat3", gpos::CONTEXTUALPOSFORMAT3.to_vec(), "td:CONTEXTUALPOSFORMAT3"),
        ("SinglePosFormat1", gpos::VALUEFORMATTABLE.to_vec(), "td:VALUEFORMATTABLE"),
        ("AnchorFormat1", gpos::ANCHORFORMAT1.to_vec(), "td:ANCHORFORMAT1"),
        ("AnchorFormat2", gpos::ANCHORFORMAT2.to_vec(), "td:ANCHORFORMAT2"),
        ("AnchorFormat3", gpos::ANCHORFORMAT3.to_vec(), "td:ANCHORFORMAT3"),
        ("SingleSubstFormat1", gsub::SINGLESUBSTFORMAT1_TABLE.to_vec(), "td:SINGLESUBSTFORMAT1"),
        ("SingleSubstFormat2", gsub::SINGLESUBSTFORMAT2_TABLE.to_vec(), "td:SINGLESUBSTFORMAT2"),
        ("MultipleSubstFormat1", gsub::MULTIPLESUBSTFORMAT1_TABLE.to_vec(), "td:MULTIPLESUBSTFORMAT1"),
        ("AlternateSubstFormat1", gsub::ALTERNATESUBSTFORMAT1_TABLE.to_vec(), "td:ALTERNATESUBSTFORMAT1"),
        ("LigatureSubstFormat1", gsub::LIGATURESUBSTFORMAT1_TABLE.to_vec(), "td:LIGATURESUBSTFORMAT1"),
        ("SequenceContextFormat1", gsub::CONTEXTUAL_SUBSTITUTION_FORMAT1.to_vec(), "td:CONTEXTUAL_SUBSTITUTION_FORMAT1"),
        ("SequenceContextFormat2", gsub::CONTEXTUAL_SUBSTITUTION_FORMAT2.to_vec(), "td:CONTEXTUAL_SUBSTITUTION_FORMAT2"),
        ("SequenceContextFormat3", gsub::CONTEXTUAL_SUBSTITUTION_FORMAT3.to_vec(), "td:CONTEXTUAL_SUBSTITUTION_FORMAT3"),
        ("ReverseChainSingleSubstFormat1", gsub::REVERSECHAINSINGLESUBSTFORMAT1.to_vec(), "td:REVERSECHAINSINGLESUBSTFORMAT1"),
        ("ClassDef", gdef::GLYPHCLASSDEF_TABLE.to_vec(), "td:GLYPHCLASSDEF_TABLE"),
        ("AttachList", gdef::ATTACHLIST_TABLE.to_vec(), "td:ATTACHLIST_TABLE"),
        ("LigCaretList", gdef::LIGCARETLIST_TABLE.to_vec(), "td:LIGCARETLIST_TABLE"),
        ("CaretValueFormat3", gdef::CARETVALUEFORMAT3_TABLE.to_vec(), "td:CARETVALUEFORMAT3_TABLE"),
        ("ClassDef", gdef::MARKATTACHCLASSDEF_TABLE.to_vec(), "td:MARKATTACHCLASSDEF_TABLE"),
        ("Cmap4", font_test_data::cmap::repetitive_cmap4().as_slice().to_vec(), "td:repetitive_cmap4"),
    ];
    let ift_seeds: Vec<(&'static str, font_test_data::bebuffer::BeBuffer, &'static str)> = vec![
        ("Ift", ift::simple_format1(), "td:ift::simple_format1"),
        ("Ift", ift::u16_entries_format1(), "td:ift::u16_entries_format1"),
        ("Ift", ift::feature_map_format1(), "td:ift::feature_map_format1"),
        ("Ift", ift::codepoints_only_format2(), "td:ift::codepoints_only_format2"),
        ("Ift", ift::features_and_design_space_format2(), "td:ift::features_and_design_space_format2"),
        ("Ift", ift::child_indices_format2(), "td:ift::child_indices_format2"),
        ("Ift", ift::custom_ids_format2(), "td:ift::custom_ids_format2"),
        ("Ift", ift::string_ids_format2(), "td:ift::string_ids_format2"),
        ("Ift", ift::table_keyed_format2(), "td:ift::table_keyed_format2"),
        ("TableKeyedPatch", ift::table_keyed_patch(), "td:ift::table_keyed_patch"),
        ("TableKeyedPatch", ift::noop_table_keyed_patch(), "td:ift::noop_table_keyed_patch"),
        ("GlyphKeyedPatch", ift::glyph_keyed_patch_header(), "td:ift::glyph_keyed_patch_header"),
    ];
    for (n, b, o) in ift_seeds {
        v.push((n, b.as_slice().to_vec(), o));
    }
    v
}

pub fn run_special(_ctx: &mut Ctx) {}

pub fn replay(_ctx: &mut Ctx, _rec: &Value) -> bool {
    false
}
