//! Type-specific parts: direct read-side checks, hand-written tables that do
//! not go through the serde pipeline, and the allow-list of explained
//! normalisations.

use crate::oracle::Diff;
use crate::registry::Entry;
use read_fonts::{FontRef, TableProvider};
use serde_json::{json, Value};
use vf_core::{guard, Ctx};

/// Type-specific explained normalisations (see lib.rs `explain`).
pub fn explain(_type_name: &str, _d: &Diff) -> Option<&'static str> {
    None
}

/// Read-side check for the known defect class: an array getter must not
/// yield more elements than its count field says were written.
pub fn direct_read_checks(ctx: &mut Ctx, font: &FontRef, origin: &str) {
    if let Ok(Ok(avar)) = guard(|| font.avar()) {
        ctx.eval();
        let written = avar.axis_count() as usize;
        let r = guard(|| avar.axis_segment_maps().iter().take(written + 64).filter(|m| m.is_ok()).count());
        if let Ok(read) = r {
            ctx.count("direct:avar_segment_map_counts_checked", 1);
            ctx.label("direct:avar_versions", &format!("{}", avar.version()));
            if read != written {
                ctx.violation(
                    "varlen-overread:Avar:axis_segment_maps",
                    json!({"font": origin, "axis_count": written, "maps_yielded_by_getter": read, "version": format!("{}", avar.version())}),
                    None,
                );
            }
        }
    }
}

pub fn extra_seeds(_entries: &[Entry], _add: &mut dyn FnMut(usize, Value, &str)) {}

pub fn run_special(_ctx: &mut Ctx) {}

pub fn replay(_ctx: &mut Ctx, _rec: &Value) -> bool {
    false
}
